"""tools/scan_determinism.py <Cxx> ... : explore every unit of the given properties (quick tier) twice and report the units whose number of
paths / obligations (or undecided reason) differs between the two explorations.

Helper queries of the path-feasibility solver run under wall-clock limits; a branch whose pruning needs a quantifier instantiation can be
explored on some runs only.  Such a unit generates obligations that exist on some runs and not on others - an alarm waiting for a loaded
machine.  Expected output: `<Cxx> units <n> stable {}` for every property.   (run with .venv/bin/python from /verif)"""
import collections
import importlib
import os
import sys

sys.path.insert(0, os.path.dirname(os.path.dirname(os.path.abspath(__file__))))
import emd      # noqa: E402,F401
from pyvc import verify      # noqa: E402

for p in sys.argv[1:]:
    mod = importlib.import_module('contracts.' + p)
    res = collections.defaultdict(list)
    for rep in range(2):
        for u in mod.units('quick'):
            r = verify.explore(u, os.environ.get('VERIF_REPO', '/repo'))
            res[u.name].append((r.paths, len(r.obligations), r.undecided_reason))
    bad = {k: v for k, v in res.items() if len(set(v)) > 1}
    print(p, 'units', len(res), 'VARIES' if bad else 'stable', bad)
