#!/bin/sh
# tools/try_patch.sh <patch.diff> <Cxx> [tier] [extra check arguments...]  - run a check against a scratch copy of /repo with a patch applied
set -e
P=$(readlink -f "$1"); PROP=$2; TIER=${3:-quick}
[ $# -ge 3 ] && shift 3 || shift 2
D=$(mktemp -d /tmp/emdmut.XXXXXX)
trap 'rm -rf "$D"' EXIT
git -C /repo archive HEAD | tar -x -C "$D"
# include uncommitted working-tree state of /repo as well
(cd /repo && git diff) | (cd "$D" && patch -p1 -s) 2>/dev/null || true
(cd "$D" && patch -p1 -s < "$P")
cd "$(dirname "$0")/.."
VERIF_REPO="$D" ./check "$PROP" --tier "$TIER" --selftest "$@"
