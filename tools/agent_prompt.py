import json, sys
pid = sys.argv[1]; wt = sys.argv[2]
for l in open('/verif/properties.jsonl'):
    p = json.loads(l)
    if p['id'] == pid:
        break
print(f"""You are helping test a verification framework by writing ONE realistic, subtle bug ("seeded change") for a Python library.

The library is AJQuinn/emd (Empirical Mode Decomposition), a git worktree of which is at {wt} (work ONLY inside {wt}; never touch /repo or /verif; do not read anything under /verif). Python to use: /venv/bin/python . Run things with  cd {wt} && PYTHONPATH={wt} /venv/bin/python ...  so that the worktree's copy of the `emd` package is imported (check with `python -c "import emd; print(emd.__file__)"`). There is no network.

The property that your change must BREAK:

  Title: {p['title']}
  Statement: {p['statement']}
  Quantified over: {p['quantifier']['text']}
  Code the property is anchored in: {', '.join(p['anchors']['files'])} — mechanisms: {'; '.join(m['name'] + ' (' + m['where'] + ')' for m in p['anchors']['mechanism'])}

Your task:
1. Read the relevant code in {wt}/emd.
2. Make a small source change (a few lines, in the library code under {wt}/emd, not in tests) of the kind a real developer could plausibly commit (an off-by-one, a wrong comparison, a dropped argument, a refactor that forgets a case, a changed default, stale state, two sites that each look fine alone, ...) such that the property above no longer holds, BUT:
   - the package still imports, and the existing test-suite still passes exactly as before:  cd {wt} && PYTHONPATH={wt} /venv/bin/python -m pytest -q -p no:cacheprovider --timeout=900   (38 tests pass on the unmodified worktree; the same must pass with your change);
   - the breakage is NOT exposed by ordinary default use at once: it should need something specific to manifest (an unusual but valid input, a particular option combination, a particular position of an event in the data, a multi-step sequence of operations, a boundary value, ...).
3. Write a demonstration script {wt}/demo_{pid}.py (a small standalone program using only the public behaviour of the library) that exits 0 and prints PASS on the unmodified code and exits 1 printing FAIL (with a short explanation) with your change applied. Verify both directions yourself (toggle with `git diff -- emd > patch.diff; git apply -R patch.diff; ...; git apply patch.diff`; NEVER use `git stash` - the stash is shared between worktrees of other testers).
4. Leave your change applied in the worktree (uncommitted), and write {wt}/patch.diff containing `git diff -- emd` for it.

Report back: a 3-6 line description of the change, what specific circumstances it needs to manifest, and the exact commands you ran with their outcomes (tests with the change, demo with and without the change). Do not make more than one change; keep it minimal and subtle.""")
