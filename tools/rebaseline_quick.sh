#!/bin/sh
# tools/rebaseline_quick.sh [ids...] : run the quick tier of the given (default: all) checks against /repo and rewrite the quick baseline list
# (and the loop signatures) of each.  Prints BASELINE-DROPPED for every protected obligation that would silently leave the list.
cd "$(dirname "$0")/.."
IDS="$@"
[ -z "$IDS" ] && IDS="C01 C02 C03 C04 C05 C06 C07 C08 C09 C10 C11 C12 C13 C14 C15 C16 C17 C18 C19 C20"
for p in $IDS; do ./check $p --tier quick --write-baseline 2>&1 | grep -E "^(VIOLATION|  clause|UNDECIDED|CHECKER|BASELINE|C[0-9]+ tier)" | cut -c1-220; done
