#!/bin/sh
# tools/collect_seed.sh <Cxx> <round> <worktree> : copy patch + demo into seeded/<Cxx>-<round>, drop the worktree, confirm, run the check on a scratch copy
P=$1; R=$2; W=$3
S=/verif/seeded/$P-$R
mkdir -p $S
cp $W/patch.diff $S/patch.diff
cp $W/demo_$P.py $S/demo.py
git -C /repo worktree remove --force $W
/verif/tools/confirm_seed.sh $S
echo "--- check:"
/verif/tools/try_patch.sh $S/patch.diff $P quick 2>&1 | grep -E "^(VIOLATION|  clause|UNDECIDED|CHECKER|KNOWN|C[0-9]+ tier)" | head -${LINES_MAX:-12}
