#!/bin/sh
# mkprompts.sh <round> <ids...>
R=$1; shift
cd /verif
for p in "$@"; do
  d=/tmp/wt${R}_$p
  git -C /repo worktree add --detach $d HEAD -q 2>&1 | tail -1
  python3 tools/agent_prompt.py $p $d > /tmp/prompt${R}_$p.txt
  python3 - $p $R <<'EOF'
import json,sys,glob
p,R=sys.argv[1],sys.argv[2]
ms=[json.load(open(f))['summary'] for f in sorted(glob.glob(f'/verif/seeded/{p}-*/meta.json'))]
open(f'/tmp/prompt{R}_{p}.txt','a').write("\n\nFor diversity: earlier testers already tried the following changes, so make yours about a DIFFERENT mechanism / code site / clause of the property (prefer a function, option value, input shape, dtype, call sequence or clause none of them touched; interactions between two functions and unusual-but-valid arguments are good places to look). Toggle your change only with `git apply -R patch.diff` / `git apply patch.diff` (never `git stash`). The shell prints a long conda error on every command: ignore it, write command output to files under your worktree and read those.\n" + ''.join(f' {i+1}. "{m}"\n' for i,m in enumerate(ms)))
EOF
done
ls /tmp | grep -c "^wt${R}_"
