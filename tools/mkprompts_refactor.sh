#!/bin/sh
# tools/mkprompts_refactor.sh <round> <ids...> : worktrees /tmp/rf<round>_<id> and prompts /tmp/promptrf<round>_<id>.txt for behaviour-preserving refactorings (false-alarm probes)
R=$1; shift
cd /verif
for p in "$@"; do
  d=/tmp/rf${R}_$p
  git -C /repo worktree add --detach $d HEAD -q 2>&1 | tail -1
  python3 tools/agent_prompt_refactor.py $p $d > /tmp/promptrf${R}_$p.txt
done
ls /tmp | grep -c "^rf${R}_"
