#!/bin/sh
# tools/confirm_seed.sh <seed-dir> : confirm in a scratch worktree that the change passes the suite, and the demo fails with / passes without it
S=$(readlink -f "$1")
D=$(mktemp -d /tmp/emdseed.XXXXXX)
trap 'rm -rf "$D"' EXIT
git -C /repo archive HEAD | tar -x -C "$D"
cd "$D"
echo "--- demo WITHOUT change:"; PYTHONPATH="$D" /venv/bin/python "$S/demo.py" 2>&1 | tail -2; echo "exit=$?"
patch -p1 -s < "$S/patch.diff" || { echo "PATCH DOES NOT APPLY"; exit 2; }
echo "--- demo WITH change:"; PYTHONPATH="$D" /venv/bin/python "$S/demo.py" 2>&1 | tail -2
echo "--- test suite WITH change:"; PYTHONPATH="$D" /venv/bin/python -m pytest -q -p no:cacheprovider --timeout=900 2>&1 | grep -E "passed|failed" | tail -1
