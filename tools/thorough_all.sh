#!/bin/sh
# tools/thorough_all.sh <logfile> [ids...] : run the thorough tier of the given (default: all) checks against /repo, one after the other,
# recording the thorough-tier baseline list of each (the list of obligations a later thorough run must still discharge)
cd "$(dirname "$0")/.."
LOG=$1; shift
IDS="$@"
[ -z "$IDS" ] && IDS="C14 C16 C17 C18 C19 C20 C15 C12 C10 C06 C07 C08 C09 C03 C01 C13 C04 C05 C11 C02"
: > $LOG
for p in $IDS; do
  echo "=== $p" >> $LOG
  ./check $p --tier thorough --write-baseline 2>&1 | grep -E "^(VIOLATION|  clause|  what|UNDECIDED|CHECKER|KNOWN|C[0-9]+ tier)" | cut -c1-300 >> $LOG
done
echo "=== ALL DONE" >> $LOG
