"""Negative controls for the relational lemmas of C02 (contracts/C02r.py): each lemma with one family of hypotheses dropped must NOT be
provable (otherwise the lemma would not depend on what it claims to depend on).   .venv/bin/python tools/negative_controls.py"""
import os
import sys
sys.path.insert(0, os.path.dirname(os.path.dirname(os.path.abspath(__file__))))
sys.path.insert(0, os.environ.get('VERIF_REPO', '/repo'))
import warnings
warnings.filterwarnings('ignore')
import z3
from contracts.siftspec import *
from contracts import C02r

bad = 0
for kind in ('pos', 'neg', 'rev'):
    tr = C02r.Transform(kind)
    X, Y, n, k, step = C02r.X, C02r.Y, C02r.n, C02r.k, C02r.step
    hx, hy = IT(X, n, k), IT(Y, n, k)
    rec = lambda inp: IT(inp, n, k + 1) == vsub(IT(inp, n, k), vscale(step, mean_env(IT(inp, n, k), n)))
    tests = [('iterates:step without the equivariance of the envelopes', tr.pre() + [k >= 0, hy == tr.T(hx), rec(Y), rec(X)], IT(Y, n, k + 1) == tr.T(IT(X, n, k + 1))),
             ('decisions[sd] without the invariance of the stop decision', tr.pre() + [k >= 0, hy == tr.T(hx)] + tr.env_at(hx), C02r._agree(tr, 'sd', k)),
             ('decisions[rilling] without the invariance of the stop decision', tr.pre() + [k >= 0, hy == tr.T(hx)] + tr.env_at(hx), C02r._agree(tr, 'rilling', k)),
             ('first-stop-index[sd] without the induction hypothesis', tr.pre() + [C02r._post(X, C02r.RX, C02r.KX, 'sd'), C02r._post(Y, C02r.RY, C02r.KY, 'sd')], C02r.KX == C02r.KY),
             ('components:step without the equivariance of the extraction', tr.pre() + [k >= 0, RES(Y, n, k) == tr.T(RES(X, n, k)),
                                                                                        COMP(X, n, k) == GI(RES(X, n, k), n), COMP(Y, n, k) == GI(RES(Y, n, k), n)], COMP(Y, n, k) == tr.T(COMP(X, n, k)))]
    for name, hyps, goal in tests:
        s = z3.Solver()
        s.set('timeout', 8000)
        for h in hyps:
            s.add(h)
        s.add(z3.Not(goal))
        r = s.check()
        print('%-5s %-70s %s' % (kind, name, 'not provable (%s) - as it should be' % r if r != z3.unsat else 'PROVABLE WITHOUT THE HYPOTHESIS - the lemma is vacuous'))
        bad += r == z3.unsat
sys.exit(1 if bad else 0)
