#!/bin/sh
# tools/collect_many.sh <round> <prefix> <ids...> : collect several seeded changes (worktrees <prefix>_<id>) and print a compact summary per seed
R=$1; PFX=$2; shift 2
for p in "$@"; do
  echo "=========== $p"
  LINES_MAX=${LINES_MAX:-6} /verif/tools/collect_seed.sh $p $R ${PFX}_$p 2>&1 | grep -v "conda\|pkg_resources\|^--- demo WITHOUT\|^exit=0\|^PASS\|^KNOWN" | cut -c1-220
done
