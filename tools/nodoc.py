import ast,sys
fn=sys.argv[1]; lo=int(sys.argv[2]) if len(sys.argv)>2 else 0; hi=int(sys.argv[3]) if len(sys.argv)>3 else 10**9
src=open(fn).read()
tree=ast.parse(src)
lines=src.split('\n')
drop=set()
for n in ast.walk(tree):
    if isinstance(n,(ast.FunctionDef,ast.ClassDef,ast.Module)):
        b=n.body
        if b and isinstance(b[0],ast.Expr) and isinstance(b[0].value,ast.Constant) and isinstance(b[0].value.value,str):
            for l in range(b[0].lineno,b[0].end_lineno+1): drop.add(l)
for i,l in enumerate(lines,1):
    if lo<=i<=hi and i not in drop and l.strip(): print(i,l)
