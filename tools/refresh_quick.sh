#!/bin/sh
# tools/refresh_quick.sh [ids...] : run the quick tier of the given (default: all) checks against /repo, so that evidence/ holds quick-tier records
cd "$(dirname "$0")/.."
IDS="$@"
[ -z "$IDS" ] && IDS="C01 C02 C03 C04 C05 C06 C07 C08 C09 C10 C11 C12 C13 C14 C15 C16 C17 C18 C19 C20"
for p in $IDS; do ./check $p --tier quick 2>&1 | grep -E "^(VIOLATION|  clause|UNDECIDED|CHECKER|C[0-9]+ tier)" | cut -c1-220; done
