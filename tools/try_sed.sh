#!/bin/sh
# tools/try_sed.sh <file-in-repo> <sed-expr> <Cxx> [tier] - run a check against a scratch copy with a sed edit applied
F=$1; E=$2; PROP=$3; TIER=${4:-quick}
D=$(mktemp -d /tmp/emdmut.XXXXXX)
trap 'rm -rf "$D"' EXIT
cp -r /repo/emd /repo/setup.py "$D"/ 2>/dev/null
sed -i "$E" "$D/$F"
if diff -q "$D/$F" "/repo/$F" >/dev/null; then echo "NO CHANGE by sed"; exit 9; fi
diff "/repo/$F" "$D/$F" | head -6
cd "$(dirname "$0")/.."
VERIF_REPO="$D" ./check "$PROP" --tier "$TIER" --selftest 2>&1 | grep -E "^(VIOLATION|  clause|UNDECIDED|CHECKER|C[0-9]+ tier)" | head -${LINES_MAX:-8}
