"""Regenerate MANIFEST.json from the table below (kept valid against /root/.vp/MANIFEST.schema.json)."""
import json, os, sys
ROOT = os.path.dirname(os.path.dirname(os.path.abspath(__file__)))
sys.path.insert(0, ROOT)
TITLES = {json.loads(l)['id']: json.loads(l)['title'] for l in open(os.path.join(ROOT, 'properties.jsonl'))}

# property -> (technique, level text, level note, design ref)
CLAIMED = {}
try:
    from tools.claims import CLAIMED, PENDING_REASON
except ImportError:
    PENDING_REASON = {}

checks = []
for pid in sorted(TITLES):
    if pid not in CLAIMED:
        continue
    c = CLAIMED[pid]
    checks.append({
        'property_id': pid,
        'quick_cmd': './check %s --tier quick' % pid,
        'thorough_cmd': './check %s --tier thorough' % pid,
        'evidence_file': 'evidence/%s.json' % pid,
        'replay_cmd_template': './check %s --replay {path}' % pid,
        'engine': 'pyvc',
        'level_claimed': {'category': c.get('category', 'proof'), 'text': c['text'], 'design_ref': 'DESIGN.md section 5 (%s), section 10' % pid},
        'level_note': c['note'],
        'technique': c['technique'],
    })
na = [{'property_id': pid, 'reason': PENDING_REASON.get(pid, 'check not built yet in this session (contract-based verification is applicable per DESIGN.md; not claimed until its check exists)')}
      for pid in sorted(TITLES) if pid not in CLAIMED]
m = {
    'version': 1,
    'setup_cmd': './setup.sh',
    'hooks': {'guard': 'EMD_MIRROR_VERIF', 'enable': 'no source hooks: contracts live in sidecar files under /verif/contracts; instrumentation is a parent-side monkeypatch inherited by forked workers',
              'baseline_off_cmd': 'cd /repo && /venv/bin/python -m pytest -ra -q -p no:cacheprovider --timeout=900 --continue-on-collection-errors',
              'source_commits': [], 'add_only': True},
    'engines': [{'name': 'pyvc', 'path': 'pyvc/', 'serves_properties': [c['property_id'] for c in checks],
                 'kind_free_text': 'verification-condition generator: the real function source is re-read from /repo on every run, loops are cut at sidecar invariants, the result is executed by CPython on symbolic proxies, every obligation is discharged by z3 5.1 / cvc5 1.0.3 / z3 4.8; bounded stand-in = the same contracts evaluated natively on the real functions over stated small scopes'}],
    'checks': checks,
    'notes': 'Contract-based deductive verification (self-generated VCs, no Python verifier is installed). See DESIGN.md. known_findings.json lists fixed defects and known findings.',
    'not_applicable': na,
}
json.dump(m, open(os.path.join(ROOT, 'MANIFEST.json'), 'w'), indent=1)
import jsonschema
jsonschema.validate(m, json.load(open('/root/.vp/MANIFEST.schema.json')))
print('MANIFEST ok: %d checks, %d not claimed' % (len(checks), len(na)))
