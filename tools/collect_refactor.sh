#!/bin/sh
# tools/collect_refactor.sh <round> <prefix> <ids...> : behaviour-preserving refactorings written by sub-agents (false-alarm probes):
# copy the patch into refactors/<id>-<round>/, confirm that the suite passes with it, drop the worktree, run the check on a scratch copy.
# Expected: exit 0, no VIOLATION line (UNDECIDED lines are fine: a refactoring may leave the engine's subset).
R=$1; PFX=$2; shift 2
for p in "$@"; do
  W=${PFX}_$p
  S=/verif/refactors/$p-$R
  echo "=========== $p"
  mkdir -p $S
  cp $W/patch.diff $S/patch.diff || continue
  (cd $W && PYTHONPATH=$W /venv/bin/python -m pytest -q -p no:cacheprovider --timeout=900 2>&1 | tail -1)
  (cd $W && PYTHONPATH=$W timeout 900 /venv/bin/python demo_$p.py 2>&1 | tail -1 | cut -c1-160)
  git -C /repo worktree remove --force $W
  /verif/tools/try_patch.sh $S/patch.diff $p quick 2>&1 | grep -E "^(VIOLATION|  clause|  what|UNDECIDED|CHECKER|C[0-9]+ tier)" | grep -v 'not generated' | cut -c1-300 | head -${LINES_MAX:-10}
done
