#!/bin/sh
# tools/recheck_refactors.sh <logfile> [pattern] : run the quick check of every behaviour-PRESERVING refactoring (refactors/<id>-<round>/patch.diff)
# against a scratch copy of /repo with the patch applied; one line per probe:  <id>-<round> exit=<code> [first VIOLATION clause]
# exit 0 = no alarm (expected).  A patch that no longer applies to the current /repo is reported as such.
cd "$(dirname "$0")/.."
LOG=$1; PAT=${2:-.}
: > $LOG
for d in $(ls -d refactors/*/ | grep -E "$PAT" | sort); do
  s=$(basename $d); p=${s%-*}
  out=$(tools/try_patch.sh $d/patch.diff $p quick 2>&1)
  code=$?
  if echo "$out" | grep -q "FAILED\|can't find file\|malformed patch\|Reversed (or previously applied)\|patch does not apply"; then
    echo "$s patch-does-not-apply" >> $LOG
    continue
  fi
  tier=$(echo "$out" | grep -E "^C[0-9]+ tier" | sed 's/.*\(exit=[0-9]*\).*/\1/')
  cl=$(echo "$out" | grep -E "^VIOLATION|^CHECKER" | head -1 | cut -c1-120)
  echo "$s ${tier:-exit=$code} $cl" >> $LOG
done
echo "=== ALL DONE" >> $LOG
