"""Per-property claims used to generate MANIFEST.json."""
PROOF_NOTE = ('Assumes: floats are mathematical reals, numpy ints unbounded; numpy/scipy/stdlib calls replaced by assumed contracts '
              '(cross-checked natively each run, not proved); the pyvc engine and the SMT solvers are trusted. ')
CLAIMED = {
    'C12': {
        'technique': 'deductive: loop-cut VC generation from the real source of get_cycle_vector, discharged by z3/cvc5; bounded stand-in: native contract over every phase sequence <= 6/8 over 5 values',
        'text': 'All VCs (loop invariant establish/preserve, safety, postcondition from the property statement) generated from the current source of get_cycle_vector are discharged for every signal length, every phase_step and every iteration; a refused obligation or a native contract failure is reported as a violation.',
        'note': PROOF_NOTE + 'Single column, phase in [0,2pi], return_good=False in the unbounded unit; multi-column / good-cycle paths bounded or under C13.',
    },
}
CLAIMED['C16'] = {
    'technique': 'deductive: per-function contracts (set-theoretic definitions) on 13 map_*/project_* functions + get_subset_vector/get_chain_vector, VCs from the real source discharged by z3/cvc5, round-trip lemmas over the contracts; bounded stand-in: every selection vector <= 7/12 x 3 layouts against a reference model',
    'text': 'Each index map / projection is verified against its set-theoretic contract for all vector lengths and all indices (loops by invariants); the round-trip statements are lemmas over those contracts. Five composite functions built from symbolic-length comprehensions are covered by the bounded stand-in only (stated in evidence).',
    'note': PROOF_NOTE + 'Subset-vector well-formedness is assumed in bijection form; that the constructors produce it is checked by the bounded stand-in.',
}
CLAIMED['C13'] = {
    'technique': 'deductive: contract of is_good (criteria as postcondition) and per-segment postcondition of get_cycle_vector (ghost accept/renumbering functions, loop invariant, is_good by contract), VCs from the real source discharged by z3/cvc5; bounded stand-in: phase sequences <= 5/7 x edges x masks, container flag cache on/off',
    'text': 'is_good is proved to compute exactly the documented criteria; get_cycle_vector (good / mask paths, ensure_2d and ensure_equal_dims inlined) is proved to label a wrap-delimited segment iff criteria and mask hold, with the order-preserving renumbering, for all lengths / thresholds / edges. The container flag is bounded only.',
    'note': PROOF_NOTE + 'Single column; phase in [0,2pi].',
}
CLAIMED['C10'] = {
    'technique': 'deductive: contract on the (data,row,col) triples hilberthuang hands to coo_matrix (per-sample bin/column/exactly-once), loop invariants of hilberthuang_1d, define_hist_bins; VCs from the real source discharged by z3/cvc5; bounded stand-in: exhaustive edge-hitting grid vs brute-force histogram (dense, sparse, 1-D)',
    'text': 'For every number of samples and of bins (IMF columns enumerated 1..3/5) each in-range sample is proved to reach the sparse constructor exactly once with its half-open bin, its own time column and its (squared) amplitude, and every out-of-range sample to be dropped; the 1-D marginal is proved cell by cell. Agreement of the dense/sparse/1-D totals is bounded only.',
    'note': PROOF_NOTE + 'scipy.sparse.coo_matrix duplicate summation and np.digitize are assumed contracts.',
}
CLAIMED['C11'] = {
    'technique': 'deductive: contract on the triples holospectrum hands to coo_matrix (row=time, column=folded bin pair, data=amplitude^p), non-linear fold/unfold/trim lemmas, output-cell postcondition for the three squash settings; VCs from the real source discharged by z3/cvc5; bounded stand-in: exhaustive small grids vs triple-loop histogram',
    'text': 'For every number of samples and of carrier / AM bins (M, K enumerated 1..2) each sample is proved to be folded into exactly the column that unfolds to its (AM bin, carrier bin) cell, the output to be the unfolded matrix with exactly the out-of-range margins trimmed, and shape [T x AM x carrier]; sum/mean are the column sums/means of the same matrix (assumed scipy contract).',
    'note': PROOF_NOTE + 'scipy.sparse duplicate summation / sum / mean and np.digitize are assumed contracts.',
}
CLAIMED['C14'] = {
    'technique': 'deductive: loop invariant + postcondition of get_cycle_stat_from_samples with an uninterpreted reducing function and np.where as a function of the label; project_cycles_to_samples contract; bounded stand-in: all label vectors <= 6/8 x reducers x output modes, phase_align / bin_by_phase grids',
    'text': 'The per-cycle statistic is proved to be the supplied (arbitrary) function applied to exactly the samples carrying each label, one entry per cycle, and the projection to be constant within cycles and NaN elsewhere, for all lengths and labellings. phase_align and bin_by_phase (scipy interpolation, generator iteration, averages of possibly empty selections) are decided by the bounded stand-in only and are reported as not covered by the proof.',
    'note': PROOF_NOTE + 'phase_align / bin_by_phase clauses are bounded (run-time contracts over stated grids).',
}
CLAIMED['C17'] = {
    'technique': 'deductive: contract of _unique_inds (positions in the original array; sort/where assumed) and of the final selection loop + return of kdt_match for an arbitrary assignment matrix (greedy loop abstracted), VCs from the real source discharged by z3/cvc5; bounded stand-in: random instances 1-4 features x <= 60/200 rows x K 1..15 x 3 bounds, exhaustive small 1-d instances',
    'text': 'Range, equal length, strict ordering of x indices, K-neighbour membership and the distance bound are proved for every input from the final loop under the assumed cKDTree.query contract; _unique_inds is proved to index the original array. Injectivity of the y indices depends on the greedy column loop, which is abstracted: it is decided by the bounded stand-in only and reported as not covered by the proof.',
    'note': PROOF_NOTE + 'Greedy loop body not verified (abstracted); injectivity bounded-only.',
}
CLAIMED['C20'] = {
    'technique': 'deductive: the real decorator bodies (wrap_verbose.inner_verbose, sift_logger) and level accessors executed on a finite ghost model of the logging module; restore postcondition on normal and exceptional exit for every ghost state (symbolic level, console present/absent) x every per-call verbosity; history lemma; bounded stand-in: every history to depth 2/4 over 10 operations from both start states on the real logger',
    'text': 'For every logger state and every verbosity value the wrapped call is proved to return exactly the wrapped result (or propagate exactly its exception) with the console level restored, and to raise nothing of its own before set_up; by the frame conditions of the other operations the level after any history is the last one set explicitly. Result identity for the real sifts across logger states is bounded.',
    'note': 'Assumes the ghost model of logging (one optional console handler, Handler.level/setLevel/get_name, logging.disable) and that the wrapped function does not itself touch the logger state; the pyvc engine and SMT solvers are trusted.',
}
CLAIMED['C19'] = {
    'technique': 'deductive: shape case analysis (ndim 1..4, symbolic extents) of the four ensure_* validators with accept/reject postconditions; frame conditions (no write reaches a caller-owned buffer or dict) generated by the engine from the real source of the spectra / cycle-detection / second-layer routines; bounded stand-in: layouts x routines, read-only inputs, reused dicts, repeated calls',
    'text': 'The input validators are proved to accept exactly the documented single-signal layouts (returning the same elements) and to raise for every other extent combination; writes into argument buffers / option dicts are proved absent for the routines listed in the evidence. Layout-equivalence of complete numerical results, determinism and the frames of the numerically heavy routines are bounded.',
    'note': PROOF_NOTE + 'View/copy semantics of numpy are an assumed contract (buffer identities).',
}
CLAIMED['C06'] = {
    'technique': 'deductive (modular data-flow): every variant and stage function is executed from its real source with the next stage replaced by a recording stub carrying the real signature; forwarding of the caller-supplied option tokens is an obligation at every stage call, on every path and for an arbitrary loop iteration; Pool.starmap by assumed contract; bounded stand-in: effective-kwargs trace in parent and forked workers over variants x option sets x routes x nprocesses',
    'text': 'For all seven variants and both lower stages, every call of the next stage is proved to receive the caller\'s imf / envelope / extrema options (and the scalar options that apply) - none dropped, none replaced by a default, positional binding included. The config-object and partial routes are covered by C18 and by the bounded trace.',
    'note': 'Assumes Pool.starmap(f, args) == [f(*a) for a in args] and the numpy shim contracts between stages; stage callees are arbitrary functions of their arguments (modular). The pyvc engine and SMT solvers are trusted.',
}
CLAIMED['C18'] = {
    'technique': 'deductive (case analysis + modular stubs): SiftConfig key-path methods by nesting depth with opaque names/values; _array_or_tuple_to_list with its recursive call replaced by its contract; YAML round trips under an assumed PyYAML dump/load contract; get_func; get_config checked against the live signature defaults and, through the recording stubs of C06, for equal effective stage arguments; bounded stand-in: edit sequences x variants x both YAML routes x behavioural comparison',
    'text': 'Key paths are proved to address exactly the nested entry (frame included) and to reject a fourth level; the YAML file and text routes are proved to preserve sift type and options for any plain-data store under the assumed PyYAML contract; the default configuration is proved to carry the live signature defaults and to reach the extraction stage with the same effective arguments as a call without options. Output equality of callables is bounded.',
    'note': 'Assumes str.split, dict semantics of CPython, the PyYAML round-trip contract for plain data and (via C06) Pool.starmap; the pyvc engine and SMT solvers are trusted.',
}
CLAIMED['C04'] = {
    'technique': 'deductive: loop invariant (iterate recurrence + stop history over uninterpreted envelope functions), variant, exhaustive-outcome postcondition and exceptional postcondition of get_next_imf for the three stopping rules; sd_stop / rilling_stop / fixed_stop against their formulas; VCs from the real source discharged by z3/cvc5; bounded stand-in: iterate sequence recomputed natively over signals x rules x limits, short signals where the extrema vanish mid-sift',
    'text': 'For every signal length, step size, thresholds and iteration limit, get_next_imf is proved to return the iterate at which the rule first fires with its full envelope mean removed, or the first iterate without envelopes, to flag the final residual only for an input without envelopes, to raise the convergence error only beyond the limit, and to terminate (variant). Envelopes are uninterpreted functions of the iterate (interp_envelope is modular, C05).',
    'note': PROOF_NOTE + 'interp_envelope by contract; a vector with both envelopes is assumed non-zero; rilling_stop assumes pointwise distinct envelopes.',
}
CLAIMED['C01'] = {
    'technique': 'deductive: loop invariant of sift (running residual = input minus row sum of the components; components = extraction from the residual recursion; exit reason) with get_next_imf replaced by its C04 contract, postcondition from the statement; VCs from the real source discharged by z3; bounded stand-in: every sequence <= 7/9 over 3 levels and seeded signals x option grid on the real sift',
    'text': 'For every signal length, threshold and option set the classic sift is proved to return components that sum to the input at every sample, with a last component that has no envelopes (non-oscillatory), whenever it was not cut short by the cap or the sift threshold - given the contract of single-IMF extraction proved under C04. Floating-point rounding is measured by the bounded stand-in only.',
    'note': PROOF_NOTE + 'get_next_imf by its C04 contract (pure function of its input); sum of a concatenation = sum of the sums of the pieces (assumed numpy contract).',
}
CLAIMED['C03'] = {
    'technique': 'deductive: peeling invariants of sift and mask_sift (column k = (masked) extraction from the residual recursion, cap on the column count), column-count invariant of complete_ensemble_sift, shape postconditions of ensemble_sift and the second-layer sifts; VCs from the real source discharged by z3; bounded stand-in: caps 1..n+2 on signals, prefix equality, recomputed components, shapes and finiteness for all five variants',
    'text': 'For every signal and cap the classic and masked sifts are proved to build column k by (masked) single-IMF extraction from the input minus the first k columns and never to exceed the cap; since the extraction is a function of its input the capped run is a prefix of the uncapped one. complete_ensemble_sift is proved never to exceed the cap; ensemble and second-layer results have the documented shapes. Finiteness is bounded.',
    'note': PROOF_NOTE + 'get_next_imf / get_next_imf_mask / member sifts by contract (modular).',
}
CLAIMED['C05'] = {
    'technique': 'deductive: call-site obligation + postcondition of _find_extrema against an assumed argrelextrema contract parameterised by comparator and order; parabolic vertex bound; get_padded_extrema loop invariant, variant and postcondition over assumed np.pad contracts; interp_envelope grid-alignment obligation at the interpolant evaluation and per-sample postcondition; VCs from the real source discharged by z3/cvc5; bounded stand-in: exhaustive sequences <= 7/9 over 3 levels x pads x parabolic x methods x modes against the rebuilt interpolant',
    'text': 'Extrema are proved to be exactly the strict interior maxima/minima (the strict comparator and order 1 are call-site obligations); padding is proved to keep the detected extrema, order everything strictly, add only outside, cover both record ends and terminate; every envelope is proved to have one value per sample equal to the interpolant at that sample\'s integer time, with and without parabolic refinement. That the scipy interpolants pass through their knots is assumed / bounded.',
    'note': PROOF_NOTE + 'argrelextrema, np.pad (default modes) and the scipy interpolants are assumed contracts; custom np.pad options bounded only.',
}
CLAIMED['C07'] = {
    'technique': 'deductive: postcondition of get_next_imf_mask (documented sinusoidal masks, mean over phases of extraction minus the same mask, any-flag, zero-amplitude lemma, pool size, no random/global reads) for enumerated phase counts; get_mask_freqs; mask_sift frequency ladder and amplitude-mode obligations at the masked-extraction call for an arbitrary layer; VCs from the real source discharged by z3; bounded stand-in: executable masking rule over phases x frequencies x amplitudes, recomputed mask_sift layers, byte-identical results for nprocesses 1..3/8',
    'text': 'For every signal, mask frequency and amplitude (phase count enumerated) the masked IMF is proved to be the documented average; zero amplitude reduces to unmasked extraction; the mask frequency of layer k and its amplitude are proved to follow the ladder / the selected amplitude mode; schedule independence follows from purity (proved: nothing random or global is read) under the assumed order-preserving starmap contract.',
    'note': PROOF_NOTE + 'cos uninterpreted; Pool.starmap contract assumed (OS scheduling is inside that assumption); std is an uninterpreted function of the vector.',
}
CLAIMED['C08'] = {
    'technique': 'deductive: ghost random-stream state threaded through the real source of ensemble_sift / _sift_with_noise / complete_ensemble_sift under an assumed fork-Pool contract quantified over all job-to-worker assignments; obligations: pairwise different stream positions for the members, per-IMF mean, flip-mode mean of +noise/-noise, zero-noise = classic sift, parent-side noise matrix for the complete ensemble; ensemble size and process count enumerated; bounded stand-in: digests of the noisy inputs in parent and forked workers for nensembles x nprocesses <= 4x4 / 8x8',
    'text': 'For every signal, noise level and every job-to-worker assignment (sizes enumerated) the members are proved to use pairwise different positions of the random stream, the result to be the per-IMF mean over members (each the mean of the two signed decompositions in flip mode) and the zero-noise ensemble to equal the classic sift with the same cap. A counter-assignment found by the solver is replayed on the real pool.',
    'note': PROOF_NOTE + 'fork-Pool contract and injectivity of the random stream are assumptions; sift is a function of its input (modular).',
}
CLAIMED['C15'] = {
    'technique': 'deductive (class-invariant steps): get_matching_cycles (conjunction of comparators over the stored metrics, all six operators), add/_safe_add_metric (length guard), pick_cycle_subset (subset and chain vectors built from exactly the matching cycles) on an arbitrary container satisfying the invariant, plus the constructor contracts of C16 and the per-cycle statistic of C14; VCs from the real source discharged by z3; bounded stand-in: exhaustive condition parsing, 40/400 random operation histories with cache on and off against a reference model',
    'text': 'Each public operation is proved, from the class invariant alone, to keep one entry per cycle in every stored metric and to compute exactly the documented selection / subset / chain structure; the statement for arbitrary histories follows by induction on the history. Condition-string parsing, slice-cache equivalence, chain metrics and tabular exports are decided by the bounded stand-in only and reported as not covered by the proof.',
    'note': PROOF_NOTE + '_parse_condition by contract in the unbounded units; pandas and the slice cache bounded.',
}
CLAIMED['C02'] = {
    'technique': 'deductive: equivariance lemmas (strict extrema under scaling / sign flip / reversal, mirrored odd-reflection padding, scale-free Rilling and SD ratios, homogeneous iterate step, mask scaling with half-turn phase closure) discharged by z3 over the contracts that the re-run units of C04/C05 tie to the real source; bounded stand-in: the property grid (+-2^k exact, arbitrary reals within 1e-7, time reversal) over signals x option combinations with a measured guard band for ill-conditioned decisions; mask sift with ratio amplitudes',
    'text': 'The algebraic content of the equivariance (every stage of the sift is homogeneous / mirror-symmetric given homogeneous interpolants) is proved as lemmas over the stage contracts, and the stage contracts are re-verified against the real source on every run. The relational statement for complete runs is an induction over these lemmas that is not machine-checked, and the bit-for-bit clause is floating-point behaviour: both are decided by the bounded stand-in only. Known finding: mask sift with an odd number of phases is not sign-equivariant.',
    'note': PROOF_NOTE + 'Interpolant homogeneity, uniqueness of increasing enumerations, linearity of sums and std(cX)=|c|std(X) are assumed.',
    'category': 'proof',
}
CLAIMED['C09'] = {
    'technique': 'deductive: contracts of freq_from_phase (scaled np.gradient), phase_from_freq (running sum), their composition (two-sample average, exact for constant profiles), wrap_phase (range and congruence) and the hilbert branch of frequency_transform (one unwrapped phase feeds frequency and returned phase; shapes; modulus amplitude), scale lemmas over the assumed analytic-signal contracts; VCs from the real source discharged by z3; bounded stand-in: sinusoid grid with calibrated two-sided tolerances, scale factors, round trips',
    'text': 'Shapes, phase range, frequency = sample-rate-scaled derivative of the unwrapped phase, the freq->phase->freq identity and the scale laws are proved (over assumed contracts of hilbert / angle / unwrap / gradient / cumsum). The accuracy clause for pure sinusoids is numerical analysis of an FFT-based transform in floating point: no contract over uninterpreted functions can express it; it is decided by the bounded stand-in only and reported as not covered by the proof.',
    'note': PROOF_NOTE + 'Accuracy on sinusoids, nht/quad branches and amplitude_normalise are bounded (calibrated tolerances).',
}
PENDING_REASON = {}


# ---- revisions after the second half of the build (units added since the entries above were written)
def _rev(k, **kw):
    CLAIMED[k].update(kw)


_rev('C12',
     technique='deductive: loop-cut VC generation from the real source of get_cycle_vector (single column: step-form postcondition; symbolic number of columns: both loops cut, frame condition over the loop-entry state, np.where taken as a function of the column), discharged by z3/cvc5; bounded stand-in: native contract over every phase sequence <= 6/8 over 5 values, pairs of columns, long synthetic phases',
     text='All VCs (loop invariant establish/preserve, safety, frame, postcondition from the property statement) generated from the current source of get_cycle_vector are discharged for every signal length, every number of columns, every phase_step and every iteration; a refused obligation or a native contract failure is reported as a violation.',
     note=PROOF_NOTE + 'Phase in [0,2pi] (the re-wrapping branch is covered by C19 frame + bounded); return_good=False / no mask here, the good-cycle and mask paths (single and several columns) are under C13.')
_rev('C13',
     technique=CLAIMED['C13']['technique'].replace('; bounded st', '; the same for a symbolic number of columns (both loops cut, ACCEPT / ACC per column in skolemised form); Cycles.__init__ with its collaborators as contract stubs (the function handed to compute_cycle_metric is the criteria with the container\'s own edge tolerance); bounded st'),
     text='is_good is proved to compute exactly the documented criteria; get_cycle_vector (good / mask paths, one and several columns, ensure_2d and ensure_equal_dims inlined) is proved to label a wrap-delimited segment iff criteria and mask hold, with the order-preserving renumbering, for all lengths / thresholds / edges; the container is proved to compute its quality flag with the criteria at its own edge tolerance, from its own phase, in cycle mode. The slice cache the flag is computed through is proved to be the run decomposition of the label vector at its unit steps; that slice k carries label k and the slice statistic itself are bounded.',
     note=PROOF_NOTE + 'Phase in [0,2pi]; mask is a vector.')
_rev('C14',
     technique='deductive: loop invariants + postconditions of get_cycle_stat_from_samples (uninterpreted reducing function, np.where as a function of the label), project_cycles_to_samples, bin_by_phase (digitize / mask-gather / mean with IEEE semantics: mean per bin over exactly its samples, empty bins missing) and phase_align in cycle mode (iterator and interp1d by contract: each column is the interpolant of exactly its cycle\'s samples on the grid; linear-exactness lemma); bounded stand-in: all label vectors <= 6/8 x reducers x output modes, phase_align / bin_by_phase grids',
     text='The per-cycle statistic is proved to be the supplied (arbitrary) function applied to exactly the samples carrying each label; the projection to be constant within cycles and NaN elsewhere; every phase bin with samples to hold their mean and empty bins to be missing; every phase-aligned column to be the extrapolating interpolant of exactly that cycle\'s samples evaluated on the phase grid, which is exact for quantities linear in phase - for all lengths and labellings. The interpolation-error clause, weighted / multi-column binning and the get_cycle_stat wrapper are bounded.',
     note=PROOF_NOTE + 'scipy interp1d and the cycle iterator are contract stubs; mean / sum with IEEE NaN semantics in the bin_by_phase unit.')
_rev('C16',
     text='Each index map / projection is verified against its set-theoretic contract for all vector lengths and all indices (loops by invariants; composite maps and projections call their callees through the contracts discharged in the callees\' own units); the round-trip statements are lemmas over those contracts. map_chain_to_samples (np.hstack of a symbolic number of variable-length pieces, by an assumed contract) is proved to list exactly the samples of the chain, each once, cycle by cycle in subset order; that this list is globally ascending is bounded.')
_rev('C19',
     technique=CLAIMED['C19']['technique'].replace('spectra / cycle-detection / second-layer routines', 'sift, get_next_imf, mask / ensemble sifts, envelope / extrema routines, frequency_transform, amplitude_normalise, phase_align, bin_by_phase, spectra, cycle-detection (wrapped and unwrapped phase) and second-layer routines (harnesses of their own properties with read-only arguments)'),
     text='The input validators are proved to accept exactly the documented single-signal layouts (returning the same elements) and to raise for every other extent combination (ensure_equal_dims for two and three arrays); writes into argument buffers / option dicts - item, slice and augmented assignments - are proved absent for the routines listed in the evidence. Layout-equivalence of complete numerical results and determinism are bounded.')
_rev('C09',
     technique=CLAIMED['C09']['technique'].replace('scale lemmas over', 'the nht and quad branches (analytic signal from the normalised IMFs / the quadrature transform, amplitude of column j = upper envelope of column j), amplitude_normalise (column c = its own normalisation iterate with its own iteration budget; both loops cut), scale lemmas over'),
     text=CLAIMED['C09']['text'].replace('The accuracy clause', 'amplitude_normalise is proved to normalise every column on its own. The accuracy clause'),
     note=PROOF_NOTE + 'Accuracy on sinusoids and scale invariance of amplitude_normalise are bounded (calibrated tolerances); interp_envelope, hilbert, quadrature_transform by contract.')
_rev('C06',
     text=CLAIMED['C06']['text'].replace('For all seven variants and both lower stages,', 'For all seven variants and the lower stages (get_next_imf -> interp_envelope and the stopping rules, interp_envelope -> get_padded_extrema, get_padded_extrema -> _find_extrema and np.pad on every padding round),'))
_rev('C03',
     text=CLAIMED['C03']['text'].replace('since the extraction is a function of its input the capped run is a prefix of the uncapped one.', 'the sift is proved never to extract again after an extraction that cleared the continue flag; since the extraction is a function of its input the capped run is therefore a prefix of the uncapped one.').replace('ensemble and second-layer results have the documented shapes.', 'ensemble results average the components every member has (members of different sizes) within the cap; second-layer results have the documented shapes.'))
_rev('C17',
     technique='deductive: contract of _unique_inds (positions in the original array; sort/where assumed); kdt_match as a whole: the greedy column-by-column assignment loop cut with invariants (marks in different x rows never carry the same y row; every marked y row is recorded in `selected`; marks are 0/1), its body executed on symbolic lists (comprehensions in closure form, `in` on a ghost set, argmin as a Skolem function, scatter store with an arbitrary index list, _unique_inds through its proved contract), the final selection loop and the return statement; VCs from the real source discharged by z3/cvc5; bounded stand-in: random instances 1-4 features x <= 60/200 rows x K 1..15 x 3 bounds, exhaustive small 1-d instances',
     text='Range, equal length, strict ordering of x indices, no y row twice (one-to-one), K-neighbour membership and the distance bound are proved for every input (K enumerated) under the assumed cKDTree.query contract; _unique_inds is proved to index the original array and to represent every input value (least-index induction: base and step are lemmas, the induction principle is applied by the harness).',
     note=PROOF_NOTE + 'K enumerated (1,2,3 quick; 5 and 15 in the thorough tier); which claimant wins a contested y row is not specified by the property and not proved.')
_rev('C03',
     text=CLAIMED['C03']['text'].replace('For every signal and cap the classic and masked sifts are proved to build column k by (masked) single-IMF extraction from the input minus the first k columns', 'For every signal and cap the classic and masked sifts are proved to build column k by (masked) single-IMF extraction - called with the option set of the caller - from the input minus the first k columns'))
_rev('C14',
     note=PROOF_NOTE + 'scipy interp1d and the cycle iterator are contract stubs; np.unwrap by an assumed contract; mean / sum with IEEE NaN semantics in the bin_by_phase unit.')
_rev('C02',
     technique=CLAIMED['C02']['technique'].replace('discharged by z3 over the contracts', 'and the relational argument itself (iterates of the transformed input are the transformed iterates; same stop decisions; same first stop index; results satisfying get_next_imf\'s postcondition are transform-related; component / residual recursion of the sift transform-related - inductions as base + step lemmas, for positive / negative factors and time reversal x the three stopping rules) discharged by z3 over the contracts'),
     text='The algebraic content of the equivariance is proved as lemmas over the stage contracts, the stage contracts are re-verified against the real source on every run, and the relational statement for single-IMF extraction and for the component recursion of the sift is proved from the stage contracts\' assumed equivariance by two inductions whose base and step are lemmas (the induction principle is applied by the harness). That both runs extract the same number of components when the absolute sift threshold fires, the masked sift\'s composition, and the bit-for-bit clause (floating point) are decided by the bounded stand-in only. Known finding: mask sift with an odd number of phases is not sign-equivariant.')
_rev('C01',
     technique=CLAIMED['C01']['technique'].replace('with get_next_imf replaced by its C04 contract', 'with get_next_imf replaced by its C04 contract, which is discharged in this check as well (the get_next_imf units are re-run)'))
# ---- revisions of the last session (rounds 7 and 8 of the seeded changes)
_rev('C10',
     technique=CLAIMED['C10']['technique'].replace('; bounded stand-in:', '; the agreement of the dense / sparse / 1-D totals with one another and with the in-range total as lemmas over the two contracts (inductions over the recursive definition of the spec sum: finite exchange, one-bin-or-none, Fubini, congruence); bounded stand-in: call histories on one array pair,'),
     text=CLAIMED['C10']['text'].replace('Agreement of the dense/sparse/1-D totals is bounded only.', 'The agreement of the dense / sparse / 1-D totals with one another and with the in-range total is derived from these two contracts by lemmas (base + step of each induction discharged; the induction principle is applied by the harness), for up to three IMF columns.'))
_rev('C08',
     technique=CLAIMED['C08']['technique'].replace('obligations: pairwise different', 'obligations: every decomposition of every member (both signs of a flip member) runs under the caller\'s option set, pairwise different'),
     text=CLAIMED['C08']['text'].replace('the members are proved to use', 'every member decomposition is proved to receive the caller\'s imf / envelope / extrema options, the members to use'))
_rev('C18',
     text=CLAIMED['C18']['text'].replace('and to reject a fourth level;', 'to raise KeyError - like nested indexing, store unchanged - for an absent entry at every depth, and to reject a fourth level;'))
_rev('C12',
     note=PROOF_NOTE + 'Single column: any phase range (values beyond 2 pi go through the re-wrapping branch, wrap_phase by contract, the clauses then stated about the re-wrapped array); several columns: phase in [0,2pi]. return_good=False / no mask here, the good-cycle and mask paths are under C13.')
_rev('C13',
     note=PROOF_NOTE + 'Single column: wrapped phase, and an unwrapped phase (some value beyond 2 pi: wrap_phase by contract, criteria stated about the re-wrapped array); several columns: phase in [0,2pi]; mask is a vector.')
_rev('C15',
     text=CLAIMED['C15']['text'].replace('Condition-string parsing,', 'The two routes to an augmented cycle - augment_slice for the cached slices, map_cycle_to_samples_augmented without the cache - are proved against one specification (start right after the closest sample below 3pi/2 on the left; none when there is no such sample). Condition-string parsing,'))
_rev('C10',
     technique=CLAIMED['C10']['technique'] + '; frame condition (no write reaches the caller\'s arrays) on every unit',
     note=CLAIMED['C10']['note'])
_rev('C05',
     text=CLAIMED['C05']['text'].replace('add only outside, cover both record ends and terminate;', 'add only outside - every added extremum, of every padding round, carrying the magnitude of the first / last detected one -, cover both record ends and terminate;'))
_rev('C07',
     note=PROOF_NOTE + 'cos uninterpreted; Pool.starmap contract assumed (OS scheduling is inside that assumption); std is an uninterpreted function of the vector; phase counts 1,2,3,4,7,8 in the quick tier, 1..8 in the thorough tier.')
