#!/bin/sh
# tools/recheck_seeds.sh <logfile> [pattern] : run the quick check of every seeded change (seeded/<id>-<round>/patch.diff, optionally only
# those whose directory name matches the pattern) against a scratch copy of /repo with the patch applied; one line per seed:
#   <id>-<round> exit=<code> <first reported clause>
# exit 1 = detected.  A patch that no longer applies to the current /repo (the code it edits was changed by a later fix: commit) is reported as such.
cd "$(dirname "$0")/.."
LOG=$1; PAT=${2:-.}
: > $LOG
for d in $(ls -d seeded/*/ | grep -E "$PAT" | sort); do
  s=$(basename $d); p=${s%-*}
  out=$(tools/try_patch.sh $d/patch.diff $p quick 2>&1)
  code=$?
  if echo "$out" | grep -q "FAILED\|can't find file\|malformed patch\|Reversed (or previously applied)"; then
    echo "$s patch-does-not-apply" >> $LOG
    continue
  fi
  tier=$(echo "$out" | grep -E "^C[0-9]+ tier" | sed 's/.*\(exit=[0-9]*\).*/\1/')
  cl=$(echo "$out" | grep -E "^  clause:" | head -1 | cut -c1-120)
  echo "$s ${tier:-exit=$code} $cl" >> $LOG
done
echo "=== ALL DONE" >> $LOG
