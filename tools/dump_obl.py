"""debug: dump the SMT-LIB text of the obligations of one unit whose name contains a substring
usage: .venv/bin/python tools/dump_obl.py C12 multi step-so-far /tmp/out_prefix"""
import sys, os
sys.path.insert(0, os.path.dirname(os.path.dirname(os.path.abspath(__file__))))
import importlib
from pyvc import verify
prop, usub, osub, out = sys.argv[1:5]
repo = os.environ.get('VERIF_REPO', '/repo')
sys.path.insert(0, repo)
mod = importlib.import_module('contracts.' + prop)
for u in mod.units('quick'):
    if usub not in u.name:
        continue
    res = verify.explore(u, repo)
    k = 0
    for o in res.obligations:
        if osub in o.name:
            txt = verify.smt2_of(o.hyps, o.goal)
            fn = '%s_%d.smt2' % (out, k)
            open(fn, 'w').write(txt)
            print(fn, o.name, len(txt))
            k += 1
