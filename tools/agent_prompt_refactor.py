"""prompt for a sub-agent that writes a behaviour-PRESERVING refactor (false-alarm probe): tools/agent_prompt_refactor.py <Cxx> <worktree>"""
import json, sys
pid = sys.argv[1]; wt = sys.argv[2]
for l in open('/verif/properties.jsonl'):
    p = json.loads(l)
    if p['id'] == pid:
        break
print(f"""You are helping test a verification framework for FALSE ALARMS by writing ONE realistic, behaviour-preserving refactoring of a Python library.

The library is AJQuinn/emd (Empirical Mode Decomposition), a git worktree of which is at {wt} (work ONLY inside {wt}; never touch /repo or /verif; do not read anything under /verif). Python to use: /venv/bin/python . Run things with  cd {wt} && PYTHONPATH={wt} /venv/bin/python ...  so that the worktree's copy of the `emd` package is imported (check with `python -c "import emd; print(emd.__file__)"`). There is no network. The shell prints a long conda error on every command: ignore it, write command output to files under your worktree and read those. NEVER use `git stash` (shared between worktrees of other testers).

The property that must KEEP holding, exactly as before:

  Title: {p['title']}
  Statement: {p['statement']}
  Quantified over: {p['quantifier']['text']}
  Code the property is anchored in: {', '.join(p['anchors']['files'])} - mechanisms: {'; '.join(m['name'] + ' (' + m['where'] + ')' for m in p['anchors']['mechanism'])}

Your task:
1. Read the relevant code in {wt}/emd.
2. Refactor the code the property is anchored in, the way a maintainer tidying up would: e.g. rename local variables, reorder independent statements, extract or inline a small helper, replace a loop by an equivalent comprehension or vectorised expression (or the other way round), replace a numpy call by an equivalent one, restructure an if / else chain, hoist an invariant computation, change how an intermediate array is built. Touch 5-25 lines in one or two functions. The refactoring must be SEMANTICS-PRESERVING for every valid input and option set the property quantifies over: same return values (bit for bit wherever floating point allows - do not reorder floating-point sums), same exceptions, same shapes and dtypes, no new mutation of arguments, same behaviour in worker processes. Do not change public signatures or defaults.
3. Write {wt}/demo_{pid}.py: a differential test that imports the refactored functions, and compares them with the ORIGINAL behaviour on many inputs (at least a few hundred, including edge cases: short inputs, boundary values, unusual options, several dtypes / layouts where relevant). To have the original available, first save a copy of the original file(s) under {wt}/orig_emd/ (e.g. `git show HEAD:emd/cycles.py > orig_emd/cycles_orig.py`) and import it under another module name, or record reference outputs from the unmodified code into a file before you refactor. The demo must print PASS and exit 0 when every comparison is identical (np.array_equal, same dtype / shape / exception type) and print FAIL and exit 1 otherwise.
4. Confirm: the demo prints PASS with your refactoring applied; the existing test-suite still passes:  cd {wt} && PYTHONPATH={wt} /venv/bin/python -m pytest -q -p no:cacheprovider --timeout=900   (38 tests).
5. Leave the refactoring applied in the worktree (uncommitted) and write {wt}/patch.diff containing `git diff -- emd`.

Report back: a 3-6 line description of the refactoring (which functions, what kind of edit), why it is behaviour-preserving, and the exact commands you ran with their outcomes. One refactoring only.""")
import glob
prev = [json.load(open(f))['summary'] for f in sorted(glob.glob('/verif/refactors/%s-*/meta.json' % pid))]
if prev:
    print("\nFor diversity: earlier testers already tried the following refactorings for this property, so make yours a DIFFERENT kind of edit and, if the property is anchored in several functions, prefer a function they did not touch (typical things not yet tried: swapping the order of independent statements, changing a comparison into its logically equivalent form, replacing an index loop by enumerate / zip, introducing or removing an intermediate variable or a copy that is never written, using keyword instead of positional arguments in internal calls, splitting a function in two, replacing a comprehension by a loop, early returns):")
    for i, m in enumerate(prev):
        print(' %d. "%s"' % (i + 1, m))
