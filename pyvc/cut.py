"""Mechanical extraction of a function from the real source and the loop-cut transform.

What the extraction changes - the complete list:
  * decorators of the extracted function are dropped (verified separately, C20);
  * docstrings are dropped;
  * `for`/`while` statements that have a sidecar invariant are replaced by the classical cut
        assert Inv; havoc(modified); if *: {assume Inv & guard; BODY; assert Inv; stop} else {assume Inv & !guard}
    (a `break` in BODY leaves the construct with the state BODY reached - no `assert Inv; stop` on that path - and execution continues
    after the loop; `continue` goes to `assert Inv; stop`)
    loops without a sidecar entry are left alone and executed natively by CPython (concrete trip count);
  * list comprehensions flagged in the sidecar are replaced by their closure form;
  * `a in b` / `a not in b` become `__vc.contains(a, b)` / `__vc.not_contains(a, b)`: identical for native operands (same evaluation
    order, same result); a symbolic container answers with a formula instead of the native bool python would coerce it to.
Everything else is compiled unchanged and executed by CPython.
"""
import ast
import textwrap
import types
import z3
from .core import C, Ctx, EndPath, Unsupported, SArr, SInt, SReal, SBool, lift, wrap, I, R, B, SORT, concrete, SpecMode, _tobool


def get_source_function(path, qualname):
    """Return (FunctionDef node, module source) for a possibly nested/method qualified name like
    'Cycles._parse_condition' or 'wrap_verbose.inner_verbose'."""
    src, tree = _parsed(path)
    node = tree
    for part in qualname.split('.'):
        found = None
        for ch in ast.walk(node) if node is not tree else tree.body:
            if isinstance(ch, (ast.FunctionDef, ast.ClassDef)) and ch.name == part and ch is not node:
                found = ch
                break
        if found is None:
            raise Unsupported('function %s not found in %s' % (qualname, path))
        node = found
    if not isinstance(node, ast.FunctionDef):
        raise Unsupported('%s is not a function' % qualname)
    import copy
    return copy.deepcopy(node), src      # callers rewrite the node: never hand out the cached tree


_PARSE_CACHE = {}


def _parsed(path):
    """(source text, ast) of a file, cached per (path, mtime, size) within one run"""
    import os
    st = os.stat(path)
    key = (path, st.st_mtime_ns, st.st_size)
    if key not in _PARSE_CACHE:
        src = open(path).read()
        _PARSE_CACHE[key] = (src, ast.parse(src))
    return _PARSE_CACHE[key]


MUTATORS = {'append', 'extend', 'sort', 'pop', 'update', 'insert', 'remove', 'clear', 'setdefault'}


def modified(stmts):
    out = set()

    def tgt(t):
        while isinstance(t, (ast.Subscript, ast.Attribute, ast.Starred)):
            t = t.value
        if isinstance(t, ast.Name):
            out.add(t.id)
        elif isinstance(t, (ast.Tuple, ast.List)):
            for e in t.elts:
                tgt(e)
    for s in stmts:
        for n in ast.walk(s):
            if isinstance(n, ast.Assign):
                for t in n.targets:
                    tgt(t)
            elif isinstance(n, (ast.AugAssign, ast.AnnAssign)):
                tgt(n.target)
            elif isinstance(n, (ast.For, ast.comprehension)):
                if isinstance(n, ast.For):
                    tgt(n.target)
            elif isinstance(n, ast.With):
                for it in n.items:
                    if it.optional_vars is not None:
                        tgt(it.optional_vars)
            elif isinstance(n, ast.Call) and isinstance(n.func, ast.Attribute) and n.func.attr in MUTATORS:
                tgt(n.func.value)
            elif isinstance(n, ast.NamedExpr):
                tgt(n.target)
    return out


def _has_break(stmts):
    for s in stmts:
        for n in ast.walk(s):
            if isinstance(n, ast.Break):
                return True
    return False


class _OwnBreaks(ast.NodeTransformer):
    """`break` statements that belong to the loop whose body is visited (not to a loop nested in it):  break -> <flag> = True; break"""

    def __init__(self, flag):
        self.flag = flag
        self.n = 0

    def visit_For(self, node):
        # a nested native loop owns its breaks; a nested loop that was cut has become an if-construct around `for __once in (0,)`:
        # the user-level breaks in there were already rewritten when that loop was cut
        return node

    visit_While = visit_For
    visit_FunctionDef = visit_For
    visit_Lambda = visit_For

    def visit_Break(self, node):
        self.n += 1
        return [ast.Assign(targets=[ast.Name(id=self.flag, ctx=ast.Store())], value=ast.Constant(value=True), lineno=0), node]


def _flag_breaks(body, flag):
    t = _OwnBreaks(flag)
    out = []
    for st in body:
        r = t.visit(st)
        out.extend(r if isinstance(r, list) else [r])
    return out, t.n


class CompRewriter(ast.NodeTransformer):
    """[EXPR for x in ITER]  ->  __vc.comp(lambda x: EXPR, ITER)   (single generator, no conditions).
    At run time a concrete iterable gives an ordinary list; a symbolic-length one gives the closure form."""

    def __init__(self, local_names=()):
        self.local_names = set(local_names)

    def visit_ListComp(self, node):
        self.generic_visit(node)
        if len(node.generators) != 1 or node.generators[0].ifs or node.generators[0].is_async:
            return node
        g = node.generators[0]
        if isinstance(g.target, ast.Name):
            lam = ast.Lambda(args=ast.arguments(posonlyargs=[], args=[ast.arg(arg=g.target.id)], kwonlyargs=[], kw_defaults=[], defaults=[]), body=node.elt)
        else:
            return node
        # python evaluates the element expression while the comprehension runs: the closure must not see later rebindings of the
        # function's local variables (loop index incremented, name reused) - bind them now:  (lambda a, b: lambda x: EXPR)(a, b)
        free = sorted({n.id for n in ast.walk(node.elt) if isinstance(n, ast.Name) and isinstance(n.ctx, ast.Load)} & self.local_names - {g.target.id})
        if free:
            outer = ast.Lambda(args=ast.arguments(posonlyargs=[], args=[ast.arg(arg=v) for v in free], kwonlyargs=[], kw_defaults=[], defaults=[]), body=lam)
            grab = ast.Call(func=ast.Attribute(value=ast.Name(id='__vc', ctx=ast.Load()), attr='grab', ctx=ast.Load()),
                            args=[ast.Call(func=ast.Name(id='locals', ctx=ast.Load()), args=[], keywords=[]), ast.Constant(value=tuple(free))], keywords=[])
            lam = ast.Call(func=outer, args=[ast.Starred(value=grab, ctx=ast.Load())], keywords=[])
        return ast.Call(func=ast.Attribute(value=ast.Name(id='__vc', ctx=ast.Load()), attr='comp', ctx=ast.Load()), args=[lam, g.iter], keywords=[])

    def visit_Compare(self, node):
        """a in b  ->  __vc.contains(a, b)      a not in b  ->  __vc.not_contains(a, b)
        (python coerces the result of `in` to a native bool; a symbolic container has to answer with a formula).  Native operands: `a in b`."""
        self.generic_visit(node)
        if len(node.ops) == 1 and isinstance(node.ops[0], (ast.In, ast.NotIn)):
            attr = 'contains' if isinstance(node.ops[0], ast.In) else 'not_contains'
            return ast.Call(func=ast.Attribute(value=ast.Name(id='__vc', ctx=ast.Load()), attr=attr, ctx=ast.Load()), args=[node.left, node.comparators[0]], keywords=[])
        return node


class _Unbound:
    """a local variable that was not bound when a comprehension was created: any use is the UnboundLocalError python would raise"""

    def __init__(self, name):
        object.__setattr__(self, '_n', name)

    def __getattr__(self, k):
        raise UnboundLocalError("cannot access local variable '%s' where it is not associated with a value" % object.__getattribute__(self, '_n'))


def local_names(fd):
    out = {a.arg for a in fd.args.args + fd.args.kwonlyargs + fd.args.posonlyargs}
    for n in ast.walk(fd):
        if isinstance(n, ast.Name) and isinstance(n.ctx, ast.Store):
            out.add(n.id)
    return out


class Cutter:
    def __init__(self, cut_ordinals, abstract=()):
        self.k = 0
        self.cut = cut_ordinals      # set of loop ordinals (pre-order, source order) to cut
        self.abstract = set(abstract)   # loops replaced by havoc + assumed invariant: their BODY IS NOT VERIFIED (reported as an assumption)
        self.nloops = 0
        self.decls = {}
        self.sigs = {}           # loop ordinal -> signature of the loop the sidecar invariant was written for (see report: restructured loops)

    def abstract_loop(self, node, k):
        mods = sorted(m for m in modified(node.body) | ({node.target.id} if isinstance(node, ast.For) and isinstance(node.target, ast.Name) else set()) if not m.startswith('__'))
        src = '__vc.establish(%d, locals())\n%s__vc.assume_inv(%d, locals())\n' % (k, self._havocs(k, mods), k)
        return ast.parse(src).body

    def rewrite(self, stmts):
        out = []
        for s in stmts:
            if isinstance(s, (ast.For, ast.While)):
                k = self.k
                self.k += 1
                self.nloops += 1
                s.body = self.rewrite(s.body)
                if s.orelse:
                    s.orelse = self.rewrite(s.orelse)
                if k in self.abstract or k in self.cut:
                    head = ast.unparse(s.iter) if isinstance(s, ast.For) else ast.unparse(s.test)
                    self.sigs[k] = '%s|%s|%s|%s' % ('for' if isinstance(s, ast.For) else 'while', head,
                                                   ','.join(sorted(m for m in modified(s.body) if not m.startswith('__'))), 'break' if _has_break(s.body) else '')
                if k in self.abstract:
                    out.extend(self.abstract_loop(s, k))
                    continue
                if k in self.cut:
                    if s.orelse:
                        raise Unsupported('loop else clause on cut loop')
                    out.extend(self.cut_for(s, k) if isinstance(s, ast.For) else self.cut_while(s, k))
                else:
                    out.append(s)
                continue
            for fld in ('body', 'orelse', 'finalbody'):
                v = getattr(s, fld, None)
                if isinstance(v, list) and v and isinstance(v[0], ast.stmt) and not isinstance(s, (ast.FunctionDef, ast.ClassDef)):
                    setattr(s, fld, self.rewrite(v))
            if isinstance(s, ast.Try):
                for h in s.handlers:
                    h.body = self.rewrite(h.body)
            out.append(s)
        return out

    def _prebind(self, k):
        # a sidecar-declared variable that the code has not bound before the loop gets an arbitrary value of its declared kind
        return ''.join("if '%s' not in locals(): %s = __vc.havoc(%d, '%s', locals())\n" % (m, m, k, m) for m in sorted(self.decls.get(k, ())))

    def _havocs(self, k, mods):
        # a variable the sidecar declares is given its declared kind even if it is not bound before the loop
        forced = set(self.decls.get(k, ()))
        mods = sorted(set(mods) | forced)
        return ''.join(("%s = __vc.havoc(%d, '%s', locals())\n" % (m, k, m)) if m in forced else
                       ("if '%s' in locals(): %s = __vc.havoc(%d, '%s', locals())\n" % (m, m, k, m)) for m in mods)

    def cut_for(self, node, k):
        body, nbrk = _flag_breaks(node.body, '__brk%d' % k)
        node.body = body
        if isinstance(node.target, ast.Name):
            tgt = node.target.id
            unpack = ''
        else:
            tgt = '__tgt%d' % k
            unpack = '%s = __vc.loop_item(%d, __rng%d, %s)' % (ast.unparse(node.target), k, k, tgt)
        mods = sorted(m for m in modified(node.body) - {tgt} if not m.startswith('__'))
        if unpack:
            mods = [m for m in mods if m not in {n.id for n in ast.walk(node.target) if isinstance(n, ast.Name)}]
        src = '''
__rng{k} = __vc.loop_range({k}, {it})
{tgt} = __vc.loop_lo(__rng{k})
{pre}__vc.establish({k}, locals())
{hav}{tgt} = __vc.fresh_index({k})
if __vc.nondet({k}):
    __vc.assume_iter({k}, __rng{k}, {tgt}, locals())
    {unpack}
    __brk{k} = False
    for __once in (0,):
        pass
    if not __brk{k}:
        {tgt} = {tgt} + 1
        __vc.preserve({k}, locals())
        __vc.end_path()
else:
    __vc.assume_done({k}, __rng{k}, {tgt}, locals())
    {tgt} = {tgt} - 1
'''.format(k=k, it=ast.unparse(node.iter), tgt=tgt, hav=self._havocs(k, mods), unpack=unpack or 'pass', pre=self._prebind(k))
        new = ast.parse(textwrap.dedent(src)).body
        ifnode = new[-1]
        once = [n for n in ifnode.body if isinstance(n, ast.For)][0]
        once.body = node.body
        return new

    def cut_while(self, node, k):
        body, nbrk = _flag_breaks(node.body, '__brk%d' % k)
        node.body = body
        mods = sorted(m for m in modified(node.body) if not m.startswith('__'))
        src = '''
{pre}__vc.establish({k}, locals())
{hav}if __vc.nondet({k}):
    __vc.assume_inv({k}, locals())
    if not ({test}): __vc.end_path()
    __vc.variant_before({k}, locals())
    __brk{k} = False
    for __once in (0,):
        pass
    if not __brk{k}:
        __vc.preserve({k}, locals())
        __vc.end_path()
else:
    __vc.assume_inv({k}, locals())
    if ({test}): __vc.end_path()
'''.format(k=k, hav=self._havocs(k, mods), test=ast.unparse(node.test), pre=self._prebind(k))
        new = ast.parse(textwrap.dedent(src)).body
        ifnode = new[-1]
        once = [n for n in ifnode.body if isinstance(n, ast.For)][0]
        once.body = node.body
        return new


class SRange:
    def __init__(self, *a):
        if len(a) == 1:
            self.lo, self.hi = z3.IntVal(0), lift(a[0])
        elif len(a) == 2:
            self.lo, self.hi = lift(a[0]), lift(a[1])
        else:
            raise Unsupported('range with step')

    def __iter__(self):
        lo, hi = concrete(self.lo), concrete(self.hi)
        if lo is None or hi is None:
            raise Unsupported('native iteration over a symbolic range (loop needs an invariant)')
        return iter(range(lo, hi))

    def __len__(self):
        lo, hi = concrete(self.lo), concrete(self.hi)
        if lo is None or hi is None:
            raise Unsupported('len of symbolic range')
        return max(hi - lo, 0)


def s_range(*a):
    if all(isinstance(x, int) for x in a):
        return range(*a)
    return SRange(*a)


class VC:
    """Runtime support called by the cut code.  loops: {ordinal: {'inv': [(name, lambda e: formula)],
    'decl': {var: lambda e: fresh value}, 'variant': lambda e: int term}}"""

    def __init__(self, fname, loops):
        self.fname = fname
        self.loops = loops
        self._variant0 = {}
        self._pre = {}        # loop ordinal -> the variables as they were when the loop was reached (`e.pre.<name>` in an invariant: frame conditions)

    def _env(self, env, k=None):
        ns = types.SimpleNamespace(**{k_: v for k_, v in env.items() if not k_.startswith('__')})
        for k_, v in env.items():
            if k_.startswith('__tgt'):          # index of a cut for-loop whose target is a tuple: visible to invariants as e.tgt<ordinal>
                setattr(ns, k_[2:], v)
        if k is not None and k in self._pre:
            ns.pre = self._pre[k]
        return ns

    def ev(self, inv, env, k=None):
        with SpecMode():
            try:
                r = inv(self._env(env, k))
            except (AttributeError, NameError, KeyError) as ex:
                raise Unsupported('sidecar invariant refers to a name the code no longer has: %s' % ex)
            return _tobool(r) if not isinstance(r, bool) else z3.BoolVal(r)

    def loop_range(self, k, it):
        if isinstance(it, SRange):
            return it
        if isinstance(it, range):
            if it.step != 1:
                raise Unsupported('range step')
            return SRange(it.start, it.stop)
        if isinstance(it, SArr) and it.ndim == 1:
            r = SRange(it.shape_e[0])
            r.items = it
            return r
        if isinstance(it, (list, tuple)):
            r = SRange(len(it))
            r.items = it
            return r
        if hasattr(it, '__sym_iter__'):
            return it.__sym_iter__()
        raise Unsupported('cut for-loop over %r' % type(it))

    def comp(self, f, it):
        from .core import SymList
        if isinstance(it, SRange):
            lo, hi = concrete(it.lo), concrete(it.hi)
            if lo is not None and hi is not None:
                return [f(v) for v in range(lo, hi)]
            n = z3.simplify(z3.If(it.hi >= it.lo, it.hi - it.lo, 0)) if concrete(it.lo) != 0 else z3.simplify(z3.If(it.hi >= 0, it.hi, 0))
            lo_ = it.lo
            sl = SymList(n, (lambda j: f(wrap(lift(j) + lo_))) if concrete(lo_) != 0 else (lambda j: f(wrap(lift(j)))))
        elif isinstance(it, SArr) and it.ndim >= 1 and concrete(it.shape_e[0]) is None:
            sl = SymList(it.shape_e[0], lambda j: f(it[j]))
        elif isinstance(it, SymList):
            sl = SymList(it.n, lambda j: f(it.item(j)))
        else:
            return [f(v) for v in it]
        # safety obligations of the element expression, at an arbitrary index
        c = C()
        j = c.fresh('cj', I)
        with c.scoped(z3.And(0 <= j, j < sl.n)):
            sl.at(SInt(j))
        return sl

    def grab(self, env, names):
        return tuple(env[n] if n in env else _Unbound(n) for n in names)

    def contains(self, a, b):
        from .core import SymSet
        if isinstance(b, SymSet):
            return b.has(a)
        return a in b

    def not_contains(self, a, b):
        from .core import SymSet
        if isinstance(b, SymSet):
            return ~b.has(a)
        return a not in b

    def loop_item(self, k, rng, idx):
        items = getattr(rng, 'items', None)
        if items is None:
            raise Unsupported('tuple target on plain range')
        return items[idx]

    def loop_lo(self, rng):
        return wrap(rng.lo)

    def establish(self, k, env):
        # the havoc that follows rebinds every modified name to a fresh object, so the objects captured here keep their loop-entry value
        self._pre[k] = types.SimpleNamespace(**{k_: v for k_, v in env.items() if not k_.startswith('__')})
        for nm, inv in self.loops[k].get('inv', []):
            C().oblige('%s:loop%d:establish:%s' % (self.fname, k, nm), self.ev(inv, env, k), 'inv')

    def havoc(self, k, name, env):
        c = C()
        decl = self.loops[k].get('decl', {})
        if name in decl:
            return decl[name](self._env(env))
        v = env[name]
        if isinstance(v, SArr):
            return v.fresh_like(name)
        if isinstance(v, bool) or isinstance(v, SBool):
            return SBool(c.fresh(name, B))
        if isinstance(v, (int, SInt)):
            return SInt(c.fresh(name, I))
        if isinstance(v, (float, SReal)):
            return SReal(c.fresh(name, R))
        if v is None or isinstance(v, (str, types.FunctionType, types.ModuleType)):
            return v      # loop-local temporaries without a symbolic kind keep their entry value
        if getattr(v, '__havoc__', None):
            return v.__havoc__(name)
        if isinstance(v, (list, tuple, dict)):
            return v
        return v

    def fresh_index(self, k):
        return SInt(C().fresh('it%d' % k, I))

    def nondet(self, k):
        return C().branch(C().fresh('nd%d' % k, B))

    def assume_iter(self, k, rng, t, env):
        C().assume(z3.And(rng.lo <= t.e, t.e < rng.hi))
        self.assume_inv(k, env)

    def assume_inv(self, k, env):
        for nm, inv in self.loops[k].get('inv', []):
            C().assume(self.ev(inv, env, k))

    def assume_done(self, k, rng, t, env):
        C().assume(t.e == z3.If(rng.hi >= rng.lo, rng.hi, rng.lo))
        self.assume_inv(k, env)

    def variant_before(self, k, env):
        v = self.loops[k].get('variant')
        if v is not None:
            with SpecMode():
                self._variant0[k] = lift(v(self._env(env)))
            C().oblige('%s:loop%d:variant-nonnegative' % (self.fname, k), self._variant0[k] >= 0, 'inv')

    def preserve(self, k, env):
        for nm, inv in self.loops[k].get('inv', []):
            C().oblige('%s:loop%d:preserve:%s' % (self.fname, k, nm), self.ev(inv, env, k), 'inv')
        v = self.loops[k].get('variant')
        if v is not None and k in self._variant0:
            with SpecMode():
                now = lift(v(self._env(env)))
            C().oblige('%s:loop%d:variant-decreases' % (self.fname, k), now < self._variant0[k], 'inv')

    def end_path(self):
        raise EndPath()


def build(path, qualname, loops, namespace, keep_decorators=False):
    """Extract qualname from the file at path, cut the loops listed in `loops`, compile in `namespace`."""
    fd, src = get_source_function(path, qualname)
    fd.decorator_list = []
    if fd.body and isinstance(fd.body[0], ast.Expr) and isinstance(fd.body[0].value, ast.Constant) and isinstance(fd.body[0].value.value, str):
        fd.body = fd.body[1:] or [ast.Pass()]
    fd = CompRewriter(local_names(fd)).visit(fd)
    _decls = {k: list(v.get('decl', {})) for k, v in loops.items()}
    cutter = Cutter(set(k for k in loops if not loops[k].get('abstract')), abstract=[k for k in loops if loops[k].get('abstract')])
    cutter.decls = _decls
    fd.body = cutter.rewrite(fd.body)
    missing = [k for k in loops if k >= cutter.nloops]
    if missing:
        raise Unsupported('sidecar names loop ordinal(s) %s but %s has %d loops' % (missing, qualname, cutter.nloops))
    mod = ast.Module(body=[fd], type_ignores=[])
    ast.fix_missing_locations(mod)
    ns = namespace
    ns['__vc'] = VC(qualname, loops)
    ns['__vc'].sigs = dict(cutter.sigs)
    exec(compile(mod, '<cut:%s:%s>' % (path, qualname), 'exec'), ns)
    return ns[fd.name], cutter.nloops
