"""Driver: explore all paths of a cut function on symbolic inputs, collect obligations, discharge them in a pool.

Verdict per obligation: 'unsat' = discharged; 'sat' = refused with a counter-model; 'unknown'/'timeout' = undecided.
Back ends: z3 (python API, fresh context per query) first; then /usr/bin/cvc5 and /usr/bin/z3 (4.8) on the SMT-LIB dump.
"""
import os
import re
import sys
import time
import traceback
import subprocess
import tempfile
import multiprocessing as mp
import z3
from . import core, cut, npshim
from .core import Ctx, EndPath, Unsupported, Obligation

HERE = os.path.dirname(os.path.abspath(__file__))


ModelledError = core.ModelledError
PROXY_NAMES = ('SArr', 'SInt', 'SReal', 'SBool', 'SNan', 'SymList', 'FrameDict', 'SRange', 'SNum', 'Sym')


class Unit:
    """One function under contract, one harness configuration."""

    def __init__(self, name, path, qualname, make_inputs, post=None, loops=None, ns=None, raises=None,
                 observables=None, module=None, prop=None, max_paths=400, wrap_call=None, inline=None):
        self.name = name
        self.path = path
        self.qualname = qualname
        self.make_inputs = make_inputs
        self.post = post
        self.loops = loops or {}
        self.ns = ns or {}
        self.raises = raises or {}
        self.observables = observables or []
        self.module = module
        self.max_paths = max_paths
        self.wrap_call = wrap_call
        self.inline = inline or []      # [(path, qualname, loops)] callees rebuilt in the same shim namespace (verified as part of the caller)
        self.bound_scalars = None


class UnitResult:
    def __init__(self, unit):
        self.unit = unit
        self.paths = 0
        self.obligations = []       # Obligation objects (+ .uid)
        self.undecided_reason = None
        self.exc_paths = 0
        self.gen_s = 0.0
        self.canary = []            # path-condition satisfiability probes
        self.loopsig = ''           # signature of the cut loops of the function as it is now


_SIG_ERR = re.compile(r"^([\w.<>]+)\(\) (got an unexpected keyword argument|got multiple values for argument|takes |missing \d+ required)")
_MACH_QUALNAMES = {}


def _machinery_qualnames():
    """qualified names (as python 3.11+ prints them in call-signature TypeErrors) of every function, method, nested function and lambda defined by
    the verification machinery (modules contracts.*, pyvc.*, vf.*), collected from the code objects of the loaded modules"""
    mods = [m for n, m in list(sys.modules.items()) if n.split('.')[0] in ('contracts', 'pyvc', 'vf') and m is not None]
    key = len(mods)
    if key in _MACH_QUALNAMES:
        return _MACH_QUALNAMES[key]
    out = set()

    def walk(code):
        out.add(getattr(code, 'co_qualname', code.co_name))
        for k in code.co_consts:
            if hasattr(k, 'co_consts'):
                walk(k)
    for m in mods:
        for v in list(vars(m).values()):
            if getattr(v, '__module__', None) != m.__name__:
                continue
            if isinstance(v, type):
                for w in vars(v).values():
                    w = getattr(w, '__func__', w)
                    if hasattr(w, '__code__'):
                        walk(w.__code__)
            elif hasattr(v, '__code__'):
                walk(v.__code__)
    _MACH_QUALNAMES.clear()
    _MACH_QUALNAMES[key] = out
    return out


def _is_stub_signature_error(ex):
    """a TypeError python raised AT A CALL because the callee's signature does not take the arguments, where the callee is a stand-in defined by
    the machinery (a library stub without a keyword the library has): an engine limit, not an exception of the code"""
    if not isinstance(ex, TypeError):
        return False
    m = _SIG_ERR.match(str(ex))
    return bool(m) and m.group(1) in _machinery_qualnames()


def _is_stub_object(o):
    """the object (or class) an attribute lookup failed on is defined by the verification machinery, not by the repository / libraries"""
    if o is None:
        return False
    cls = o if isinstance(o, type) else type(o)
    mod = getattr(cls, '__module__', '') or ''
    return mod.split('.')[0] in ('contracts', 'pyvc', 'vf')


def base_namespace(module):
    ns = dict(module.__dict__) if module is not None else {}
    ns.update(np=npshim, len=s_len, range=cut.s_range, all=npshim.all_, any=npshim.any_,
              max=s_max, min=s_min, abs=s_abs, sum=s_sum, print=lambda *a, **k: None,
              logger=NullLogger(), isinstance=s_isinstance, float=s_float, int=s_int, bool=s_bool, enumerate=s_enumerate)
    return ns


class NullLogger:
    def __getattr__(self, k):
        return lambda *a, **kw: None


def s_len(x):
    if isinstance(x, core.SArr):
        return core._c_or_s(x.shape_e[0])
    if isinstance(x, cut.SRange):
        c = core.concrete(x.hi - x.lo)
        return c if c is not None else core.SInt(z3.If(x.hi >= x.lo, x.hi - x.lo, 0))
    if hasattr(x, '__sym_len__'):
        return x.__sym_len__()
    return len(x)


def s_max(*a, **k):
    if len(a) == 1 and isinstance(a[0], core.SArr):
        return npshim.amax(a[0])
    if any(core.is_sym(v) for v in a):
        r = core.lift(a[0])
        for v in a[1:]:
            x, y = core.coerce2(r, core.lift(v))
            r = z3.If(x >= y, x, y)
        return core.wrap(r)
    import builtins
    return builtins.max(*a, **k)


def s_min(*a, **k):
    if len(a) == 1 and isinstance(a[0], core.SArr):
        return npshim.amin(a[0])
    if any(core.is_sym(v) for v in a):
        r = core.lift(a[0])
        for v in a[1:]:
            x, y = core.coerce2(r, core.lift(v))
            r = z3.If(x <= y, x, y)
        return core.wrap(r)
    import builtins
    return builtins.min(*a, **k)


def s_abs(x):
    if isinstance(x, core.SArr):
        return npshim.abs(x)
    import builtins
    return builtins.abs(x)


def s_sum(x, *a):
    if isinstance(x, core.SArr):
        return npshim.sum(x)
    import builtins
    return builtins.sum(x, *a)


def s_float(x=0.0):
    if isinstance(x, core.SInt):
        return core.SReal(z3.ToReal(x.e))
    if isinstance(x, core.SReal):
        return x
    return float(x)


def s_int(x=0, *a):
    if isinstance(x, core.SInt):
        return x
    if isinstance(x, core.SReal):
        return core.SInt(z3.If(x.e >= 0, z3.ToInt(x.e), -z3.ToInt(-x.e)))
    if isinstance(x, core.SBool):
        return x._num()
    return int(x, *a)


def s_bool(x=False):
    if isinstance(x, core.SBool):
        return x
    if isinstance(x, (core.SInt, core.SReal)):
        return core.SBool(x.e != 0)
    return bool(x)


def s_enumerate(it, start=0):
    return enumerate(it, start)


core.DTYPE_KIND.update({s_int: 'i', s_float: 'f', s_bool: 'b'})
_real_isinstance = isinstance


def s_isinstance(obj, cls):
    import numpy as _np
    cl = cls if _real_isinstance(cls, tuple) else (cls,)
    cl = tuple({s_float: float, s_int: int, s_bool: bool}.get(c, c) if callable(c) and not _real_isinstance(c, type) else c for c in cl)
    if _real_isinstance(obj, core.SArr):
        return any(c is core.SArr or c is _np.ndarray for c in cl)
    if _real_isinstance(obj, core.SInt):
        return any(c in (int, _np.integer) for c in cl)
    if _real_isinstance(obj, core.SReal):
        return any(c in (float, _np.floating) for c in cl)
    if _real_isinstance(obj, core.SBool):
        return any(c in (bool, int, _np.bool_) for c in cl)
    cl = tuple(list if c is core.SArr else c for c in cl) if any(c is core.SArr for c in cl) else cl
    return _real_isinstance(obj, cl)


def _native_repo_frame(tb, repo):
    """name of a function of the repository that appears in the traceback as NATIVELY executed code (its file is a real file of the
    repository; rebuilt functions are compiled under the pseudo file name '<cut:...>'), or None"""
    root = os.path.realpath(repo) + os.sep
    while tb is not None:
        fn = tb.tb_frame.f_code.co_filename
        if not fn.startswith('<') and os.path.realpath(fn).startswith(root):
            return '%s (%s)' % (tb.tb_frame.f_code.co_name, os.path.relpath(os.path.realpath(fn), root))
        tb = tb.tb_next
    return None


def _innermost_file(tb):
    last = None
    while tb is not None:
        last = tb.tb_frame.f_code.co_filename
        tb = tb.tb_next
    return last or ''


_NATIVE_CALLEE = re.compile(r'unsupported construct: callee (\w+) \(([^)]+)\) ran outside the engine')


def explore(unit, repo):
    """Run the unit's function on symbolic inputs along every path. Returns UnitResult.

    A module-level helper of the repository that the unit's function calls and that the unit neither stubs nor inlines (typically one that
    a refactoring has just extracted) would run natively, with the real numpy, on the proxies.  When that fails, the helper is rebuilt
    under the shim like the unit's own function (its source re-read from the repository, no loop contracts: its loops must be concrete)
    and the exploration is repeated - so that the extracted code stays under the unit's obligations instead of leaving the unit undecided."""
    extra = []
    res = _explore_once(unit, repo, extra)
    for _ in range(4):
        m = _NATIVE_CALLEE.match(res.undecided_reason or '')
        if not m or (m.group(2), m.group(1)) in [(e[0], e[1]) for e in extra]:
            break
        extra.append((m.group(2), m.group(1), {}))
        res2 = _explore_once(unit, repo, extra)
        if (res2.undecided_reason or '').startswith('extraction'):
            break
        res2.gen_s += res.gen_s
        res2.auto_inlined = [e[1] for e in extra]
        res = res2
    return res


def _explore_once(unit, repo, extra_inline=()):
    res = UnitResult(unit)
    t0 = time.time()
    try:
        ns = base_namespace(unit.module)
        ns.update(unit.ns)
        for ip, iq, il in list(unit.inline) + list(extra_inline):
            g, _ = cut.build(os.path.join(repo, ip), iq, il, ns)
        f, nloops = cut.build(os.path.join(repo, unit.path), unit.qualname, unit.loops, ns)
        res.loopsig = ';'.join('%d:%s' % (k, v) for k, v in sorted(getattr(ns.get('__vc'), 'sigs', {}).items()))
    except Unsupported as ex:
        res.undecided_reason = 'extraction: %s' % ex
        return res
    except SyntaxError as ex:
        res.undecided_reason = 'extraction: syntax error %s' % ex
        return res
    work = [[]]
    while work:
        if res.paths >= unit.max_paths:
            res.undecided_reason = 'path budget (%d) exhausted' % unit.max_paths
            break
        prefix = work.pop()
        ctx = Ctx(prefix, unit.name)
        Ctx.cur = ctx
        Ctx.spec = 0
        ended = 'return'
        try:
            args, kwargs = unit.make_inputs(ctx)
            if getattr(unit, 'frame', False):
                for v in list(args) + list(kwargs.values()):
                    if isinstance(v, core.SArr):
                        ctx.frame_inputs.add(v.buf)
            try:
                if unit.wrap_call is not None:
                    ret = unit.wrap_call(f, ctx, args, kwargs)
                else:
                    ret = f(*args, **kwargs)
            except (EndPath, Unsupported):
                raise
            except Exception as ex:     # an exception raised by the code under verification
                tb = sys.exc_info()[2]
                where = _innermost_file(tb)
                if type(ex).__module__.split('.')[0] in ('z3', 'ctypes') or isinstance(ex, RecursionError):
                    raise Unsupported('solver-library error inside the engine %s: %s' % (type(ex).__name__, str(ex)[:200]))
                if where.startswith(HERE) and not isinstance(ex, ModelledError):
                    raise Unsupported('engine error %s: %s at %s' % (type(ex).__name__, ex, traceback.format_exc(limit=-3)))
                nat = _native_repo_frame(tb, repo)
                if nat is not None and not isinstance(ex, ModelledError):
                    # a function of the repository that is neither the unit nor one of its inlined / stubbed callees (a helper the unit's
                    # function calls - e.g. one a refactoring has just extracted) ran NATIVELY, with the real numpy, on symbolic proxies:
                    # whatever it raised says nothing about the code
                    raise Unsupported('callee %s ran outside the engine (not rebuilt under the numpy shim): %s: %s' % (nat, type(ex).__name__, str(ex)[:120]))
                if isinstance(ex, AttributeError) and not isinstance(ex, ModelledError) and _is_stub_object(getattr(ex, 'obj', None)):
                    # a stand-in for a library namespace (scipy.signal, interpolate, ...) lacks the attribute: an engine limit
                    raise Unsupported('stub limit %s: %s' % (type(ex).__name__, ex))
                if not isinstance(ex, ModelledError) and _is_stub_signature_error(ex):
                    # a stand-in of the machinery was called with an argument its signature lacks (the library's function may well take it)
                    raise Unsupported('stub limit %s: %s' % (type(ex).__name__, ex))
                if isinstance(ex, (AttributeError, TypeError)) and not isinstance(ex, ModelledError) and any(pn in str(ex) for pn in PROXY_NAMES):
                    # a method / operator / keyword the symbolic proxy does not model: a limit of the engine, not an exception of the code
                    raise Unsupported('proxy limit %s: %s' % (type(ex).__name__, ex))
                res.exc_paths += 1
                ended = 'raise'
                handler = None
                for et, h in unit.raises.items():
                    if isinstance(ex, et):
                        handler = h
                        break
                if handler is None:
                    ctx.obl.append(Obligation('%s:no-undocumented-exception:%s' % (unit.qualname, type(ex).__name__), list(ctx.pc), z3.BoolVal(False), 'exc',
                                              list(ctx.prefix[:ctx.pos]), note='%s: %s' % (type(ex).__name__, str(ex)[:200])))
                else:
                    handler(ctx, args, kwargs, ex)
            else:
                if unit.post is not None:
                    unit.post(ctx, args, kwargs, ret)
        except EndPath:
            ended = 'cut'
        except Unsupported as ex:
            res.undecided_reason = 'unsupported construct: %s' % ex
            Ctx.cur = None
            break
        except RecursionError:
            res.undecided_reason = 'recursion limit in engine'
            Ctx.cur = None
            break
        finally:
            Ctx.spec = 0
        res.paths += 1
        work.extend(ctx.pending)
        keep = getattr(unit, 'keep_kinds', None)
        drop = getattr(unit, 'drop_names', ())      # e.g. IEEE float division (inf / nan, not an exception): stated as an assumption by the unit
        for n, o in enumerate(ctx.obl):
            if (keep is None or o.kind in keep) and o.name not in drop:
                res.obligations.append(o)
        res.canary.append((list(ctx.pc_nogoal), ended, list(ctx.prefix[:ctx.pos])))
    Ctx.cur = None
    res.gen_s = time.time() - t0
    return res


# ------------------------------------------------------------------------------------------
# discharge

def smt2_of(hyps, goal):
    s = z3.Solver()
    for h in hyps:
        s.add(h)
    s.add(z3.Not(goal))
    return s.to_smt2()


def _decls_of(asts):
    out = {}
    seen = set()
    stack = list(asts)
    while stack:
        t = stack.pop()
        if t.get_id() in seen:
            continue
        seen.add(t.get_id())
        if z3.is_app(t):
            d = t.decl()
            if d.kind() == z3.Z3_OP_UNINTERPRETED:
                out[d.name()] = d
        if z3.is_quantifier(t):
            stack.append(t.body())
        else:
            stack.extend(t.children())
    return out


def _val(v):
    if z3.is_int_value(v):
        return v.as_long()
    if z3.is_rational_value(v):
        fr = v.as_fraction()
        return float(fr)
    if z3.is_true(v):
        return True
    if z3.is_false(v):
        return False
    if z3.is_algebraic_value(v):
        return float(v.approx(12).as_fraction())
    return str(v)


def _extract_model(m, asts, observables, ctx):
    decls = _decls_of(asts)
    out = {}
    for ob in observables:
        try:
            if ob['kind'] == 'scalar':
                d = decls.get(ob['name'])
                if d is None:
                    out[ob['name']] = ob.get('default', 0)
                else:
                    out[ob['name']] = _val(m.eval(d(), model_completion=True))
            elif ob['kind'] == 'array':
                shape = []
                for s in ob['shape']:
                    if isinstance(s, int):
                        shape.append(s)
                    else:
                        d = decls.get(s)
                        shape.append(_val(m.eval(d(), model_completion=True)) if d is not None else ob.get('default_len', 1))
                d = decls.get(ob['name'])
                import itertools
                if any((not isinstance(s, int)) or s < 0 or s > 64 for s in shape):
                    out[ob['name']] = {'shape': shape, 'too_large': True}
                    continue
                vals = []
                for ix in itertools.product(*[range(s) for s in shape]):
                    if d is None:
                        vals.append(ob.get('default', 0))
                    elif d.arity() == 0:   # array-sorted constant
                        e = d()
                        for i in ix:
                            e = e[z3.IntVal(i, ctx)]
                        vals.append(_val(m.eval(e, model_completion=True)))
                    else:
                        vals.append(_val(m.eval(d(*[z3.IntVal(i, ctx) for i in ix]), model_completion=True)))
                out[ob['name']] = {'shape': shape, 'flat': vals}
        except Exception as ex:   # model extraction is best effort
            out[ob.get('name', '?')] = 'extraction-failed: %s' % ex
    return out


def _run_cli(cmd, text, tlimit):
    with tempfile.NamedTemporaryFile('w', suffix='.smt2', delete=False, dir=os.environ.get('TMPDIR', '/tmp')) as fh:
        fh.write(text)
        name = fh.name
    try:
        p = subprocess.run(cmd + [name], capture_output=True, text=True, timeout=tlimit + 5)
        out = (p.stdout or '').strip().split('\n')[0].strip()
        return out if out in ('sat', 'unsat', 'unknown') else 'unknown'
    except subprocess.TimeoutExpired:
        return 'timeout'
    finally:
        try:
            os.unlink(name)
        except OSError:
            pass


def solve_one(job):
    uid, smt2, observables, tlimit, portfolio = job
    t0 = time.time()
    ctx = z3.Context()
    res = {'uid': uid, 'status': 'unknown', 'backend': 'z3-5.1', 'reason': '', 'model': None, 'tries': []}
    def z3py(limit, tag, seed=None):
        t1 = time.time()
        try:
            asts = z3.parse_smt2_string(smt2, ctx=ctx)
            s = z3.Solver(ctx=ctx)
            s.set('timeout', int(limit * 1000))
            if seed is not None:
                s.set('random_seed', seed)
            s.add(asts)
            r = s.check()
            st = str(r)
            res['tries'].append((tag, st, round(time.time() - t1, 3)))
            if st == 'unknown':
                res['reason'] = s.reason_unknown()
            if st == 'sat':
                res['model'] = _extract_model(s.model(), list(asts), observables, ctx)
            return st
        except z3.Z3Exception as ex:
            res['reason'] = 'z3 exception: %s' % ex
            return 'unknown'
    # portfolio: z3 5.1 (short) -> z3 4.8 -> cvc5 -> z3 5.1 (full budget, other seed)
    first = tlimit if not portfolio else max(3.0, tlimit / 4.0)
    res['status'] = z3py(first, 'z3-5.1')
    if res['status'] == 'unknown' and portfolio:
        t1 = time.time()
        r3 = _run_cli(['/usr/bin/z3', '-T:%d' % int(tlimit), 'smt.random_seed=7'], smt2, tlimit)
        res['tries'].append(('z3-4.8.12', r3, round(time.time() - t1, 3)))
        if r3 == 'unsat':
            res['status'], res['backend'] = 'unsat', 'z3-4.8.12'
        else:
            text = '(set-logic ALL)\n' + smt2
            t1 = time.time()
            r2 = _run_cli(['/usr/bin/cvc5', '--tlimit=%d' % int(tlimit * 1000), '--enum-inst'], text, tlimit)
            res['tries'].append(('cvc5-1.0.3', r2, round(time.time() - t1, 3)))
            if r2 == 'unsat':
                res['status'], res['backend'] = 'unsat', 'cvc5-1.0.3'
            else:
                st = z3py(tlimit, 'z3-5.1(seed 11)', seed=11)
                if st in ('sat', 'unsat'):
                    res['status'] = st
                elif r3 == 'sat':
                    res['status'], res['backend'] = 'sat', 'z3-4.8.12'
    res['time'] = round(time.time() - t0, 3)
    return res


def discharge(results, tlimit=30, procs=None, portfolio=True):
    """results: list of UnitResult. Returns dict uid -> solver result; annotates obligations with .uid"""
    jobs = []
    trivial = {}
    counts = {}
    for ur in results:
        for o in ur.obligations:
            base = '%s::%s' % (ur.unit.name, o.name)
            n = counts.get(base, 0)
            counts[base] = n + 1
            o.uid = '%s#%d' % (base, n)
            o.unit = ur.unit.name
            if z3.is_true(o.goal) and not o.hyps:
                trivial[o.uid] = {'uid': o.uid, 'status': 'unsat', 'backend': 'simplifier', 'time': 0.0, 'tries': [], 'model': None, 'reason': ''}
                continue
            jobs.append((o.uid, smt2_of(o.hyps, o.goal), ur.unit.observables, tlimit, portfolio))
    out = dict(trivial)
    if jobs:
        procs = procs or min(16, os.cpu_count() or 4)
        with mp.get_context('fork').Pool(procs) as pool:
            for r in pool.imap_unordered(solve_one, jobs, chunksize=1):
                out[r['uid']] = r
    return out


def canary_check(results, tlimit=5):
    """Vacuity guard: every explored path condition must be satisfiable-or-unknown (never unsat)."""
    jobs = []
    for ur in results:
        for n, (pc, ended, prefix) in enumerate(ur.canary):
            if pc:
                jobs.append(('%s::canary#%d' % (ur.unit.name, n), smt2_of(pc, z3.BoolVal(False)), [], tlimit, False))
    bad = []
    if jobs:
        with mp.get_context('fork').Pool(min(16, os.cpu_count() or 4)) as pool:
            for r in pool.imap_unordered(solve_one, jobs, chunksize=4):
                if r['status'] == 'unsat':
                    bad.append(r['uid'])
    return len(jobs), bad
