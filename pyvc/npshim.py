"""NumPy shim: every function here is an ASSUMED contract of the real NumPy function of the same name,
stated over the symbolic proxies of core.py.  They are cross-checked against the real library on
enumerated small inputs by pyvc/libcheck.py on every run (not proved).
"""
import math
import z3
from .core import _pat_ok_core
from .core import (I, R, B, C, Ctx, SArr, SInt, SReal, SBool, SNan, Unsupported, Obligation, lift, wrap, concrete,
                   to_real, coerce2, ZERO, SORT, kind_of_sort, _eq, _asb, SpecMode, upow, _buf_ids, _c_or_s, _tobool)

newaxis = None
nan = float('nan')
inf = float('inf')
PI = z3.Real('pi_const')     # 3.14159 < pi < 3.1416 assumed by harnesses that use it
pi = SReal(PI)
bool_ = bool
int64 = int
float64 = float
ndarray = SArr


def pi_axioms():
    return [PI > z3.RealVal('3.14159'), PI < z3.RealVal('3.1416')]


def deg2rad(x):
    """ASSUMED numpy contract: deg2rad(x) = x * pi / 180 (pi the same symbolic constant as np.pi)"""
    return x * (pi / 180)


def rad2deg(x):
    return x * (180 / pi)


class _Rand:
    """np.random: every draw is recorded as an effect and returns fresh values from the ghost stream."""

    def randn(self, *shape):
        return _draw('randn', shape)

    def random_sample(self, shape):
        return _draw('random_sample', shape)

    def seed(self, *a):
        C().effects.append(('rng-seed', a))


def _draw(kindname, shape):
    c = C()
    h = c.ghost.get('rng_hook')
    if h is not None:
        return h(kindname, shape)
    c.effects.append(('rng-draw', kindname))
    f = c.fresh_fun('noise', *([I] * len(shape) + [R]))
    return SArr(tuple(shape), lambda *ix: f(*ix), 'f')


random = _Rand()


def _arr(a):
    if isinstance(a, SArr):
        return a
    if isinstance(a, (list, tuple)):
        return array(a)
    raise Unsupported('expected array, got %r' % type(a))


def _qv(n=1):
    return [z3.Int('i%d' % next(_buf_ids)) for _ in range(n)]


# ---------------------------------------------------------------------------- creation

def _shape_tuple(shape):
    if isinstance(shape, (tuple, list)):
        return tuple(lift(s) for s in shape)
    return (lift(shape),)


def _kind_from_dtype(dtype, default='f'):
    if dtype is None:
        return default
    from .core import kind_of_dtype
    k = kind_of_dtype(dtype)
    if k is None:
        raise Unsupported('dtype %r' % (dtype,))
    return k


def zeros(shape, dtype=None):
    k = _kind_from_dtype(dtype)
    z = ZERO[k]
    return SArr(_shape_tuple(shape), lambda *ix: z, k)


def ones(shape, dtype=None):
    k = _kind_from_dtype(dtype)
    o = {'i': z3.IntVal(1), 'f': z3.RealVal(1), 'b': z3.BoolVal(True)}[k]
    return SArr(_shape_tuple(shape), lambda *ix: o, k)


def empty(shape, dtype=None):
    k = _kind_from_dtype(dtype)
    f = C().fresh_fun('empty', *([I] * len(_shape_tuple(shape)) + [SORT[k]]))
    return SArr(_shape_tuple(shape), lambda *ix: f(*ix), k)


def zeros_like(a, dtype=None):
    if not isinstance(a, SArr):
        a = array(a)
    k = _kind_from_dtype(dtype, a.kind)
    z = ZERO[k]
    return SArr(a.shape_e, lambda *ix: z, k)


def ones_like(a, dtype=None):
    if isinstance(a, tuple):     # np.ones_like(xx.shape[1:])
        return tuple(1 for _ in a)
    k = _kind_from_dtype(dtype, a.kind)
    o = {'i': z3.IntVal(1), 'f': z3.RealVal(1), 'b': z3.BoolVal(True)}[k]
    return SArr(a.shape_e, lambda *ix: o, k)


def arange(*a):
    if len(a) == 1:
        lo, hi = z3.IntVal(0), lift(a[0])
    elif len(a) == 2:
        lo, hi = lift(a[0]), lift(a[1])
    else:
        # np.arange(lo, hi, step) with three CONCRETE integers: lo, lo+step, ... (ASSUMED numpy contract, cross-checked: length ceil((hi-lo)/step))
        cl, ch, cs = (concrete(lift(v)) for v in a[:3])
        if len(a) != 3 or None in (cl, ch, cs) or cs == 0 or any(lift(v).sort() != I for v in a[:3]):
            raise Unsupported('arange with step')
        cn = max(0, -((cl - ch) // cs))
        r = SArr((z3.IntVal(cn),), lambda i, cl=cl, cs=cs: z3.IntVal(cl) + z3.IntVal(cs) * i, 'i', incr=cs > 0)
        return r
    if lo.sort() != I or hi.sort() != I:
        # np.arange(lo, hi) over reals, unit step: lo, lo+1, ... below hi   (ASSUMED: length ceil(hi - lo))
        lo_, hi_ = to_real(lo), to_real(hi)
        if not Ctx.spec:
            C().oblige('arange-nonnegative-length', hi_ >= lo_, 'safety')
        from .core import _ceil_int
        n = _ceil_int(hi_ - lo_)
        r = SArr((n,), lambda i: lo_ + z3.ToReal(i), 'f')
        r.affine = lo_
        return r
    n = z3.simplify(z3.If(hi >= lo, hi - lo, 0)) if concrete(lo) != 0 else z3.simplify(z3.If(hi >= 0, hi, 0))
    c = concrete(hi - lo)
    if c is not None:
        n = z3.IntVal(max(c, 0))
    elif not Ctx.spec:
        # the engine keeps the simple form hi-lo and records the side condition
        C().oblige('arange-nonnegative-length', hi >= lo, 'safety')
        n = z3.simplify(hi - lo)
    r = SArr((n,), (lambda i: i) if concrete(lo) == 0 else (lambda i: i + lo), 'i', incr=True)
    r.member = lambda v: z3.And(lo <= v, v < hi)
    r.affine = lo
    r.nonneg = concrete(lo) is not None and concrete(lo) >= 0
    return r


def array(x, dtype=None):
    from .core import SymList
    if isinstance(x, SymList):
        with SpecMode():
            probe = x.at(SInt(z3.Int('probe')))
        if isinstance(probe, SArr):
            inner = probe.shape_e
            k = probe.kind
            def elem(j, *ix):
                with SpecMode():
                    return x.at(SInt(j)).elem(*ix)
            return SArr((x.n,) + tuple(inner), elem, k)
        def elem1(j):
            with SpecMode():
                return lift(x.at(SInt(j)))
        pe = lift(probe)
        return SArr((x.n,), elem1, kind_of_sort(pe.sort()))
    if isinstance(x, SArr):
        return x.copy() if dtype is None else x.astype(dtype)
    if isinstance(x, (list, tuple)):
        if len(x) == 0:
            return SArr((0,), lambda i: z3.RealVal(0), 'f')
        if all(isinstance(v, SArr) for v in x):
            return stack(list(x))
        if any(isinstance(v, (list, tuple, SArr)) for v in x):
            return stack([array(v) for v in x])
        vals = [lift(v) for v in x]
        k = 'f' if any(v.sort() == R for v in vals) else 'i' if any(v.sort() == I for v in vals) else 'b'
        if dtype is not None:
            k = _kind_from_dtype(dtype)
        vals = [_conv(v, k) for v in vals]

        def elem(i, vals=vals):
            ci = concrete(i)
            if ci is not None and 0 <= ci < len(vals):
                return vals[ci]
            e = vals[-1]
            for j in range(len(vals) - 2, -1, -1):
                e = z3.If(i == j, vals[j], e)
            return e
        return SArr((len(vals),), elem, k)
    if isinstance(x, (SInt, SReal, SBool, int, float, bool)):
        return x
    raise Unsupported('np.array(%r)' % type(x))


def asarray(x, dtype=None):
    """np.asarray / np.asanyarray: NO copy when the argument already is an array of the requested type (the result aliases the
    argument: a later in-place write reaches the caller's buffer); otherwise as np.array"""
    if isinstance(x, SArr) and (dtype is None or _kind_from_dtype(dtype, x.kind) == x.kind):
        return x
    return array(x, dtype=dtype)


asanyarray = asarray


def _conv(e, k):
    if k == 'f':
        return to_real(e) if e.sort() != B else z3.If(e, z3.RealVal(1), z3.RealVal(0))
    if k == 'i':
        if e.sort() == B:
            return z3.If(e, z3.IntVal(1), z3.IntVal(0))
        if e.sort() == R:
            raise Unsupported('real to int conversion in array()')
        return e
    return _asb(e)


def stack(arrs):
    """np.array([a0, a1, ...]) of equal-shape arrays: new leading axis (concrete length)."""
    k = 'f' if any(a.kind == 'f' for a in arrs) else 'i' if any(a.kind == 'i' for a in arrs) else 'b'
    sh = arrs[0].shape_e
    for a in arrs[1:]:
        for x, y in zip(sh, a.shape_e):
            if not _eq(x, y) and not Ctx.spec:
                C().oblige('stack-shapes-agree', x == y, 'safety')

    def elem(j, *ix):
        cj = concrete(j)
        if cj is not None and 0 <= cj < len(arrs):
            return _conv(arrs[cj].elem(*ix), k)
        e = _conv(arrs[-1].elem(*ix), k)
        for q in range(len(arrs) - 2, -1, -1):
            e = z3.If(j == q, _conv(arrs[q].elem(*ix), k), e)
        return e
    return SArr((len(arrs),) + tuple(sh), elem, k)


def linspace(lo, hi, num):
    n = lift(num)
    lo_, hi_ = to_real(lift(lo)), to_real(lift(hi))
    if not Ctx.spec:
        C().oblige('linspace-num>=2', n >= 2, 'safety')
    return SArr((n,), lambda i: lo_ + (hi_ - lo_) * z3.ToReal(i) / z3.ToReal(n - 1), 'f')


# ---------------------------------------------------------------------------- element-wise

def _unary(a, f, kind=None, keepnan=True):
    if isinstance(a, SArr):
        r = SArr(a.shape_e, lambda *ix: f(a.elem(*ix)), kind or a.kind, nan=a.nan if keepnan else None)
        r.off = a.off
        return r
    if isinstance(a, (list, tuple)):
        return _unary(array(a), f, kind, keepnan)
    return wrap(f(lift(a)))


def abs_(a):
    return _unary(a, lambda v: z3.If(v >= 0, v, -v))


absolute = abs_


def sign(a):
    def f(v):
        one, zero = (z3.IntVal(1), z3.IntVal(0)) if v.sort() == I else (z3.RealVal(1), z3.RealVal(0))
        return z3.If(v > 0, one, z3.If(v < 0, -one, zero))
    return _unary(a, f)


USQRT = z3.Function('usqrt', R, R)
UCOS = z3.Function('ucos', R, R)
USIN = z3.Function('usin', R, R)
ULOG = z3.Function('ulog', R, R)
ULOG10 = z3.Function('ulog10', R, R)
UEXP = z3.Function('uexp', R, R)


def sqrt(a):
    return _unary(a, lambda v: USQRT(to_real(v)), 'f')


def cos(a):
    return _unary(a, lambda v: UCOS(to_real(v)), 'f')


def sin(a):
    return _unary(a, lambda v: USIN(to_real(v)), 'f')


def log(a):
    return _unary(a, lambda v: ULOG(to_real(v)), 'f')


def exp(a):
    return _unary(a, lambda v: UEXP(to_real(v)), 'f')


ULOG2 = z3.Function('ulog2', R, R)


def log2(a):
    return _unary(a, lambda v: ULOG2(to_real(v)), 'f')


def log10(a, where=True):
    return _unary(a, lambda v: ULOG10(to_real(v)), 'f')


def power(a, p):
    return a ** p


def isnan(a):
    if isinstance(a, SArr):
        if a.nan is None:
            return SArr(a.shape_e, lambda *ix: z3.BoolVal(False), 'b')
        return SArr(a.shape_e, lambda *ix: a.nan(*ix), 'b')
    if isinstance(a, SNan):
        return SBool(a.isnan)
    return False


def isclose(a, b, rtol=1e-05, atol=1e-08, equal_nan=False):
    """ASSUMED np.isclose on finite values: |a - b| <= atol + rtol * |b|  (NaN-carrying operands are outside the engine's reach)"""
    for v in (a, b):
        if isinstance(v, SArr) and v.nan is not None:
            raise Unsupported('isclose on NaN-carrying array')
    if not any(isinstance(v, (SArr, SInt, SReal)) for v in (a, b)):
        import numpy as _np
        return _np.isclose(a, b, rtol=rtol, atol=atol, equal_nan=equal_nan)
    return abs_(a - b) <= (atol + rtol * abs_(b))


def allclose(a, b, rtol=1e-05, atol=1e-08, equal_nan=False):
    r = isclose(a, b, rtol=rtol, atol=atol, equal_nan=equal_nan)
    return all_(r) if isinstance(r, SArr) else r


def logical_and(a, b):
    return a & b            # (SArr.__and__ records the index interval when both operands are half-lines of one np.arange)


def logical_or(a, b):
    return a | b


def greater(a, b): return a > b
def greater_equal(a, b): return a >= b
def less(a, b): return a < b
def less_equal(a, b): return a <= b
def equal(a, b): return a == b
def not_equal(a, b): return a != b


def clip(a, lo, hi):
    lo_, hi_ = lift(lo), lift(hi)

    def f(v):
        x, l = coerce2(v, lo_)
        x, h = coerce2(x, hi_)
        return z3.If(x < l, l, z3.If(x > h, h, x))
    return _unary(a, f)


def floor(a):
    return _unary(a, lambda v: z3.ToReal(z3.ToInt(to_real(v))), 'f')


def ceil(a):
    def f(v):
        v = to_real(v)
        t = z3.ToInt(v)
        return z3.ToReal(z3.If(z3.ToReal(t) == v, t, t + 1))
    return _unary(a, f, 'f')


def round_(a, decimals=0):
    return a     # only used inside log messages


# ---------------------------------------------------------------------------- structure

def diff(a, axis=-1):
    a = _arr(a)
    if a.ndim == 1:
        n = a.shape_e[0]
        cn = concrete(n)
        m = z3.IntVal(max(cn - 1, 0)) if cn is not None else z3.If(n >= 1, n - 1, 0)
        r = SArr((m,), lambda i: a.elem(i + 1) - a.elem(i), a.kind)
        return r
    if a.ndim >= 2 and axis == 0:
        n = a.shape_e[0]
        m = z3.If(n >= 1, n - 1, 0)
        return SArr((m,) + a.shape_e[1:], lambda i, *r: a.elem(i + 1, *r) - a.elem(i, *r), a.kind)
    raise Unsupported('diff axis')


def where(b, *rest):
    """ASSUMED: np.where(mask)[0] is the strictly increasing list of exactly the True positions."""
    if rest:
        x, y = rest
        return b._ew(x, lambda c_, v: v, None) if False else _where3(b, x, y)
    b = _arr(b)
    if b.kind != 'b':
        b = SArr(b.shape_e, (lambda be: lambda *ix: be(*ix) != 0)(b.elem), 'b')
    if b.ndim != 1:
        raise Unsupported('np.where on n-d mask')
    c = C()
    n = b.shape_e[0]
    # np.where is a function of its argument: the same mask (structurally) gives the same index list
    ci = z3.Int('where_canon')
    key = (z3.simplify(b.elem(ci)).sexpr(), n.sexpr())
    pw = _param_where(c, b, n, ci)
    if pw is not None:
        return (pw,)
    iv = getattr(b, 'interval', None)
    if iv is not None:
        # the mask is (provably) an index interval: ASSUMED numpy contract  np.where(lo <= i < hi)[0] == arange(lo, hi)
        lo_i, hi_i = iv
        if not Ctx.spec:
            q = _qv(1)[0]
            c.obl.append(Obligation('interval-mask-is-exactly-the-interval', list(c.pc) + [z3.And(0 <= q, q < n)], b.elem(q) == z3.And(lo_i <= q, q < hi_i), 'safety', list(c.prefix[:c.pos])))
        lo_n = c.fresh('ivlo', I)
        ln = c.fresh('ivlen', I)
        c.assume(z3.And(lo_n == lo_i, ln == z3.If(hi_i > lo_i, hi_i - lo_i, 0)))
        r = SArr((ln,), lambda jx: lo_n + jx, 'i', incr=True)
        r.member = lambda v: z3.And(lo_i <= v, v < hi_i)
        r.where_of = b
        r.pos = lambda i_: i_ - lo_n
        r.nonneg = True
        return (r,)
    cache = c.ghost.setdefault('where_cache', {})
    if key not in cache:
        # the textual key is not canonical (argument order of and/or): fall back to a semantic comparison of the mask terms
        e_new = b.elem(ci)
        for k2, (e_old, n_old, val) in c.ghost.setdefault('where_terms', {}).items():
            if _eq(n_old, n):
                sl = z3.Solver()
                sl.set('timeout', 300)
                sl.add(e_old != e_new)
                if sl.check() == z3.unsat:
                    cache[key] = val
                    break
    if key not in cache and Ctx.closure_depth:
        raise Unsupported('np.where on a new mask inside a symbolic comprehension (its result must be a function of the index)')
    if key in cache:
        K, W, P = cache[key]
        r = SArr((K,), lambda jx: W(jx), 'i', incr=True)
        r.member = lambda v: z3.And(0 <= v, v < n, b.elem(v))
        r.where_of = b
        r.pos = P
        r.nonneg = True
        return (r,)
    K = c.fresh('wlen', I)
    W = c.fresh_fun('W', I, I)
    j, j2, i = _qv(3)
    c.assume(z3.And(0 <= K, K <= z3.If(n >= 0, n, 0)))
    c.assume(z3.ForAll([j], z3.Implies(z3.And(0 <= j, j < K), z3.And(0 <= W(j), W(j) < n, b.elem(W(j)))), patterns=[W(j)]))
    c.assume(z3.ForAll([j, j2], z3.Implies(z3.And(0 <= j, j < j2, j2 < K), W(j) < W(j2)), patterns=[z3.MultiPattern(W(j), W(j2))]))
    # completeness with an explicit witness function (skolemised: no nested existential)
    P = c.fresh_fun('Wpos', I, I)
    c.assume(z3.ForAll([i], z3.Implies(z3.And(0 <= i, i < n, b.elem(i)), z3.And(0 <= P(i), P(i) < K, W(P(i)) == i)), patterns=[P(i)]))
    cache[key] = (K, W, P)
    c.ghost.setdefault('where_terms', {})[key] = (b.elem(ci), n, (K, W, P))
    r = SArr((K,), lambda jx: W(jx), 'i', incr=True)
    r.member = lambda v: z3.And(0 <= v, v < n, b.elem(v))
    r.where_of = b
    r.pos = P
    r.nonneg = True
    return (r,)


def flatnonzero(a):
    """np.flatnonzero(a) == np.where(a.ravel())[0]; for a 1-d array np.where(a)[0]"""
    a = _arr(a)
    if a.ndim != 1:
        raise Unsupported('flatnonzero of an n-d array')
    return where(a)[0]


def nonzero(a):
    """np.nonzero(a) == np.where(a) (one argument)"""
    return where(_arr(a))


def swapaxes(a, axis1, axis2):
    a = _arr(a)
    if a.ndim == 2 and {axis1 % 2, axis2 % 2} == {0, 1}:
        return a.T
    if axis1 == axis2:
        return a
    raise Unsupported('swapaxes pattern')


def full_like(a, fill_value, dtype=None):
    a = _arr(a)
    k = _kind_from_dtype(dtype, a.kind)
    if isinstance(fill_value, float) and fill_value != fill_value:
        if k != 'f':
            raise Unsupported('NaN fill value for a non-float array')
        return SArr(a.shape_e, lambda *ix: z3.RealVal(0), 'f', nan=lambda *ix: z3.BoolVal(True))
    v = _conv(lift(fill_value), k)
    return SArr(a.shape_e, lambda *ix: v, k)


def register_param_where(c, V, n, name):
    """Declare np.where(V == key)[0] as a *function of key* for the input vector backed by the z3 function V (length n):
    KK(key) = number of hits, WW(key, q) = q-th hit, PP(key, i) = rank of hit i.  Same ASSUMED contract as where(), quantified over key."""
    KK = z3.Function('KK_' + name, I, I)
    WW = z3.Function('WW_' + name, I, I, I)
    PP = z3.Function('PP_' + name, I, I, I)
    k, j, j2, i = z3.Ints('pwk pwj pwj2 pwi')
    c.assume(z3.ForAll([k], z3.And(0 <= KK(k), KK(k) <= n), patterns=[KK(k)]))
    c.assume(z3.ForAll([k, j], z3.Implies(z3.And(0 <= j, j < KK(k)), z3.And(0 <= WW(k, j), WW(k, j) < n, V(WW(k, j)) == k)), patterns=[WW(k, j)]))
    c.assume(z3.ForAll([k, j, j2], z3.Implies(z3.And(0 <= j, j < j2, j2 < KK(k)), WW(k, j) < WW(k, j2)), patterns=[z3.MultiPattern(WW(k, j), WW(k, j2))]))
    c.assume(z3.ForAll([k, i], z3.Implies(z3.And(0 <= i, i < n, V(i) == k), z3.And(0 <= PP(k, i), PP(k, i) < KK(k), WW(k, PP(k, i)) == i)), patterns=[PP(k, i)]))
    c.ghost.setdefault('param_where', []).append((V, n, KK, WW, PP))
    return KK, WW, PP


def register_pred_where(c, pred, n, name):
    """Declare np.where(mask_key)[0] as a *function of key* for the family of masks  mask_key[i] = pred(i, key)  of length n:
    KK(key) = number of hits, WW(key, q) = q-th hit, PP(key, i) = rank of hit i.  Same ASSUMED contract as where() (np.where is a
    function of its argument), quantified over key."""
    KK = z3.Function('KK_' + name, I, I)
    WW = z3.Function('WW_' + name, I, I, I)
    PP = z3.Function('PP_' + name, I, I, I)
    k, j, j2, i = z3.Ints('qwk qwj qwj2 qwi')
    nn = z3.If(n >= 0, n, 0)
    c.assume(z3.ForAll([k], z3.And(0 <= KK(k), KK(k) <= nn), patterns=[KK(k)]))
    c.assume(z3.ForAll([k, j], z3.Implies(z3.And(0 <= j, j < KK(k)), z3.And(0 <= WW(k, j), WW(k, j) < n, pred(WW(k, j), k))), patterns=[WW(k, j)]))
    c.assume(z3.ForAll([k, j, j2], z3.Implies(z3.And(0 <= j, j < j2, j2 < KK(k)), WW(k, j) < WW(k, j2)), patterns=[z3.MultiPattern(WW(k, j), WW(k, j2))]))
    c.assume(z3.ForAll([k, i], z3.Implies(z3.And(0 <= i, i < n, pred(i, k)), z3.And(0 <= PP(k, i), PP(k, i) < KK(k), WW(k, PP(k, i)) == i)), patterns=[PP(k, i)]))
    c.ghost.setdefault('pred_where', []).append((pred, n, KK, WW, PP))
    return KK, WW, PP


def _int_consts(e, out, seen):
    if e.get_id() in seen:
        return
    seen.add(e.get_id())
    if z3.is_const(e) and e.decl().kind() == z3.Z3_OP_UNINTERPRETED and e.sort() == I:
        out.append(e)
    for ch in e.children():
        _int_consts(ch, out, seen)


def _pred_where(c, b, n, ci):
    """the mask is (semantically) a member of a registered family: return the family's index list at that key"""
    regs = c.ghost.get('pred_where')
    if not regs:
        return None
    e = z3.simplify(b.elem(ci))
    cands = []
    _int_consts(e, cands, set())
    for pred, vn, KK, WW, PP in regs:
        if not _eq(vn, n):
            continue
        for key in cands:
            if z3.eq(key, ci):
                continue
            f = z3.simplify(pred(ci, key))
            same = z3.eq(f, e)
            if not same:
                sl = z3.Solver()
                sl.set('timeout', 300)
                sl.add(f != e)
                same = sl.check() == z3.unsat
            if same:
                res = SArr((KK(key),), lambda jx, key=key: WW(key, jx), 'i', incr=True)
                res.member = lambda v, key=key: z3.And(0 <= v, v < n, pred(v, key))
                res.where_of = b
                res.pos = lambda i_, key=key: PP(key, i_)
                res.nonneg = True
                return res
    return None


def _param_where(c, b, n, ci):
    pw = _pred_where(c, b, n, ci)
    if pw is not None:
        return pw
    regs = c.ghost.get('param_where')
    if not regs:
        return None
    e = z3.simplify(b.elem(ci))
    if not z3.is_eq(e):
        return None
    l, r = e.arg(0), e.arg(1)
    for V, vn, KK, WW, PP in regs:
        for x, key in ((l, r), (r, l)):
            if z3.is_app(x) and x.decl().eq(V) and x.num_args() == 1 and z3.eq(x.arg(0), ci) and _eq(vn, n) and 'where_canon' not in key.sexpr():
                res = SArr((KK(key),), lambda jx, key=key: WW(key, jx), 'i', incr=True)
                res.member = lambda v, key=key: z3.And(0 <= v, v < n, V(v) == key)
                res.where_of = b
                res.pos = lambda i_, key=key: PP(key, i_)
                res.nonneg = True
                return res
    return None


def _where3(cnd, x, y):
    cnd = _arr(cnd)
    xs = x if isinstance(x, SArr) else None
    ys = y if isinstance(y, SArr) else None

    def elem(*ix):
        a = xs.elem(*ix) if xs is not None else lift(x)
        b_ = ys.elem(*ix) if ys is not None else lift(y)
        a, b_ = coerce2(a, b_)
        return z3.If(cnd.elem(*ix), a, b_)
    k = 'f' if (xs is not None and xs.kind == 'f') or (ys is not None and ys.kind == 'f') or isinstance(x, float) or isinstance(y, float) else 'i'
    return SArr(cnd.shape_e, elem, k)


class _RClass:
    """np.r_[...] : concatenation of 1-d pieces and scalars along axis 0 (ASSUMED)."""

    def __getitem__(self, key):
        parts = key if isinstance(key, tuple) else (key,)
        segs = []
        kinds = []
        for p in parts:
            if isinstance(p, SArr):
                if p.ndim != 1:
                    return concatenate(parts, axis=0)
                segs.append((p.shape_e[0], p.elem))
                kinds.append(p.kind)
            else:
                pe = lift(p)
                segs.append((z3.IntVal(1), (lambda pe: lambda i: pe)(pe)))
                kinds.append(kind_of_sort(pe.sort()))
        k = 'f' if 'f' in kinds else 'i' if 'i' in kinds else 'b'
        total = z3.IntVal(0)
        chain = []
        for ln, f in segs:
            chain.append((total, ln, f))
            total = total + ln

        def elem(i):
            e = _conv(chain[-1][2](i - chain[-1][0]), k)
            for off_, ln, f in reversed(chain[:-1]):
                e = z3.If(i < off_ + ln, _conv(f(i - off_), k), e)
            return e
        return SArr((z3.simplify(total),), elem, k)


r_ = _RClass()


class _CClass:
    """np.c_[a, b, ...] : 1-d pieces become columns (ASSUMED)."""

    def __getitem__(self, key):
        parts = key if isinstance(key, tuple) else (key,)
        cols = []
        for p in parts:
            p = _arr(p)
            if p.ndim == 1:
                cols.append(p)
            else:
                raise Unsupported('np.c_ with 2-d pieces')
        n = cols[0].shape_e[0]
        k = 'f' if any(cc.kind == 'f' for cc in cols) else 'i' if any(cc.kind == 'i' for cc in cols) else 'b'

        def elem(i, j):
            cj = concrete(j)
            if cj is not None:
                return _conv(cols[cj].elem(i), k)
            e = _conv(cols[-1].elem(i), k)
            for q in range(len(cols) - 2, -1, -1):
                e = z3.If(j == q, _conv(cols[q].elem(i), k), e)
            return e
        return SArr((n, len(cols)), elem, k)


c_ = _CClass()


def concatenate(arrs, axis=0):
    arrs = [_arr(a) for a in arrs]
    nd = arrs[0].ndim
    if axis < 0:
        axis += nd
    k = 'f' if any(a.kind == 'f' for a in arrs) else 'i' if any(a.kind == 'i' for a in arrs) else 'b'
    offs = []
    total = z3.IntVal(0)
    for a in arrs:
        offs.append(total)
        total = total + a.shape_e[axis]
    if not Ctx.spec:
        for a in arrs[1:]:
            for d in range(nd):
                if d != axis and not _eq(a.shape_e[d], arrs[0].shape_e[d]):
                    C().oblige('concatenate-shapes-agree', a.shape_e[d] == arrs[0].shape_e[d], 'safety')

    def pick(get):
        def elem(*ix):
            i = ix[axis]

            def at(q):
                jx = list(ix)
                jx[axis] = z3.simplify(i - offs[q])
                return get(arrs[q], jx)
            e = at(len(arrs) - 1)
            for q in range(len(arrs) - 2, -1, -1):
                e = z3.If(i < offs[q] + arrs[q].shape_e[axis], at(q), e)
            return e
        return elem
    shape = list(arrs[0].shape_e)
    shape[axis] = z3.simplify(total)
    anynan = any(a.nan is not None for a in arrs)
    r = SArr(tuple(shape), pick(lambda a, jx: _conv(a.elem(*jx), k)), k,
             nan=pick(lambda a, jx: a.nan(*jx) if a.nan is not None else z3.BoolVal(False)) if anynan else None)
    r.concat_of = (arrs, axis)
    return r


def _hstack_var(arrs, kind):
    """ASSUMED np.hstack of a list (symbolic length n) of 1-d pieces of symbolic lengths LEN(j): the pieces laid end to end.
    OFF(0) = 0, OFF(j+1) = OFF(j) + LEN(j), total length OFF(n); entry OFF(j) + q is entry q of piece j; every entry p belongs to
    exactly one piece PJ(p) at position PQ(p) = p - OFF(PJ(p))."""
    c = C()
    n = arrs.n
    R_ = c.fresh_fun('hstacked', I, SORT[kind])
    OFF = c.fresh_fun('hsoff', I, I)
    PJ = c.fresh_fun('hspiece', I, I)
    j, q, p = _qv(3)

    def piece(je):
        with SpecMode():
            return arrs.at(SInt(je))
    pj = piece(j)
    ln = pj.shape_e[0]
    tot = OFF(n)
    c.assume(z3.And(OFF(0) == 0, tot >= 0), feas=False)
    c.assume(z3.ForAll([j], z3.Implies(z3.And(0 <= j, j < n), z3.And(ln >= 0, OFF(j + 1) == OFF(j) + ln)), patterns=[OFF(j + 1)]), feas=False)
    el = pj.elem(q)
    at = R_(OFF(j) + q)
    c.assume(z3.ForAll([j, q], z3.Implies(z3.And(0 <= j, j < n, 0 <= q, q < ln), z3.And(0 <= OFF(j) + q, OFF(j) + q < tot, at == el, PJ(OFF(j) + q) == j)),
                       patterns=[el] if _pat_ok_core(el, [j, q]) else []), feas=False)
    pp = piece(PJ(p))
    c.assume(z3.ForAll([p], z3.Implies(z3.And(0 <= p, p < tot), z3.And(0 <= PJ(p), PJ(p) < n, OFF(PJ(p)) <= p, p - OFF(PJ(p)) < pp.shape_e[0],
                                                                       R_(p) == pp.elem(p - OFF(PJ(p))))), patterns=[R_(p)]), feas=False)
    r = SArr((tot,), lambda i_: R_(i_), kind)
    r.hstack_of = (arrs, OFF, PJ)
    return r


def hstack(arrs):
    from .core import SymList
    if isinstance(arrs, SymList):
        # np.hstack over a comprehension of symbolic length: supported when every piece is a 1-d array of exactly one element
        with SpecMode():
            probe = arrs.at(SInt(z3.Int('hs_probe')))
        if isinstance(probe, SArr) and probe.ndim == 1 and probe.nan is None and concrete(probe.shape_e[0]) != 1 and not Ctx.spec and not Ctx.closure_depth:
            return _hstack_var(arrs, probe.kind)
        if not (isinstance(probe, SArr) and probe.ndim == 1 and concrete(probe.shape_e[0]) == 1):
            raise Unsupported('hstack over a symbolic-length list of variable-length pieces')
        def el(j):
            # (the safety obligations of the element expression were generated once, for an arbitrary index in range, when the comprehension was built)
            with SpecMode():
                return arrs.at(SInt(j) if not isinstance(j, SInt) else j).elem(z3.IntVal(0))
        return SArr((arrs.n,), el, probe.kind)
    arrs = list(arrs)
    if all(isinstance(a, SArr) and a.ndim == 1 for a in arrs):
        return concatenate(arrs, axis=0)
    raise Unsupported('hstack')


def squeeze(a, axis=None):
    if isinstance(a, SArr) and axis is not None:
        # np.squeeze(a, axis=k): axis k must have extent 1 (numpy raises otherwise) and is dropped; every other axis is kept
        ax = concrete(axis)
        if ax is None or isinstance(axis, (tuple, list)):
            raise Unsupported('squeeze with a symbolic / multiple axis')
        if ax < 0:
            ax += a.ndim
        if not (0 <= ax < a.ndim):
            raise Unsupported('squeeze axis out of range')
        if not Ctx.spec and concrete(a.shape_e[ax]) != 1:
            C().oblige('squeeze-axis-has-extent-1', a.shape_e[ax] == 1, 'safety')

        def six1(ix):
            ix = list(ix)
            ix.insert(ax, z3.IntVal(0))
            return ix
        return SArr(tuple(s_ for d, s_ in enumerate(a.shape_e) if d != ax), lambda *ix: a.elem(*six1(ix)), a.kind,
                    nan=None if a.nan is None else (lambda *ix: a.nan(*six1(ix))), buf=a.buf, view_of=a)
    if isinstance(a, SArr):
        keep = [d for d, s in enumerate(a.shape_e) if concrete(s) != 1 and not (concrete(s) is None and Ctx.cur is not None and not Ctx.spec and C().entails(s == 1))]
        for d in keep:
            if concrete(a.shape_e[d]) is None and not Ctx.spec:
                # numpy squeezes every extent equal to one: a symbolic extent that happens to be 1 would be dropped
                C().oblige('squeeze-keeps-nonunit-extent', a.shape_e[d] != 1, 'safety')

        def six(ix):
            out = [z3.IntVal(0)] * a.ndim
            for q, d in enumerate(keep):
                out[d] = ix[q]
            return out
        return SArr(tuple(a.shape_e[d] for d in keep), lambda *ix: a.elem(*six(ix)), a.kind,
                    nan=None if a.nan is None else (lambda *ix: a.nan(*six(ix))), buf=a.buf, view_of=a)
    raise Unsupported('squeeze of non-array')


def reshape(a, shape):
    """C-order reshape (ASSUMED).  Supported: flatten to 1-d (-1); 1-d to n-d; n-d to n-d via flat index."""
    if shape == -1 or shape == (-1,):
        if a.ndim == 1:
            return a
        total = z3.IntVal(1)
        for s in a.shape_e:
            total = total * s

        def unflat(p):
            ix = []
            for d in range(a.ndim - 1, -1, -1):
                if d == 0:
                    ix.insert(0, p)
                else:
                    ix.insert(0, p % a.shape_e[d])
                    p = p / a.shape_e[d]
            return ix
        return SArr((z3.simplify(total),), lambda p: a.elem(*unflat(p)), a.kind,
                    nan=None if a.nan is None else (lambda p: a.nan(*unflat(p))), buf=a.buf, view_of=a)
    shape = tuple(z3.simplify(lift(s)) for s in shape)
    if a.ndim == 2 and len(shape) == 3 and _eq(shape[0], a.shape_e[0]):
        # (T, A*B) -> (T, A, B): C order keeps the leading axis, element (t,x,y) comes from (t, x*B + y)   (ASSUMED)
        if not Ctx.spec:
            C().oblige('reshape-size-agrees', shape[1] * shape[2] == a.shape_e[1], 'safety')
        Bn = shape[2]
        return SArr(shape, lambda t, x, y: a.elem(t, x * Bn + y), a.kind, buf=a.buf, view_of=a)
    if a.ndim == 2 and len(shape) == 2 and concrete(a.shape_e[0]) == 1:
        # (1, A*B) -> (A, B)
        if not Ctx.spec:
            C().oblige('reshape-size-agrees', shape[0] * shape[1] == a.shape_e[1], 'safety')
        Bn = shape[1]
        return SArr(shape, lambda x, y: a.elem(z3.IntVal(0), x * Bn + y), a.kind, buf=a.buf, view_of=a)
    flat = reshape(a, -1)
    if not Ctx.spec:
        tot = z3.IntVal(1)
        for s in shape:
            tot = tot * s
        C().oblige('reshape-size-agrees', tot == flat.shape_e[0], 'safety')

    def fl(ix):
        p = ix[0]
        for d in range(1, len(shape)):
            p = p * shape[d] + ix[d]
        return p
    return SArr(shape, lambda *ix: flat.elem(fl(ix)), a.kind,
                nan=None if flat.nan is None else (lambda *ix: flat.nan(fl(ix))), buf=a.buf, view_of=a)


def broadcast_to(a, shape):
    shape = tuple(lift(s) for s in shape)
    nd = len(shape)
    pad = nd - a.ndim
    m = []
    for d in range(nd):
        if d < pad:
            m.append(None)
        else:
            s = a.shape_e[d - pad]
            if _eq(s, shape[d]):
                m.append('id')
            elif concrete(s) == 1:
                m.append(0)
            else:
                if not Ctx.spec:
                    C().oblige('broadcast-shapes-agree', s == shape[d], 'safety')
                m.append('id')

    def six(ix):
        return [z3.IntVal(0) if mm == 0 else i for mm, i in zip(m, ix) if mm is not None]
    return SArr(shape, lambda *ix: a.elem(*six(ix)), a.kind, nan=None if a.nan is None else (lambda *ix: a.nan(*six(ix))), buf=a.buf, view_of=a)


def tile(a, reps):
    a = _arr(a)
    if a.ndim == 1 and isinstance(reps, tuple) and len(reps) == 2 and concrete(reps[1]) == 1:
        return SArr((lift(reps[0]), a.shape_e[0]), lambda i, j: a.elem(j), a.kind)
    raise Unsupported('tile pattern')


def repeat(a, n, axis=None):
    a = _arr(a)
    if a.ndim == 2 and axis == 1 and concrete(a.shape_e[1]) == 1:
        return SArr((a.shape_e[0], lift(n)), lambda i, j: a.elem(i, z3.IntVal(0)), a.kind)
    if axis == 0 and concrete(a.shape_e[0]) == 1:
        return SArr((lift(n),) + a.shape_e[1:], lambda i, *r: a.elem(z3.IntVal(0), *r), a.kind, nan=None if a.nan is None else (lambda i, *r: a.nan(z3.IntVal(0), *r)))
    raise Unsupported('repeat pattern')


def flipud(a):
    n = a.shape_e[0]
    return SArr(a.shape_e, lambda i, *r: a.elem(n - 1 - i, *r), a.kind, buf=a.buf, view_of=a)


# ---------------------------------------------------------------------------- reductions

def _based(a):
    """(bound vars, range formula, element term) quantifying in base coordinates for slice views"""
    ix = _qv(a.ndim)
    off = a.off or [z3.IntVal(0)] * a.ndim
    rng = z3.And(*[z3.And(o <= i, i < o + n) for i, n, o in zip(ix, a.shape_e, off)])
    el = a.elem(*[z3.simplify(i - o) for i, o in zip(ix, off)])
    return ix, rng, z3.simplify(el)


def _forall_elems(a, pred):
    if a.off is not None:
        ix, rng, el = _based(a)
        return z3.ForAll(ix, z3.Implies(rng, pred(el)))
    ix = _qv(a.ndim)
    rng = z3.And(*[z3.And(0 <= i, i < n) for i, n in zip(ix, a.shape_e)])
    # concrete small extents: expand
    cs = [concrete(s) for s in a.shape_e]
    if all(c is not None for c in cs) and math.prod(cs) <= 64:
        import itertools
        return z3.And(*[pred(a.elem(*[z3.IntVal(v) for v in p])) for p in itertools.product(*[range(c) for c in cs])]) if math.prod(cs) else z3.BoolVal(True)
    return z3.ForAll(ix, z3.Implies(rng, pred(a.elem(*ix))))


def _exists_elems(a, pred):
    if a.off is not None:
        ix, rng, el = _based(a)
        return z3.Exists(ix, z3.And(rng, pred(el)))
    ix = _qv(a.ndim)
    rng = z3.And(*[z3.And(0 <= i, i < n) for i, n in zip(ix, a.shape_e)])
    cs = [concrete(s) for s in a.shape_e]
    if all(c is not None for c in cs) and math.prod(cs) <= 64:
        import itertools
        return z3.Or(*[pred(a.elem(*[z3.IntVal(v) for v in p])) for p in itertools.product(*[range(c) for c in cs])]) if math.prod(cs) else z3.BoolVal(False)
    return z3.Exists(ix, z3.And(rng, pred(a.elem(*ix))))


def all_(a, axis=None):
    if isinstance(a, SArr):
        if axis is None:
            return SBool(_forall_elems(a, _asb))
        if a.ndim == 2 and axis == 1:
            cn = concrete(a.shape_e[1])
            if cn is not None:
                return SArr((a.shape_e[0],), lambda i: z3.And(*[_asb(a.elem(i, z3.IntVal(j))) for j in range(cn)]) if cn else z3.BoolVal(True), 'b')
            q = _qv(1)[0]
            return SArr((a.shape_e[0],), lambda i: z3.ForAll([q], z3.Implies(z3.And(0 <= q, q < a.shape_e[1]), _asb(a.elem(i, q)))), 'b')
        raise Unsupported('all axis')
    if isinstance(a, (list, tuple)):
        vals = [v for v in a]
        if any(isinstance(v, (SBool, SInt, SReal)) for v in vals):
            return SBool(z3.And(*[_tobool(v) for v in vals]))
        import builtins
        return builtins.all(vals)
    if isinstance(a, (SBool,)):
        return a
    if isinstance(a, bool):
        return a
    import builtins
    return builtins.all(a)


def any_(a, axis=None):
    if isinstance(a, SArr):
        if axis is None:
            return SBool(_exists_elems(a, _asb))
        if a.ndim == 2 and axis == 1:
            cn = concrete(a.shape_e[1])
            if cn is not None:
                return SArr((a.shape_e[0],), lambda i: z3.Or(*[_asb(a.elem(i, z3.IntVal(j))) for j in range(cn)]) if cn else z3.BoolVal(False), 'b')
        raise Unsupported('any axis')
    if isinstance(a, (list, tuple)):
        vals = [v for v in a]
        if any(isinstance(v, (SBool, SInt, SReal)) for v in vals):
            return SBool(z3.Or(*[_tobool(v) for v in vals]))
        import builtins
        return builtins.any(vals)
    if isinstance(a, SBool):
        return a
    if isinstance(a, bool):
        return a
    import builtins
    return builtins.any(a)




def alltrue(a):
    from .core import ModelledAttributeError
    import numpy as _np
    if hasattr(_np, 'alltrue'):
        return all_(a)
    raise ModelledAttributeError("module 'numpy' has no attribute 'alltrue' (removed in NumPy 2.0)")


# -- sums: a global spec function over reified vectors with its recursive definition as an axiom
AR = z3.ArraySort(I, R)
AI = z3.ArraySort(I, I)
SUMR = z3.Function('sumR', AR, I, R)     # sumR(a, k) = a[0] + ... + a[k-1]
SUMI = z3.Function('sumI', AI, I, I)


def sum_axioms():
    a = z3.Const('sa', AR)
    b = z3.Const('sb', AI)
    k = z3.Int('sk')
    return [z3.ForAll([a], SUMR(a, 0) == 0, patterns=[SUMR(a, 0)]),
            z3.ForAll([a, k], z3.Implies(k >= 0, SUMR(a, k + 1) == SUMR(a, k) + a[k]), patterns=[SUMR(a, k + 1)]),
            z3.ForAll([b], SUMI(b, 0) == 0, patterns=[SUMI(b, 0)]),
            z3.ForAll([b, k], z3.Implies(k >= 0, SUMI(b, k + 1) == SUMI(b, k) + b[k]), patterns=[SUMI(b, k + 1)])]


_reify_depth = 0


def reify1(f, kind):
    """z3 array (Lambda) of the 1-d closure f"""
    # deterministic bound-variable names (by nesting depth): alpha-equivalent vectors become identical terms
    global _reify_depth
    t = z3.Int('t_lam%d' % _reify_depth)
    _reify_depth += 1
    try:
        e = f(t)
    finally:
        _reify_depth -= 1
    if kind == 'b':
        e = z3.If(e, z3.IntVal(1), z3.IntVal(0))
    return z3.Lambda([t], e)


def _sum1(f, n, kind):
    """sum of f(0..n-1)"""
    cn = concrete(n)
    if cn is not None and cn <= 16:
        acc = None
        for q in range(cn):
            v = f(z3.IntVal(q))
            if kind == 'b':
                v = z3.If(v, z3.IntVal(1), z3.IntVal(0))
            acc = v if acc is None else acc + v
        return acc if acc is not None else (z3.RealVal(0) if kind == 'f' else z3.IntVal(0))
    C().ghost['uses_sum'] = True
    arr = reify1(f, kind)
    return (SUMR if kind == 'f' else SUMI)(arr, n)


def sum_(a, axis=None):
    if isinstance(a, (list, tuple)):
        a = array(a)
    if not isinstance(a, SArr):
        raise Unsupported('sum of %r' % type(a))
    if a.nan is not None:
        if a.ndim == 1 and axis in (None, 0, -1):
            # IEEE: the sum is NaN iff some term is NaN (value term: the sum of the stored values, meaningful only when not NaN)
            from .core import SNan
            q = _qv(1)[0]
            anyn = z3.Exists([q], z3.And(0 <= q, q < a.shape_e[0], a.nan(q)))
            plain = SArr(a.shape_e, a.elem, a.kind)
            for att in ('gather_of', 'off'):
                if getattr(a, att, None) is not None:
                    setattr(plain, att, getattr(a, att))
            return SNan(lift(sum_(plain, axis)), anyn)
        raise Unsupported('sum over possibly-NaN array')
    rk = 'f' if a.kind == 'f' else 'i'
    if axis is not None and axis < 0:
        axis += a.ndim
    if a.ndim == 1 and axis in (None, 0) and a.kind == 'b' and Ctx.cur is not None:
        # ASSUMED identity: the number of True entries of a mask is the length of np.where(mask)[0]
        # (used only where np.where of this mask is a registered function of a key, so that both counts are the same term)
        pw = _param_where(C(), a, a.shape_e[0], z3.Int('where_canon'))
        if pw is not None:
            return wrap(pw.shape_e[0])
    if a.ndim == 1 and axis in (None, 0):
        g = getattr(a, 'gather_of', None)
        if g is not None and getattr(g[1], 'where_of', None) is not None and g[0].ndim == 1:
            # ASSUMED identity: sum(x[mask]) = sum_t (x[t] if mask[t] else 0)
            base, msk = g[0], g[1].where_of
            z = ZERO[base.kind if base.kind != 'b' else 'i']
            return wrap(_sum1(lambda t: z3.If(msk.elem(t), base.elem(t) if base.kind != 'b' else z3.If(base.elem(t), 1, 0), z), base.shape_e[0], 'f' if base.kind == 'f' else 'i'))
        return wrap(_sum1(a.elem, a.shape_e[0], a.kind))
    co = getattr(a, 'concat_of', None)
    if co is not None and axis is not None and co[1] == axis and a.ndim == 2:
        # ASSUMED: a sum along the concatenation axis is the sum of the sums of the pieces
        parts = [sum_(p_, axis=axis) for p_ in co[0]]
        acc = parts[0]
        for p_ in parts[1:]:
            acc = acc + p_
        return acc
    if axis is not None and concrete(a.shape_e[axis]) is not None and concrete(a.shape_e[axis]) <= 16 and a.ndim >= 2:
        # reduction over a concrete, small axis: explicit sum
        cn = concrete(a.shape_e[axis])
        rest = tuple(s_ for d, s_ in enumerate(a.shape_e) if d != axis)

        def elem(*ix):
            acc = None
            for q in range(cn):
                jx = list(ix)
                jx.insert(axis, z3.IntVal(q))
                v = a.elem(*jx)
                if a.kind == 'b':
                    v = z3.If(v, z3.IntVal(1), z3.IntVal(0))
                acc = v if acc is None else acc + v
            return acc if acc is not None else ZERO[rk]
        return SArr(rest, elem, rk)
    if a.ndim == 2 and axis == 1 and a.kind == 'b' and Ctx.cur is not None and not Ctx.spec and not Ctx.closure_depth:
        return _rowcount(a)
    if a.ndim == 2 and axis == 1:
        return SArr((a.shape_e[0],), lambda i: _sum1(lambda j: a.elem(i, j), a.shape_e[1], a.kind), rk)
    if a.ndim == 2 and axis == 0:
        return SArr((a.shape_e[1],), lambda j: _sum1(lambda i: a.elem(i, j), a.shape_e[0], a.kind), rk)
    if a.ndim == 2 and axis is None:
        return wrap(_sum1(lambda i: _sum1(lambda j: a.elem(i, j), a.shape_e[1], a.kind), a.shape_e[0], rk))
    raise Unsupported('sum pattern ndim=%d axis=%r' % (a.ndim, axis))


def _rowcount(a):
    """ASSUMED np.sum(mask, axis=1) of a 2-d boolean array with a symbolic number of columns: the per-row count of True entries -
    between 0 and the number of columns, positive exactly when the row has a True entry (witness column WT(i))"""
    c = C()
    CNT = c.fresh_fun('rowcount', I, I)
    WT = c.fresh_fun('rowwit', I, I)
    i, t = _qv(2)
    n0, n1 = a.shape_e
    c.assume(z3.ForAll([i], z3.Implies(z3.And(0 <= i, i < n0), z3.And(0 <= CNT(i), CNT(i) <= z3.If(n1 >= 0, n1, 0),
                                                                        z3.Implies(CNT(i) > 0, z3.And(0 <= WT(i), WT(i) < n1, a.elem(i, WT(i)))))), patterns=[CNT(i)]), feas=False)
    c.assume(z3.ForAll([i, t], z3.Implies(z3.And(0 <= i, i < n0, 0 <= t, t < n1, a.elem(i, t)), CNT(i) > 0)), feas=False)
    return SArr((n0,), lambda i_: CNT(i_), 'i')


def _sum_keep(a, axis=None, keepdims=False):
    """np.sum / ndarray.sum with keepdims: the reduced axis is kept with length 1 (ASSUMED numpy contract, cross-checked)"""
    r = sum_(a, axis)
    if keepdims:
        if axis is None or not isinstance(r, SArr):
            raise Unsupported('sum(keepdims=True) without an axis')
        nd = _arr(a).ndim
        ax = axis + nd if axis < 0 else axis
        return r[(slice(None),) * ax + (None,)]
    return r


def logical_not(a):
    if isinstance(a, SArr):
        return ~a
    from .core import SBool
    if isinstance(a, (bool, SBool)):
        return not a if isinstance(a, bool) else ~a
    raise Unsupported('logical_not of %r' % type(a))


def nansum(a, axis=None):
    if isinstance(a, SArr) and a.nan is not None:
        z = ZERO[a.kind]
        b = SArr(a.shape_e, lambda *ix: z3.If(a.nan(*ix), z, a.elem(*ix)), a.kind)
        g = getattr(a, 'gather_of', None)
        if g is not None and g[0].nan is not None:
            b0 = g[0]
            b.gather_of = (SArr(b0.shape_e, lambda *ix: z3.If(b0.nan(*ix), z, b0.elem(*ix)), b0.kind), g[1])
        return sum_(b, axis)
    return sum_(a, axis)


def mean(a, axis=None):
    if isinstance(a, (list, tuple)):
        a = array(a)
    if axis is not None and axis < 0:
        axis += a.ndim
    s = sum_(a, axis)
    if axis is None:
        tot = lift(a.size)
    else:
        tot = a.shape_e[axis]
    from .core import SNan as _SNan
    if isinstance(s, _SNan):
        c = C()
        m = c.fresh('mean', R)
        c.assume(z3.Implies(tot > 0, m * z3.ToReal(tot) == to_real(s.e)), feas=False)
        if not Ctx.spec and not c.ghost.get('ieee_empty_mean'):
            c.oblige('mean-of-nonempty', tot > 0, 'safety')
        return _SNan(m, z3.Or(s.isnan, tot <= 0))
    if not Ctx.spec and C().ghost.get('ieee_empty_mean') and not isinstance(s, SArr):
        # numpy semantics made explicit (unit option): the mean of an empty selection is NaN (with a warning), not an exception
        c = C()
        m = c.fresh('mean', R)
        c.assume(z3.Implies(tot > 0, m * z3.ToReal(tot) == to_real(lift(s))), feas=False)
        from .core import SNan
        return SNan(m, z3.simplify(tot <= 0))
    if not Ctx.spec:
        C().oblige('mean-of-nonempty', tot > 0, 'safety')
    if isinstance(s, SArr):
        return SArr(s.shape_e, lambda *ix: to_real(s.elem(*ix)) / z3.ToReal(tot), 'f')
    if concrete(tot) is None and not Ctx.spec:
        # division by a symbolic count is non-linear: name the quotient and keep its defining fact away from the feasibility solvers
        c = C()
        m = c.fresh('mean', R)
        c.assume(m * z3.ToReal(tot) == to_real(lift(s)), feas=False)
        return wrap(m)
    return wrap(to_real(lift(s)) / z3.ToReal(tot))


USTD = z3.Function('ustd', AR, I, R)    # population standard deviation of a[0..n-1]


def std(a, axis=None):
    if axis is not None:
        raise Unsupported('std axis')
    if a.ndim == 1:
        return wrap(USTD(reify1(lambda t: to_real(a.elem(t)), 'f'), a.shape_e[0]))
    if a.ndim == 2 and concrete(a.shape_e[1]) == 1:
        return wrap(USTD(reify1(lambda t: to_real(a.elem(t, z3.IntVal(0))), 'f'), a.shape_e[0]))
    raise Unsupported('std pattern')


UWAVG = z3.Function('uwavg', AR, AR, I, R)


def average(a, axis=None, weights=None):
    if weights is not None:
        if axis is None and isinstance(a, SArr) and isinstance(weights, SArr):
            fa, fw = reshape(a, -1), reshape(weights, -1)
            return wrap(UWAVG(reify1(lambda t: to_real(fa.elem(t)), 'f'), reify1(lambda t: to_real(fw.elem(t)), 'f'), fa.shape_e[0]))
        raise Unsupported('weighted average pattern')
    return mean(a, axis)


def _extreme(a, axis, ismax):
    if a.nan is not None:
        raise Unsupported('max/min over possibly-NaN array')
    if axis is not None:
        raise Unsupported('max/min axis')
    c = C()
    if not Ctx.spec:
        for s in a.shape_e:
            c.oblige('max-of-nonempty', s > 0, 'safety')
    m = c.fresh('amax' if ismax else 'amin', SORT[a.kind])
    ws = [c.fresh('argm', I) for _ in a.shape_e]
    c.assume(z3.And(*[z3.And(0 <= w, w < n) for w, n in zip(ws, a.shape_e)]))
    c.assume(a.elem(*ws) == m)
    ix = _qv(a.ndim)
    rng = z3.And(*[z3.And(0 <= i, i < n) for i, n in zip(ix, a.shape_e)])
    c.assume(z3.ForAll(ix, z3.Implies(rng, a.elem(*ix) <= m if ismax else a.elem(*ix) >= m), patterns=[a.elem(*ix)] if _pat_ok(a.elem(*ix), ix) else []))
    # ground instances of the bound at the index tuples a harness has named (`extreme_hints`): a branch on the extreme value that a
    # precondition about ONE element decides is then decided by the quantifier-free feasibility solver - always, not only when the
    # instantiation happens to finish within its wall-clock limit (which made the number of explored paths vary from run to run)
    for hint in c.ghost.get('extreme_hints', ()):
        if len(hint) == a.ndim:
            hx = [lift(h_) for h_ in hint]
            c.assume(z3.Implies(z3.And(*[z3.And(0 <= h_, h_ < n_) for h_, n_ in zip(hx, a.shape_e)]), a.elem(*hx) <= m if ismax else a.elem(*hx) >= m))
    return wrap(m)


def _pat_ok(e, ix):
    # a pattern must be a non-variable term mentioning all bound variables
    if z3.is_var(e) or z3.is_const(e):
        return False
    if not z3.is_app(e) or e.decl().kind() != z3.Z3_OP_UNINTERPRETED:
        return False
    s = e.sexpr()
    return builtins_all(str(i) in s for i in ix)


import builtins as _bi
builtins_all = _bi.all
builtins_any = _bi.any

_EXPORTS = {}


def __getattr__(name):
    # names that would shadow python builtins inside this module are exported lazily (PEP 562)
    try:
        return _EXPORTS[name]
    except KeyError:
        raise AttributeError('numpy shim has no attribute %r (unsupported numpy function)' % name)


def amax(a, axis=None):
    return _extreme(_arr(a), axis, True)


def amin(a, axis=None):
    return _extreme(_arr(a), axis, False)




def cumsum(a, axis=None):
    """ASSUMED np.cumsum along axis 0: c[0] = a[0], c[k] = c[k-1] + a[k]  (also tied to the spec function sumR / sumI)"""
    a = _arr(a)
    if axis is None:
        # numpy: without an axis the input is FLATTENED first (the result of an n-d input is 1-d)
        if a.ndim != 1:
            a = reshape(a, -1)
        axis = 0
    elif axis < 0:
        axis += a.ndim
    if a.ndim > 2 or axis != 0:
        raise Unsupported('cumsum pattern')
    c = C()
    rk = 'f' if a.kind == 'f' else 'i'
    n = a.shape_e[0]
    if a.ndim == 1:
        CS = c.fresh_fun('cumsum', I, SORT[rk])
        k = _qv(1)[0]
        c.assume(CS(0) == a.elem(z3.IntVal(0)))
        c.assume(z3.ForAll([k], z3.Implies(z3.And(1 <= k, k < n), CS(k) == CS(k - 1) + a.elem(k)), patterns=[CS(k)]))
        c.assume(z3.ForAll([k], z3.Implies(z3.And(0 <= k, k < n), CS(k) == _sum1(a.elem, k + 1, a.kind)), patterns=[CS(k)]))
        return SArr(a.shape_e, lambda i: CS(i), rk)
    CS = c.fresh_fun('cumsum', I, I, SORT[rk])
    k, j = _qv(2)
    m = a.shape_e[1]
    c.assume(z3.ForAll([j], z3.Implies(z3.And(0 <= j, j < m), CS(0, j) == a.elem(z3.IntVal(0), j)), patterns=[CS(0, j)]))
    c.assume(z3.ForAll([k, j], z3.Implies(z3.And(1 <= k, k < n, 0 <= j, j < m), CS(k, j) == CS(k - 1, j) + a.elem(k, j)), patterns=[CS(k, j)]))
    cm = concrete(m)
    if cm is not None and cm <= 4:
        for jj in range(cm):
            c.assume(z3.ForAll([k], z3.Implies(z3.And(0 <= k, k < n), CS(k, jj) == _sum1(lambda t, jj=jj: a.elem(t, z3.IntVal(jj)), k + 1, a.kind)), patterns=[CS(k, jj)]))
    return SArr(a.shape_e, lambda i, jx: CS(i, jx), rk)


def gradient(a, axis=0):
    """ASSUMED numpy.gradient with unit spacing: central differences inside, one-sided at the ends."""
    a = _arr(a)
    if axis != 0:
        raise Unsupported('gradient axis')
    n = a.shape_e[0]
    if not Ctx.spec:
        C().oblige('gradient-needs-2-samples', n >= 2, 'safety')

    def elem(i, *r):
        g = lambda q: to_real(a.elem(q, *r))
        return z3.If(i == 0, g(1) - g(0), z3.If(i == n - 1, g(n - 1) - g(n - 2), (g(i + 1) - g(i - 1)) / 2))
    return SArr(a.shape_e, elem, 'f')


def searchsorted(a, v, side='left', sorter=None):
    """ASSUMED np.searchsorted(a, v, side) for non-decreasing a: 'right' is np.digitize(v, a), 'left' is np.digitize(v, a, right=True)"""
    if sorter is not None or side not in ('left', 'right'):
        raise Unsupported('searchsorted sorter / side')
    return digitize(v, a, right=(side == 'left'))


def digitize(x, edges, right=False):
    """ASSUMED np.digitize(x, bins) for increasing bins:
    right=False: result r in [0, m];  r > 0 => bins[r-1] <= x;  r < m => x < bins[r];  NaN => m
    right=True : result r in [0, m];  r > 0 => bins[r-1] <  x;  r < m => x <= bins[r]; NaN => m."""
    if not isinstance(right, bool):
        raise Unsupported('digitize right=%r' % (right,))
    e = _arr(edges)
    if e.ndim != 1:
        raise Unsupported('digitize edges')
    m = e.shape_e[0]
    c = C()
    if not Ctx.spec:
        i, j = _qv(2)
        # precondition of the assumed contract: bins monotonically increasing
        c.obl.append(Obligation('digitize-bins-increasing', list(c.pc) + [z3.And(0 <= i, i < j, j < m)], to_real(e.elem(i)) <= to_real(e.elem(j)), 'safety', list(c.prefix[:c.pos])))
    xa = x if isinstance(x, SArr) else None
    if xa is None:
        raise Unsupported('digitize of scalar')
    cix = [z3.Int('dig_canon%d' % d) for d in range(xa.ndim)]
    key = (z3.simplify(xa.elem(*cix)).sexpr(), z3.simplify(e.elem(cix[0])).sexpr(), m.sexpr(), tuple(s_.sexpr() for s_ in xa.shape_e),
           z3.simplify(xa.nan(*cix)).sexpr() if xa.nan is not None else None, right)
    dcache = c.ghost.setdefault('digitize_cache', {})
    if key in dcache:
        D = dcache[key]
        return SArr(xa.shape_e, lambda *jx: D(*jx), 'i')
    D = c.fresh_fun('dig', *([I] * xa.ndim + [I]))
    dcache[key] = D
    ix = _qv(xa.ndim)
    rng = z3.And(*[z3.And(0 <= q, q < n) for q, n in zip(ix, xa.shape_e)])
    r = D(*ix)
    xv = to_real(xa.elem(*ix))
    if right:
        body = z3.And(0 <= r, r <= m,
                      z3.Implies(r > 0, to_real(e.elem(r - 1)) < xv),
                      z3.Implies(r < m, xv <= to_real(e.elem(r))))
    else:
        body = z3.And(0 <= r, r <= m,
                      z3.Implies(r > 0, to_real(e.elem(r - 1)) <= xv),
                      z3.Implies(r < m, xv < to_real(e.elem(r))))
    if xa.nan is not None:
        body = z3.If(xa.nan(*ix), r == m, body)
    c.assume(z3.ForAll(ix, z3.Implies(rng, body), patterns=[D(*ix)]))
    return SArr(xa.shape_e, lambda *jx: D(*jx), 'i')


def searchsorted(a, v, side='left', sorter=None):
    """ASSUMED numpy contract for increasing a: searchsorted(a, v, side='left') = number of entries of a below v = digitize(v, a, right=True);
    side='right' = number of entries at or below v = digitize(v, a)"""
    if sorter is not None or side not in ('left', 'right'):
        raise Unsupported('searchsorted options')
    if not isinstance(v, SArr):
        raise Unsupported('searchsorted of a scalar')
    return digitize(v, a, right=(side == 'left'))


def unique(a, return_counts=False):
    """only the shapes are modelled (values unconstrained): enough where the result is not used"""
    c = C()
    n = c.fresh('nuniq', I)
    c.assume(z3.And(0 <= n, n <= a.shape_e[0]))
    u = SArr((n,), (lambda f: lambda i: f(i))(c.fresh_fun('uniq', I, SORT[a.kind])), a.kind)
    if return_counts:
        return u, SArr((n,), (lambda f: lambda i: f(i))(c.fresh_fun('ucnt', I, I)), 'i')
    return u


def sort(a, axis=-1):
    """ASSUMED np.sort of a 1-d array: a non-decreasing permutation of the input (PERM is a bijection of [0,n))"""
    a = _arr(a)
    if a.ndim != 1:
        raise Unsupported('sort of n-d array')
    if Ctx.closure_depth:
        raise Unsupported('np.sort inside a symbolic comprehension')
    c = C()
    n = a.shape_e[0]
    S = c.fresh_fun('sorted', I, SORT[a.kind])
    PERM = c.fresh_fun('perm', I, I)
    INV = c.fresh_fun('perminv', I, I)
    i, j = _qv(2)
    old = a.elem
    c.assume(z3.ForAll([i, j], z3.Implies(z3.And(0 <= i, i <= j, j < n), S(i) <= S(j)), patterns=[z3.MultiPattern(S(i), S(j))]))
    c.assume(z3.ForAll([i], z3.Implies(z3.And(0 <= i, i < n), z3.And(0 <= PERM(i), PERM(i) < n, S(i) == old(PERM(i)), INV(PERM(i)) == i)), patterns=[PERM(i)]))
    c.assume(z3.ForAll([i], z3.Implies(z3.And(0 <= i, i < n), z3.And(0 <= INV(i), INV(i) < n, PERM(INV(i)) == i)), patterns=[INV(i)]))
    r = SArr((n,), lambda q: S(q), a.kind)
    r.sorted_from = (old, PERM, INV)
    return r


def argmax(a, axis=None):
    """ASSUMED np.argmax(a, axis=1): per row the first index holding the row maximum"""
    a = _arr(a)
    if a.ndim != 2 or axis != 1:
        raise Unsupported('argmax pattern')
    c = C()
    if not Ctx.spec:
        c.oblige('argmax-of-nonempty', a.shape_e[1] > 0, 'safety')
    Wf = c.fresh_fun('argmax', I, I)
    i, j = _qv(2)
    c.assume(z3.ForAll([i], z3.Implies(z3.And(0 <= i, i < a.shape_e[0]), z3.And(0 <= Wf(i), Wf(i) < a.shape_e[1])), patterns=[Wf(i)]))
    c.assume(z3.ForAll([i, j], z3.Implies(z3.And(0 <= i, i < a.shape_e[0], 0 <= j, j < a.shape_e[1]),
                                          z3.And(a.elem(i, j) <= a.elem(i, Wf(i)), z3.Implies(j < Wf(i), a.elem(i, j) < a.elem(i, Wf(i))))),
                       patterns=[z3.MultiPattern(Wf(i), a.elem(i, j))] if _pat_ok(a.elem(i, j), [i, j]) else []))
    return SArr((a.shape_e[0],), lambda q: Wf(q), 'i')


def _free_consts(e, out, seen):
    if e.get_id() in seen:
        return
    seen.add(e.get_id())
    if z3.is_const(e) and e.decl().kind() == z3.Z3_OP_UNINTERPRETED:
        out.append(e)
    for ch in e.children():
        _free_consts(ch, out, seen)


def _contains(e, t, memo):
    k = e.get_id()
    if k not in memo:
        memo[k] = z3.eq(e, t) or builtins_any(_contains(ch, t, memo) for ch in e.children())
    return memo[k]


def _params_of(e, t, out, memo):
    """the maximal subterms of e that do not mention t (numerals excluded), in order of first occurrence"""
    if not _contains(e, t, memo):
        if not (z3.is_int_value(e) or z3.is_rational_value(e) or z3.is_true(e) or z3.is_false(e)):
            if not builtins_any(z3.eq(e, o) for o in out):
                out.append(e)
        return
    for ch in e.children():
        _params_of(ch, t, out, memo)


def argmin(a, axis=None):
    """ASSUMED np.argmin of a non-empty 1-d array without NaN: an index in range that holds a minimum.
    The result is a function of the array.  The array's element term e(t) has a shape (its function symbols around the position t) and
    parameters (its maximal subterms that do not mention t: loop index, comprehension index, ...); its length n is a term over those
    parameters and possibly further symbols.  The index is the Skolem function  argmin_<shape>(parameters) - the same function whenever
    the same expression is evaluated at other parameter values (needed inside symbolic comprehensions, where the element expression is
    instantiated at several indices)."""
    a = _arr(a)
    if a.ndim != 1 or axis not in (None, 0, -1):
        raise Unsupported('argmin pattern')
    if a.nan is not None:
        raise Unsupported('argmin over possibly-NaN array')
    c = C()
    n = z3.simplify(a.shape_e[0])
    if not Ctx.spec:
        c.oblige('argmin-of-nonempty', n > 0, 'safety')
    t = z3.Int('argmin_canon')
    e = z3.simplify(a.elem(t))
    params = []
    _params_of(e, t, params, {})
    ph = [(k, z3.Const('argmin_ph%d' % i, k.sort())) for i, k in enumerate(params)]
    n1 = z3.substitute(n, *ph) if ph else n
    extra, seen = [], set()
    _free_consts(n1, extra, seen)
    extra = [k for k in extra if not builtins_any(z3.eq(k, p_) for _, p_ in ph)]
    ph2 = [(k, z3.Const('argmin_ph%d' % (len(ph) + i), k.sort())) for i, k in enumerate(extra)]
    params = params + extra
    ph = ph + ph2
    e_s = z3.substitute(e, *ph) if ph else e
    n_s = z3.substitute(n1, *ph2) if ph2 else n1
    import hashlib
    tag = hashlib.sha1((e_s.sexpr() + '|' + n_s.sexpr() + '|' + ','.join(str(k.sort()) for k in params)).encode()).hexdigest()[:10]
    tab = c.ghost.setdefault('argmin_funs', {})
    if tag not in tab:
        AM = z3.Function('argmin_%s' % tag, *([k.sort() for k in params] + [I]))
        qs = [z3.Const('amq%d_%s' % (i, tag), k.sort()) for i, k in enumerate(params)]
        sub = [(p_, q) for (_, p_), q in zip(ph, qs)]
        w = AM(*qs)
        nq = z3.substitute(n_s, *sub) if sub else n_s
        eq = z3.substitute(e_s, *sub) if sub else e_s
        tt = z3.Int('amt_%s' % tag)
        eq_w, eq_t = z3.substitute(eq, (t, w)), z3.substitute(eq, (t, tt))
        f1 = z3.Implies(nq > 0, z3.And(0 <= w, w < nq))
        f2 = z3.Implies(z3.And(0 <= tt, tt < nq), eq_w <= eq_t)
        facts = [z3.ForAll(qs, f1, patterns=[w]) if qs else f1,
                 z3.ForAll(qs + [tt], f2, patterns=[z3.MultiPattern(w, eq_t)] if (qs and _pat_ok_core(eq_t, qs + [tt])) else [])]
        tab[tag] = (AM, facts)
    AM, facts = tab[tag]
    for f in facts:            # (re-)assume: a fact assumed inside a scoped block is dropped when the block ends
        if not builtins_any(f is h for h in c.pc):
            c.assume(f, feas=False)
    return wrap(AM(*params))


def unwrap(p):
    """ASSUMED np.unwrap of a 1-d float array without NaN (period 2 pi): out[0] = p[0]; out[k] = p[k] + 2 pi m[k] with integer m[k];
    consecutive outputs differ by at most pi; an input whose consecutive steps are all smaller than pi is returned unchanged"""
    p = _arr(p)
    if p.ndim != 1 or p.nan is not None or Ctx.closure_depth:
        raise Unsupported('unwrap pattern')
    c = C()
    n = p.shape_e[0]
    U = c.fresh_fun('unwrapped', I, R)
    M = c.fresh_fun('unwrapm', I, I)
    k, k2 = _qv(2)
    pe, _ = p._snapshot()
    pe_k = to_real(pe(k))
    c.assume(z3.Implies(n > 0, z3.And(U(0) == to_real(pe(z3.IntVal(0))), M(0) == 0)), feas=False)
    c.assume(z3.ForAll([k], z3.Implies(z3.And(0 <= k, k < n), U(k) == pe_k + 2 * PI * z3.ToReal(M(k))), patterns=[U(k)]), feas=False)
    c.assume(z3.ForAll([k], z3.Implies(z3.And(1 <= k, k < n), z3.And(U(k) - U(k - 1) <= PI, U(k - 1) - U(k) <= PI)), patterns=[U(k)]), feas=False)
    small = z3.ForAll([k2], z3.Implies(z3.And(1 <= k2, k2 < n), z3.And(to_real(pe(k2)) - to_real(pe(k2 - 1)) < PI, to_real(pe(k2 - 1)) - to_real(pe(k2)) < PI)))
    c.assume(z3.Implies(small, z3.ForAll([k], z3.Implies(z3.And(0 <= k, k < n), M(k) == 0), patterns=[M(k)])), feas=False)
    return SArr((n,), lambda i: U(i), 'f')


def isscalar(x):
    return not isinstance(x, SArr)


_EXPORTS.update({'abs': abs_, 'sum': _sum_keep, 'round': round_, 'all': all_, 'any': any_, 'max': amax, 'min': amin})


def _guard_signatures():
    """A call the shim's signature cannot bind (an argument the assumed contract does not model) is 'unsupported', never a code error."""
    import functools
    import inspect
    import types
    g = globals()
    for name, fn in list(g.items()):
        if isinstance(fn, types.FunctionType) and fn.__module__ == __name__ and not name.startswith('_') and name not in ('pi_axioms', 'sum_axioms', 'reify1'):
            sig = inspect.signature(fn)

            def make(fn, sig, name):
                @functools.wraps(fn)
                def w(*a, **k):
                    try:
                        sig.bind(*a, **k)
                    except TypeError as ex:
                        raise Unsupported('np.%s called with arguments outside its assumed contract: %s' % (name, ex))
                    return fn(*a, **k)
                return w
            g[name] = make(fn, sig, name)
    for k_, v in list(_EXPORTS.items()):
        _EXPORTS[k_] = g.get(v.__name__, v)


_guard_signatures()
