"""pyvc core: path context, symbolic proxies (scalars and n-d arrays), dual-mode spec helpers.

The real function source (loops cut, see cut.py) is *executed by CPython* on these proxies.
Every branch on a symbolic Boolean forks the path; every indexing / division generates a safety
obligation; every contract clause becomes an obligation (hypotheses = path condition).
Floats are mathematical reals, NumPy integers are unbounded (see DESIGN.md section 9).
"""
import itertools
import z3

I = z3.IntSort()
R = z3.RealSort()
B = z3.BoolSort()


class EndPath(Exception):
    """The current symbolic path ends here (cut point reached / infeasible)."""


class Unsupported(Exception):
    """A construct outside the engine's reach: the run is *undecided*, never a violation."""


class ModelledError(Exception):
    """marker mixin: an exception a shim raises on purpose because the real library would raise it"""


class ModelledAttributeError(AttributeError, ModelledError):
    pass


class ModelledIndexError(IndexError, ModelledError):
    pass


class ModelledTypeError(TypeError, ModelledError):
    pass


class Obligation:
    __slots__ = ('name', 'hyps', 'goal', 'kind', 'path', 'note', 'uid', 'unit')

    def __init__(self, name, hyps, goal, kind, path, note=''):
        self.name, self.hyps, self.goal, self.kind, self.path, self.note = name, hyps, goal, kind, path, note


class Ctx:
    cur = None
    spec = 0          # >0 while a spec formula is being evaluated: no safety obligations, no forking
    closure_depth = 0  # >0 while the element expression of a symbolic comprehension is evaluated at an index

    def __init__(self, prefix, tag=''):
        self.prefix = list(prefix)
        self.pos = 0
        self.pc = []
        self.pc_nogoal = []       # assumptions only (no assumed goals): used by the vacuity canary
        self.obl = []
        self.pending = []
        self.n = 0
        self.tag = tag
        self.feas = z3.Solver()
        self.feas.set('timeout', 1500)
        self.feas.set('rlimit', 3000000)
        self.full = None          # second, complete-context solver (created when a quantified fact is assumed)
        self.effects = []         # recorded effects (rng draws, global writes, logger calls ...)
        self.ghost = {}           # free-form ghost state for harnesses
        self.frame_inputs = set()  # buffer ids that must not be written

    # -- symbols
    def fresh(self, base, sort):
        self.n += 1
        return z3.Const('%s!%d' % (base, self.n), sort)

    def fresh_fun(self, base, *sorts):
        self.n += 1
        return z3.Function('%s!%d' % (base, self.n), *sorts)

    # -- assumptions / obligations
    def assume(self, e, goal=False, feas=True):
        """feas=False: the fact is a hypothesis of later obligations but is kept out of the (cheap) path-feasibility solvers
        (used for non-linear definitional facts, which can make those solvers run away)"""
        e = lift(e)
        self.pc.append(e)
        if not goal:
            self.pc_nogoal.append(e)
        if not feas:
            return
        if not _has_quant(e):
            self.feas.add(_linearize(e))
        elif self.full is None:
            self.full = z3.Solver()
            self.full.set('timeout', 800)
            self.full.set('rlimit', 3000000)
            for h in self.pc:
                self.full.add(_linearize(h))
            return
        if self.full is not None:
            self.full.add(_linearize(e))

    def oblige(self, name, goal, kind='safety', note=''):
        goal = lift(goal)
        if Ctx.spec and kind == 'safety':
            return
        g = z3.simplify(goal)
        if z3.is_true(g):
            # trivially true: still counted (it is an obligation generated from the code)
            self.obl.append(Obligation(name, [], z3.BoolVal(True), kind, list(self.prefix[:self.pos]), note))
            return
        self.obl.append(Obligation(name, list(self.pc), _pointwise(goal), kind, list(self.prefix[:self.pos]), note))
        self.assume(goal, goal=True)     # after asserting, may assume

    @staticmethod
    def _check(sol, seconds=4.0):
        """sol.check() of a helper query (path feasibility / quick entailment); every such solver carries z3's own `timeout` and `rlimit`.
        An exception of the solver counts as 'unknown' (callers treat unknown as "feasible" / "not entailed": only adds paths or obligations).

        No thread-based deadline: two forms were tried after a refactoring probe made the engine loop (10.6) - a Timer per query, which
        released z3 objects from the timer thread and segfaulted libz3 in pool workers, and a single interrupt-only watchdog thread, after
        which the MAIN process segfaulted in Z3_del_context at interpreter exit in about one run of ten (exit 139 on the unchanged tree;
        none in thirty runs without the thread).  z3's Python API and a second Python thread do not mix.  A query that really does not
        return is bounded from outside instead: the pool delivers nothing, and `_collect` (vf/report.py) ends the run as a checker error."""
        try:
            return sol.check()
        except z3.Z3Exception:
            return z3.unknown

    def feasible(self, extra):
        extra = _linearize(extra)
        self.feas.push()
        self.feas.add(extra)
        r = self._check(self.feas)
        self.feas.pop()
        if r == z3.unsat:
            return False
        if self.full is not None:
            # the quantifier-free projection over-approximates feasibility: prune with the full context
            self.full.push()
            self.full.add(extra)
            r = self._check(self.full)
            self.full.pop()
            return r != z3.unsat
        return True

    def branch(self, e):
        e = z3.simplify(lift(e))
        if z3.is_true(e):
            return True
        if z3.is_false(e):
            return False
        if Ctx.spec:
            raise Unsupported('control flow on a symbolic value inside a spec formula')
        if self.pos < len(self.prefix):
            d = self.prefix[self.pos]
        else:
            ft, ff = self.feasible(e), self.feasible(z3.Not(e))
            if ft and ff:
                self.pending.append(self.prefix + [False])
                d = True
            elif ft:
                d = True
            elif ff:
                d = False
            else:
                raise EndPath()
            self.prefix.append(d)
        self.pos += 1
        self.assume(e if d else z3.Not(e))
        return d

    def scoped(self, e):
        """context manager: assume e only inside the block (obligations generated inside keep it as a hypothesis)"""
        ctx = self

        class _S:
            def __enter__(s_):
                s_.n = len(ctx.pc)
                s_.m = len(ctx.pc_nogoal)
                s_.had_full = ctx.full is not None
                ctx.feas.push()
                if s_.had_full:
                    ctx.full.push()
                ctx.assume(e)

            def __exit__(s_, *a):
                del ctx.pc[s_.n:]
                del ctx.pc_nogoal[s_.m:]
                ctx.feas.pop()
                if s_.had_full:
                    ctx.full.pop()
                else:
                    ctx.full = None
                return False
        return _S()

    def entails(self, e):
        """True only if the current path condition provably implies e (quick check; False = don't know)."""
        e = z3.simplify(lift(e))
        if z3.is_true(e):
            return True
        if self.full is not None:
            # the quantifier-free projection holds fewer hypotheses: what it entails is entailed (and it answers fast)
            self.feas.push()
            self.feas.add(_linearize(z3.Not(e)))
            r0 = self._check(self.feas)
            self.feas.pop()
            if r0 == z3.unsat:
                return True
        sol = self.full if self.full is not None else self.feas
        sol.push()
        sol.add(_linearize(z3.Not(e)))
        r = self._check(sol)
        sol.pop()
        return r == z3.unsat

    def choose(self, n, label='choice'):
        """Nondeterministic choice among n alternatives (explored exhaustively)."""
        for k in range(n - 1):
            b = self.fresh(label, B)
            if self.branch(b):
                return k
        return n - 1


_UMULR = z3.Function('umul_r', R, R, R)
_UMULI = z3.Function('umul_i', I, I, I)
_UDIVR = z3.Function('udiv_r', R, R, R)
_UDIVI = z3.Function('udiv_i', I, I, I)
_UMODI = z3.Function('umod_i', I, I, I)
_LIN_CACHE = {}


def _is_num(t):
    return z3.is_int_value(t) or z3.is_rational_value(t)


def _linearize(e):
    """Over-approximation used ONLY by the path-feasibility solvers: products / quotients of two non-constant terms become
    uninterpreted function applications, so those solvers stay in linear arithmetic + UF (z3 does not honour its time limit
    reliably on non-linear real arithmetic).  More paths may look feasible; obligations are always sent unmodified."""
    key = e.get_id()
    hit = _LIN_CACHE.get(key)
    if hit is not None:
        return hit[0]
    if z3.is_quantifier(e) or not z3.is_app(e) or e.num_args() == 0:
        r = e
    else:
        ch = [_linearize(c) for c in e.children()]
        k = e.decl().kind()
        if k == z3.Z3_OP_MUL:
            nums = [c for c in ch if _is_num(c)]
            rest = [c for c in ch if not _is_num(c)]
            if len(rest) >= 2:
                f = _UMULR if e.sort() == R else _UMULI
                acc = rest[0]
                for c in rest[1:]:
                    acc = f(acc, c)
                for c in nums:
                    acc = c * acc
                r = acc
            else:
                r = e.decl()(*ch)
        elif k == z3.Z3_OP_DIV and not _is_num(ch[1]):
            r = _UDIVR(ch[0], ch[1])
        elif k == z3.Z3_OP_IDIV and not _is_num(ch[1]):
            r = _UDIVI(ch[0], ch[1])
        elif k in (z3.Z3_OP_MOD, z3.Z3_OP_REM) and not _is_num(ch[1]):
            r = _UMODI(ch[0], ch[1])
        else:
            try:
                r = e.decl()(*ch)
            except z3.Z3Exception:
                r = e
    _LIN_CACHE[key] = (r, e)
    return r


_PW = [0]


def _pointwise(e):
    """(A == B) on array-sorted terms  ->  ForAll t. A[t] == B[t]   (extensionality, an equivalence).  Applied to GOALS only:
    z3 proves the pointwise form of vector equalities between lambda terms far more reliably than the array equality itself."""
    if not z3.is_app(e) or e.sort() != B:
        return e
    k = e.decl().kind()
    if k == z3.Z3_OP_EQ and isinstance(e.arg(0).sort(), z3.ArraySortRef):
        a, b = e.arg(0), e.arg(1)
        _PW[0] += 1
        t = z3.Const('ext!%d' % _PW[0], a.sort().domain())
        return z3.ForAll([t], a[t] == b[t])
    if k in (z3.Z3_OP_AND, z3.Z3_OP_OR, z3.Z3_OP_NOT, z3.Z3_OP_IMPLIES, z3.Z3_OP_ITE, z3.Z3_OP_EQ, z3.Z3_OP_IFF, z3.Z3_OP_XOR) and e.num_args() > 0:
        ch = [_pointwise(c) for c in e.children()]
        try:
            return e.decl()(*ch)
        except z3.Z3Exception:
            return e
    return e


def _has_quant(e):
    seen = set()
    stack = [e]
    while stack:
        t = stack.pop()
        if z3.is_quantifier(t):
            return True
        i = t.get_id()
        if i in seen:
            continue
        seen.add(i)
        stack.extend(t.children())
    return False


def C():
    if Ctx.cur is None:
        raise Unsupported('no active verification context')
    return Ctx.cur


class SpecMode:
    def __enter__(self):
        Ctx.spec += 1

    def __exit__(self, *a):
        Ctx.spec -= 1


# --------------------------------------------------------------------------------------------
# scalars

def is_sym(v):
    return isinstance(v, (SInt, SReal, SBool, SArr))


def lift(v):
    if isinstance(v, (SInt, SReal, SBool)):
        return v.e
    if isinstance(v, bool):
        return z3.BoolVal(v)
    if isinstance(v, int):
        return z3.IntVal(v)
    if isinstance(v, float):
        if v != v or v in (float('inf'), float('-inf')):
            raise Unsupported('non-finite float constant %r in a real-valued term' % v)
        return z3.RealVal(repr(v)) if abs(v) < 1e300 else z3.RealVal(v)
    if z3.is_expr(v):
        return v
    try:
        import numpy as _np
        if isinstance(v, _np.bool_):
            return z3.BoolVal(bool(v))
        if isinstance(v, _np.integer):
            return z3.IntVal(int(v))
        if isinstance(v, _np.floating):
            return lift(float(v))
    except ImportError:
        pass
    raise Unsupported('cannot lift %r' % (type(v),))


def wrap(e):
    if not z3.is_expr(e):
        return e
    s = e.sort()
    if s == I:
        return SInt(e)
    if s == R:
        return SReal(e)
    if s == B:
        return SBool(e)
    raise Unsupported('wrap sort %s' % s)


def concrete(v):
    """Return a python value if v is a concrete proxy/expr, else None."""
    if isinstance(v, (bool, int, float)):
        return v
    e = z3.simplify(lift(v))
    if z3.is_int_value(e):
        return e.as_long()
    if z3.is_true(e):
        return True
    if z3.is_false(e):
        return False
    if z3.is_rational_value(e):
        return float(e.as_fraction())
    return None


def to_real(e):
    return z3.ToReal(e) if e.sort() == I else e


def coerce2(a, b):
    if a.sort() == B:
        a = z3.If(a, z3.IntVal(1), z3.IntVal(0))
    if b.sort() == B:
        b = z3.If(b, z3.IntVal(1), z3.IntVal(0))
    if a.sort() != b.sort():
        a, b = to_real(a), to_real(b)
    return a, b


class SBool:
    def __init__(self, e):
        self.e = e

    def __bool__(self):
        return C().branch(self.e)

    def __invert__(self):
        return SBool(z3.Not(self.e))

    def __and__(self, o):
        return SBool(z3.And(self.e, _tobool(o)))
    __rand__ = __and__

    def __or__(self, o):
        return SBool(z3.Or(self.e, _tobool(o)))
    __ror__ = __or__

    def __eq__(self, o):
        return SBool(self.e == _tobool(o))

    def __ne__(self, o):
        return SBool(self.e != _tobool(o))

    # numeric use of booleans (True == 1)
    def _num(self):
        return SInt(z3.If(self.e, z3.IntVal(1), z3.IntVal(0)))

    def __add__(self, o):
        return self._num() + o
    __radd__ = __add__

    def __mul__(self, o):
        return self._num() * o
    __rmul__ = __mul__

    def __format__(self, spec):
        return '<symbool>'

    def __str__(self):
        return '<symbool>'
    __repr__ = __str__
    __hash__ = None


def _tobool(o):
    e = lift(o)
    if e.sort() == B:
        return e
    if e.sort() == I:
        return e != 0
    return e != 0


class _Num:
    def _b(self, o, f, cmp=False):
        if isinstance(o, SArr):
            return NotImplemented
        if o is None:
            return NotImplemented
        a, b = coerce2(self.e, lift(o))
        return wrap(f(a, b))

    def __add__(self, o): return self._b(o, lambda a, b: a + b)
    def __radd__(self, o): return self._b(o, lambda a, b: b + a)
    def __sub__(self, o): return self._b(o, lambda a, b: a - b)
    def __rsub__(self, o): return self._b(o, lambda a, b: b - a)
    def __mul__(self, o): return self._b(o, lambda a, b: a * b)
    def __rmul__(self, o): return self._b(o, lambda a, b: b * a)
    def __neg__(self): return wrap(-self.e)
    def __pos__(self): return self

    def __truediv__(self, o):
        if isinstance(o, SArr):
            return NotImplemented
        d = to_real(lift(o))
        _safety('division-by-nonzero', d != 0)
        return wrap(to_real(self.e) / d)

    def __rtruediv__(self, o):
        d = to_real(self.e)
        _safety('division-by-nonzero', d != 0)
        return wrap(to_real(lift(o)) / d)

    def __floordiv__(self, o):
        a, b = self.e, lift(o)
        if a.sort() == I and b.sort() == I:
            _safety('division-by-nonzero', b != 0)
            # python floor division == SMT div for positive divisors
            cb = concrete(b)
            if cb is not None and cb > 0:
                return wrap(a / b)
            return wrap(z3.If(b > 0, a / b, -((-a) / (-b)) - z3.If((-a) % (-b) != 0, 0, 0)))
        raise Unsupported('floor division on reals')

    def __mod__(self, o):
        a, b = self.e, lift(o)
        if a.sort() == I and b.sort() == I:
            _safety('division-by-nonzero', b != 0)
            return wrap(a % b)
        raise Unsupported('real modulo on scalars')

    def __pow__(self, o):
        c = concrete(o)
        if c == 2:
            return wrap(self.e * self.e)
        if c == 1:
            return self
        if isinstance(c, int) and 0 <= c <= 8:
            r = z3.IntVal(1) if self.e.sort() == I else z3.RealVal(1)
            for _ in range(c):
                r = r * self.e
            return wrap(r)
        return wrap(upow(to_real(self.e), to_real(lift(o))))

    def __rpow__(self, o):
        return wrap(upow(to_real(lift(o)), to_real(self.e)))

    def __lt__(self, o): return self._b(o, lambda a, b: a < b)
    def __le__(self, o): return self._b(o, lambda a, b: a <= b)
    def __gt__(self, o): return self._b(o, lambda a, b: a > b)
    def __ge__(self, o): return self._b(o, lambda a, b: a >= b)

    def __eq__(self, o):
        if o is None or isinstance(o, (str, bytes)):
            return False
        return self._b(o, lambda a, b: a == b)

    def __ne__(self, o):
        if o is None or isinstance(o, (str, bytes)):
            return True
        return self._b(o, lambda a, b: a != b)

    def __abs__(self): return wrap(z3.If(self.e >= 0, self.e, -self.e))

    def __bool__(self):
        return C().branch(self.e != 0)

    def __format__(self, spec): return '<sym>'
    def __str__(self): return '<sym>'
    __repr__ = __str__
    __hash__ = None

    # numpy-scalar conveniences
    def astype(self, t):
        k = kind_of_dtype(t)
        if k == 'i' and self.e.sort() == R:
            return SInt(z3.If(self.e >= 0, z3.ToInt(self.e), -z3.ToInt(-self.e)))
        if k == 'f':
            return SReal(to_real(self.e))
        return self

    @property
    def ndim(self): return 0
    @property
    def shape(self): return ()


def _safety(name, goal):
    if Ctx.spec:
        return
    if z3.is_true(z3.simplify(goal)) and Ctx.cur is None:
        return
    C().oblige(name, goal, 'safety')


UPOW = z3.Function('upow', R, R, R)


def upow(a, b):
    return UPOW(a, b)


class SInt(_Num):
    def __init__(self, e):
        self.e = e

    def __index__(self):
        c = concrete(self)
        if c is None:
            raise Unsupported('symbolic integer used as a concrete python index')
        return c

    def __int__(self):
        return self.__index__()


class SReal(_Num):
    def __init__(self, e):
        self.e = e

    def __float__(self):
        c = concrete(self)
        if c is None:
            raise Unsupported('symbolic real used as a concrete python float')
        return float(c)


def sint(v):
    return v if isinstance(v, SInt) else SInt(lift(v))


# --------------------------------------------------------------------------------------------
# arrays

_buf_ids = itertools.count(1)

ZERO = {'i': z3.IntVal(0), 'f': z3.RealVal(0), 'b': z3.BoolVal(False)}
SORT = {'i': I, 'f': R, 'b': B}


def kind_of_sort(s):
    return 'i' if s == I else 'f' if s == R else 'b'


def _eq(a, b):
    return z3.eq(z3.simplify(a), z3.simplify(b))


_EPOCH = [0]     # bumped on every in-place array update: memoised element terms of (dynamic) views are then recomputed
_ASOF = [None]   # while the element closure of a DERIVED array is evaluated: the epoch at which that array was computed.  numpy computes
                 # a derived array (x[1:] * 2, x.copy(), mask.sum(axis=1) ...) when the expression is executed; the engine's closures are
                 # lazy, so a read that reaches another array (directly or through a view) must see that array AS IT WAS at that epoch,
                 # not as later in-place updates have left it.


def _memo(f):
    """memoise an element closure on the identity of its index terms (closures are re-entered many times by nested expressions)"""
    if getattr(f, '_is_memo', False):
        return f
    cache = {}
    ep = [_EPOCH[0]]

    def g(*ix):
        if ep[0] != _EPOCH[0]:
            cache.clear()
            ep[0] = _EPOCH[0]
        ix = tuple(i if z3.is_expr(i) else lift(i) for i in ix)
        key = (_ASOF[0],) + tuple(i.get_id() for i in ix)
        hit = cache.get(key)
        if hit is None:
            r = f(*ix)
            cache[key] = (r, ix)     # keep the index terms alive: ast ids are only unique among live terms
            return r
        return hit[0]
    g._is_memo = True
    return g


def _asof_wrap(f, T):
    """evaluate f with every array it reaches read as of epoch T"""
    if f is None or getattr(f, '_asof', None) is not None:
        return f
    m = _memo(f)

    def g(*ix):
        old = _ASOF[0]
        _ASOF[0] = T
        try:
            return m(*ix)
        finally:
            _ASOF[0] = old
    g._is_memo = True
    g._asof = T
    return g


def _now():
    """the epoch a value computed right now belongs to: the current one, or - while an older lazy closure is being evaluated - that closure's"""
    return _EPOCH[0] if _ASOF[0] is None else _ASOF[0]


def _version(hist):
    a = _ASOF[0]
    if a is None or hist[-1][0] <= a:
        return hist[-1][1]
    for ep, v in reversed(hist):
        if ep <= a:
            return v
    return hist[0][1]


def _install(hist, v):
    ep = _EPOCH[0]
    if hist and hist[-1][0] == ep:
        hist[-1] = (ep, v)
    else:
        hist.append((ep, v))


class SArr:
    """n-d array: shape = tuple of z3 Int terms (ndim concrete), element closure idx -> z3 term.

    nan     : optional closure idx -> Bool ("this float element is NaN"); None = no NaN anywhere
    member  : optional closure value -> Bool ("value occurs in this 1-d array"), set by np.where
    buf     : buffer identity for frame tracking; views share the identity of their base
    view_of : base array if this object is a view (writes through views are not modelled)
    """

    def __init__(self, shape, elem, kind, nan=None, member=None, buf=None, view_of=None, incr=False):
        self.shape_e = tuple(z3.simplify(lift(s)) for s in shape)
        self.view_of = view_of
        self._he, self._hn = [], []      # contents by epoch (see _ASOF)
        self.elem = elem
        self.kind = kind
        self.nan = nan
        self.member = member
        self.buf = buf if buf is not None else next(_buf_ids)
        self.incr = incr            # known strictly increasing (1-d int)
        self.sumfun = None          # optional ghost prefix-sum function (see npshim.sum)
        self.off = None             # for slice views: per-dim offsets into the base array (quantify in base coordinates)

    # -- contents: a view reads through its base dynamically; any other array holds what it held when it was computed / last stored to
    @property
    def elem(self):
        return _version(self._he)

    @elem.setter
    def elem(self, f):
        _install(self._he, _memo(f) if self.view_of is not None else _asof_wrap(f, _now()))

    @property
    def nan(self):
        return _version(self._hn)

    @nan.setter
    def nan(self, f):
        _install(self._hn, None if f is None else (_memo(f) if self.view_of is not None else _asof_wrap(f, _now())))

    # -- basic attributes
    @property
    def shape(self):
        return tuple(_c_or_s(s) for s in self.shape_e)

    @property
    def ndim(self):
        return len(self.shape_e)

    @property
    def size(self):
        r = z3.IntVal(1)
        for s in self.shape_e:
            r = r * s
        return _c_or_s(z3.simplify(r))

    @property
    def T(self):
        if self.ndim == 1:
            return self
        if self.ndim == 2:
            return SArr((self.shape_e[1], self.shape_e[0]), lambda i, j: self.elem(j, i), self.kind,
                        nan=(None if self.nan is None else (lambda i, j: self.nan(j, i))), buf=self.buf, view_of=self)
        raise Unsupported('transpose ndim>2')

    @property
    def dtype(self):
        return {'i': int, 'f': float, 'b': bool}[self.kind]

    def __len__(self):
        c = concrete(self.shape_e[0])
        if c is None:
            raise Unsupported('len() of symbolic-length array must go through the shadowed len')
        return c

    def __bool__(self):
        raise Unsupported('truth value of a symbolic array')

    def __iter__(self):
        c = concrete(self.shape_e[0])
        if c is None:
            raise Unsupported('iteration over symbolic-length array')
        return iter([self[k] for k in range(c)])

    def fresh_like(self, name, kind=None):
        c = C()
        kind = kind or self.kind
        f = c.fresh_fun(name, *([I] * self.ndim + [SORT[kind]]))
        nanf = None
        if kind == 'f' and self.nan is not None:
            g = c.fresh_fun(name + '_nan', *([I] * self.ndim + [B]))
            nanf = lambda *ix: g(*ix)
        # a havoc changes the contents, not the identity of the buffer
        # (for a view the alias relation to its base is dropped: only the identity needed for frame tracking is kept)
        return SArr(self.shape_e, lambda *ix: f(*ix), kind, nan=nanf, buf=self.buf)

    def copy(self):
        return SArr(self.shape_e, self.elem, self.kind, nan=self.nan, member=self.member, incr=self.incr)

    def astype(self, t, copy=True):
        k = kind_of_dtype(t)
        if k is None:
            raise Unsupported('astype %r' % (t,))
        if k == self.kind:
            # (ASSUMED numpy contract: a new array - unless copy=False and the dtype already matches, then the SAME array: an alias)
            return self if copy is False else self.copy()
        old = self.elem
        if self.kind == 'i' and k == 'f':
            return SArr(self.shape_e, lambda *ix: z3.ToReal(old(*ix)), 'f')
        if self.kind == 'b' and k == 'i':
            return SArr(self.shape_e, lambda *ix: z3.If(old(*ix), z3.IntVal(1), z3.IntVal(0)), 'i')
        if self.kind == 'b' and k == 'f':
            return SArr(self.shape_e, lambda *ix: z3.If(old(*ix), z3.RealVal(1), z3.RealVal(0)), 'f')
        if self.kind == 'f' and k == 'i':
            if self.nan is not None:
                C().oblige('astype-int-of-nan-free', z3.BoolVal(False), 'safety', 'float array that may hold NaN cast to int')
            # truncation toward zero
            def tr(*ix):
                v = old(*ix)
                return z3.If(v >= 0, z3.ToInt(v), -z3.ToInt(-v))
            return SArr(self.shape_e, tr, 'i')
        if k == 'b':
            return SArr(self.shape_e, lambda *ix: old(*ix) != 0, 'b')
        raise Unsupported('astype %s->%s' % (self.kind, k))

    # -- element-wise machinery
    def _bshape(self, o):
        """broadcast shapes; returns (shape, mapper_self, mapper_other)"""
        a, b = self.shape_e, o.shape_e
        n = max(len(a), len(b))
        pa = (None,) * (n - len(a)) + tuple(a)
        pb = (None,) * (n - len(b)) + tuple(b)
        shape = []
        ma, mb = [], []
        for d, (x, y) in enumerate(zip(pa, pb)):
            if x is None:
                shape.append(y); ma.append(None); mb.append('id')
            elif y is None:
                shape.append(x); ma.append('id'); mb.append(None)
            elif _eq(x, y):
                shape.append(x); ma.append('id'); mb.append('id')
            elif concrete(x) == 1:
                shape.append(y); ma.append(0); mb.append('id')
            elif concrete(y) == 1:
                shape.append(x); ma.append('id'); mb.append(0)
            elif Ctx.cur is not None and not Ctx.spec and concrete(y) is None and C().entails(y == 1):
                shape.append(x); ma.append('id'); mb.append(0)
            elif Ctx.cur is not None and not Ctx.spec and concrete(x) is None and C().entails(x == 1):
                shape.append(y); ma.append(0); mb.append('id')
            else:
                C().oblige('broadcast-shapes-agree', x == y, 'safety')
                shape.append(x); ma.append('id'); mb.append('id')

        def mk(m):
            def f(ix):
                out = []
                for mm, i in zip(m, ix):
                    if mm is None:
                        continue
                    out.append(z3.IntVal(0) if mm == 0 else i)
                return out
            return f
        return tuple(shape), mk(ma), mk(mb)

    def _ew(self, o, f, kind=None, swap=False, nanprop=True):
        if isinstance(o, (list, tuple)):
            raise Unsupported('array op with python sequence')
        if isinstance(o, SArr):
            shape, ma, mb = self._bshape(o)
            ea, eb = self.elem, o.elem

            def elem(*ix):
                a, b = coerce2(ea(*ma(ix)), eb(*mb(ix)))
                return f(b, a) if swap else f(a, b)
            k = kind or ('f' if 'f' in (self.kind, o.kind) else 'i' if 'i' in (self.kind, o.kind) else 'b')
            nan = None
            if nanprop and (self.nan is not None or o.nan is not None):
                na, nb = self.nan, o.nan
                nan = lambda *ix: z3.Or(na(*ma(ix)) if na else False, nb(*mb(ix)) if nb else False)
            return SArr(shape, elem, k, nan=nan)
        if o is None:
            return NotImplemented
        oe = lift(o)
        ea = self.elem

        def elem(*ix):
            a, b = coerce2(ea(*ix), oe)
            return f(b, a) if swap else f(a, b)
        k = kind or ('f' if (self.kind == 'f' or oe.sort() == R) else 'i' if (self.kind == 'i' or oe.sort() == I) else 'b')
        r = SArr(self.shape_e, elem, k, nan=self.nan if nanprop else None)
        r.off = self.off
        return r

    def __add__(self, o):
        if self.kind == 'b' and isinstance(o, SArr) and o.kind == 'b':
            return self | o          # numpy: bool + bool is logical or
        return self._ew(o, lambda a, b: a + b)
    def __radd__(self, o): return self._ew(o, lambda a, b: a + b, swap=True)
    def __sub__(self, o): return self._ew(o, lambda a, b: a - b)
    def __rsub__(self, o): return self._ew(o, lambda a, b: a - b, swap=True)
    def __mul__(self, o):
        if isinstance(o, float) and o != o:
            return SArr(self.shape_e, self.elem if self.kind == 'f' else (lambda *ix: z3.ToReal(self.elem(*ix)) if self.kind == 'i' else z3.RealVal(0)),
                        'f', nan=lambda *ix: z3.BoolVal(True))
        if self.kind == 'b' and isinstance(o, SArr) and o.kind == 'b':
            return self & o
        if self.kind == 'b':
            return self._bool_to_int() * o
        return self._ew(o, lambda a, b: a * b)
    def __rmul__(self, o):
        if isinstance(o, float) and o != o:
            return self.__mul__(o)
        return self._ew(o, lambda a, b: a * b, swap=True)

    def _bool_to_int(self):
        old = self.elem
        return SArr(self.shape_e, lambda *ix: z3.If(old(*ix), z3.IntVal(1), z3.IntVal(0)), 'i')

    def __truediv__(self, o):
        self._div_obl(o)
        return self._ew(o, lambda a, b: to_real(a) / to_real(b), kind='f')

    def __rtruediv__(self, o):
        self._div_obl(self, rev=True)
        return self._ew(o, lambda a, b: to_real(a) / to_real(b), kind='f', swap=True)

    def _div_obl(self, o, rev=False):
        if Ctx.spec:
            return
        c = C()
        if isinstance(o, SArr):
            ix = [c.fresh('dv', I) for _ in o.shape_e]
            rng = z3.And(*[z3.And(0 <= i, i < n) for i, n in zip(ix, o.shape_e)])
            c.obl.append(Obligation('division-by-nonzero', list(c.pc) + [rng], to_real(o.elem(*ix)) != 0, 'safety', list(c.prefix[:c.pos])))
        else:
            c.oblige('division-by-nonzero', to_real(lift(o)) != 0, 'safety')

    def __mod__(self, o):
        """ASSUMED contract of the real % with a positive scalar modulus m: result r in [0, m) with a = q*m + r for an integer q"""
        if isinstance(o, SArr) or self.nan is not None:
            raise Unsupported('array % array / NaN')
        m = to_real(lift(o))
        c = C()
        if not Ctx.spec:
            c.oblige('modulus-positive', m > 0, 'safety')
        Rf = c.fresh_fun('modr', *([I] * self.ndim + [R]))
        Qf = c.fresh_fun('modq', *([I] * self.ndim + [I]))
        ix = [z3.Int('mi%d' % d) for d in range(self.ndim)]
        rng = z3.And(*[z3.And(0 <= i, i < n) for i, n in zip(ix, self.shape_e)])
        a = to_real(self.elem(*ix))
        c.assume(z3.ForAll(ix, z3.Implies(rng, z3.And(Rf(*ix) >= 0, Rf(*ix) < m, a == z3.ToReal(Qf(*ix)) * m + Rf(*ix))), patterns=[Rf(*ix)]), feas=False)
        return SArr(self.shape_e, lambda *jx: Rf(*jx), 'f')

    def __neg__(self):
        r = SArr(self.shape_e, lambda *ix: -self.elem(*ix), self.kind, nan=self.nan)
        r.off = self.off
        return r

    def __pow__(self, o):
        c = concrete(o)
        if c == 2:
            r = SArr(self.shape_e, lambda *ix: self.elem(*ix) * self.elem(*ix), self.kind, nan=self.nan)
            g = getattr(self, 'gather_of', None)
            if g is not None:
                r.gather_of = (g[0] ** 2, g[1])
            return r
        if c == 1:
            return self.copy()
        return self._ew(o, lambda a, b: upow(to_real(a), to_real(b)), kind='f')

    def _half(self, r, op, o):
        # comparison of an affine index array (np.arange) with a scalar: remember the half-line it describes
        aff = getattr(self, 'affine', None)
        if aff is not None and not isinstance(o, SArr):
            try:
                r.halfline = (op, aff, lift(o), self.shape_e[0])
            except Unsupported:
                pass
        return r

    def __gt__(self, o): return self._half(self._ew(o, lambda a, b: a > b, 'b', nanprop=False)._cmpnan(self, o), 'gt', o)
    def __lt__(self, o): return self._half(self._ew(o, lambda a, b: a < b, 'b', nanprop=False)._cmpnan(self, o), 'lt', o)
    def __ge__(self, o): return self._half(self._ew(o, lambda a, b: a >= b, 'b', nanprop=False)._cmpnan(self, o), 'ge', o)
    def __le__(self, o): return self._half(self._ew(o, lambda a, b: a <= b, 'b', nanprop=False)._cmpnan(self, o), 'le', o)

    def _cmp_inf(self, o, result):
        """integer array compared with +-inf: exact (an integer is never infinite); the all-True mask is remembered so that
        boolean indexing with it is the identity"""
        if isinstance(o, float) and o in (float('inf'), float('-inf')) and self.kind == 'i':
            r = SArr(self.shape_e, lambda *ix: z3.BoolVal(result), 'b')
            r.alltrue = result
            return r
        return None

    def __eq__(self, o):
        if o is None:
            return False
        r = self._cmp_inf(o, False)
        if r is not None:
            return r
        if self.kind == 'b' or (isinstance(o, SArr) and o.kind == 'b') or isinstance(o, (bool, SBool)):
            return self._ew(o, lambda a, b: _beq(a, b), 'b', nanprop=False)
        return self._ew(o, lambda a, b: a == b, 'b', nanprop=False)._cmpnan(self, o)

    def __ne__(self, o):
        if o is None:
            return True
        r = self._cmp_inf(o, True)
        if r is not None:
            return r
        r = self._ew(o, lambda a, b: a != b, 'b', nanprop=False)
        # nan != x is True
        nans = [x.nan for x in (self, o) if isinstance(x, SArr) and x.nan is not None]
        if nans:
            raise Unsupported('!= on arrays that may hold NaN')
        return r

    def _cmpnan(self, a, b):
        """comparisons with NaN are False"""
        srcs = [x for x in (a, b) if isinstance(x, SArr) and x.nan is not None]
        if not srcs:
            return self
        if len(srcs) == 2 or any(x.shape_e != self.shape_e for x in srcs):
            raise Unsupported('comparison of broadcast NaN arrays')
        nanf = srcs[0].nan
        old = self.elem
        return SArr(self.shape_e, lambda *ix: z3.And(z3.Not(nanf(*ix)), old(*ix)), 'b')

    def __invert__(self):
        if self.kind != 'b':
            raise Unsupported('~ on non-bool array')
        r = SArr(self.shape_e, lambda *ix: z3.Not(self.elem(*ix)), 'b')
        r.off = self.off
        return r

    def __and__(self, o):
        r = self._ew(o, lambda a, b: z3.And(_asb(a), _asb(b)), 'b')
        ha, hb = getattr(self, 'halfline', None), getattr(o, 'halfline', None)
        if ha is not None and hb is not None and _eq(ha[1], hb[1]) and _eq(ha[3], hb[3]):
            r.interval = _interval_of(ha, hb)
        return r
    def __or__(self, o): return self._ew(o, lambda a, b: z3.Or(_asb(a), _asb(b)), 'b')
    __hash__ = None

    # -- in-place arithmetic (numpy mutates the buffer)
    def _inplace(self, r):
        self._write_check()
        if r.kind != self.kind:
            raise Unsupported('in-place op changing dtype')
        e, n = self._rhs_before_store(r)        # the new contents are computed from the OLD ones
        self._store(e, n)
        return self

    def __iadd__(self, o): return self._inplace(self + o)
    def __isub__(self, o): return self._inplace(self - o)
    def __imul__(self, o): return self._inplace(self * o)
    def __itruediv__(self, o): return self._inplace(self / o)
    def __ipow__(self, o): return self._inplace(self ** o)
    def __imod__(self, o): return self._inplace(self % o)
    def __iand__(self, o): return self._inplace(self & o)
    def __ior__(self, o): return self._inplace(self | o)

    def _write_check(self):
        c = C()
        if self.buf in c.frame_inputs:
            c.obl.append(Obligation('frame:no-write-to-input-buffer', list(c.pc), z3.BoolVal(False), 'frame', list(c.prefix[:c.pos]),
                                    note='an in-place write reaches a buffer that aliases an argument'))
            c.ghost['frame_writes'] = c.ghost.get('frame_writes', 0) + 1
        if self.view_of is not None and getattr(self, 'view_plan', None) is None:
            raise Unsupported('write through a view that is not a basic-indexing view')

    # -- indexing
    def _plan(self, key, for_set=False):
        if not isinstance(key, tuple):
            key = (key,)
        # expand Ellipsis
        if any(k is Ellipsis for k in key):
            n_real = sum(1 for k in key if k is not None and k is not Ellipsis)
            out = []
            for k in key:
                if k is Ellipsis:
                    out.extend([slice(None)] * (self.ndim - n_real))
                else:
                    out.append(k)
            key = tuple(out)
        plan = []
        src = 0
        c = C() if not Ctx.spec else None
        for k in key:
            if k is None:
                plan.append(('new',))
                continue
            if src >= self.ndim:
                raise ModelledIndexError('too many indices for array: array is %d-dimensional, but %d were indexed' % (self.ndim, len([q for q in key if q is not None])))
            n = self.shape_e[src]
            if isinstance(k, slice):
                if k.step is not None:
                    raise Unsupported('slice step')
                if k.start is None and k.stop is None:
                    plan.append(('slice', z3.IntVal(0), n))
                else:
                    lo = z3.IntVal(0) if k.start is None else lift(k.start)
                    hi = n if k.stop is None else lift(k.stop)
                    # negative bounds count from the end (python semantics)
                    clo, chi = concrete(lo), concrete(hi)
                    if clo is not None and clo < 0:
                        lo = n + lo
                    elif clo is None:
                        lo = _name(c, lo)
                        if not (c is not None and c.entails(lo >= 0)):
                            lo = z3.If(lo < 0, n + lo, lo)
                    if chi is not None and chi < 0:
                        hi = n + hi
                    elif chi is None:
                        hi = _name(c, hi)
                        if not (c is not None and c.entails(hi >= 0)):
                            hi = z3.If(hi < 0, n + hi, hi)
                    lo, hi = z3.simplify(lo), z3.simplify(hi)
                    if c is not None:
                        # numpy would silently clip: a clipped or empty-by-inversion slice hides defects
                        c.oblige('slice-well-formed', z3.And(0 <= lo, lo <= hi, hi <= n), 'safety')
                    plan.append(('slice', lo, hi))
                src += 1
                continue
            if isinstance(k, SArr):
                if k.kind == 'b':
                    plan.append(('mask', k))
                    src += k.ndim
                else:
                    plan.append(('fancy', k))
                    src += 1
                continue
            if isinstance(k, (list, tuple)):
                from . import npshim as _ns
                plan.append(('fancy', _ns.array(list(k))))
                src += 1
                continue
            if isinstance(k, SymList):
                from . import npshim as _ns
                plan.append(('fancy', _ns.array(k)))
                src += 1
                continue
            ke = lift(k)
            if ke.sort() != I:
                raise Unsupported('non-integer index')
            if c is not None:
                c.oblige('index-in-bounds', z3.And(-n <= ke, ke < n), 'safety')
            ck = concrete(ke)
            if ck is not None:
                plan.append(('int', z3.simplify(n + ke) if ck < 0 else ke))
            elif c is not None and c.entails(ke >= 0):
                plan.append(('int', ke))
            elif c is not None and c.entails(ke < 0):
                plan.append(('int', z3.simplify(ke + n)))
            else:
                plan.append(('int', z3.If(ke < 0, ke + n, ke)))
            src += 1
        while src < self.ndim:
            plan.append(('slice', z3.IntVal(0), self.shape_e[src]))
            src += 1
        return plan

    def __getitem__(self, key):
        plan = self._plan(key)
        kinds = [p[0] for p in plan]
        if 'mask' in kinds or 'fancy' in kinds:
            return self._adv_get(plan)
        shape = []
        for p in plan:
            if p[0] == 'new':
                shape.append(z3.IntVal(1))
            elif p[0] == 'slice':
                shape.append(z3.simplify(p[2] - p[1]))
        base, basenan = self.elem, self.nan

        def srcix(ix):
            ix = list(ix)
            out = []
            for p in plan:
                if p[0] == 'new':
                    ix.pop(0)
                elif p[0] == 'slice':
                    i = ix.pop(0)
                    out.append(i if concrete(p[1]) == 0 else i + p[1])
                else:
                    out.append(p[1])
            return out
        if not shape:
            if basenan is not None and not Ctx.spec:
                # scalar read of a possibly-NaN element
                return SNan(base(*srcix(())), basenan(*srcix(())))
            val = base(*srcix(()))
            if not Ctx.spec and Ctx.cur is not None and _size_exceeds(val, 12):
                v = C().fresh('rd', val.sort())
                C().assume(v == val)
                return wrap(v)
            return wrap(val)
        me = self
        # a basic-indexing view: reads go through the base array *as it is when read*, writes are pushed back to it
        r = SArr(tuple(shape), lambda *ix: me.elem(*srcix(ix)), self.kind,
                 nan=(None if basenan is None else (lambda *ix: (me.nan(*srcix(ix)) if me.nan is not None else z3.BoolVal(False)))), buf=self.buf, view_of=self)
        r.view_plan = plan
        if self.incr and len(plan) == 1 and plan[0][0] == 'slice':
            r.incr = True
        offs = [p[1] for p in plan if p[0] in ('slice', 'new')] if all(p[0] != 'new' for p in plan) else None
        if offs is not None and any(concrete(o) != 0 for o in offs):
            r.off = offs
        return r

    def _adv_get(self, plan):
        from . import npshim
        if len(plan) == 1 and plan[0][0] == 'mask' and plan[0][1].ndim == 1 and self.ndim == 1 and getattr(plan[0][1], 'alltrue', None) is True:
            if not Ctx.spec and not _eq(plan[0][1].shape_e[0], self.shape_e[0]):
                C().oblige('mask-shape-agrees', plan[0][1].shape_e[0] == self.shape_e[0], 'safety')
            return self.copy()          # indexing with an all-True mask: a copy of the array
        if len(plan) == 1 and plan[0][0] == 'mask' and plan[0][1].ndim == 1 and self.ndim == 1:
            idx = npshim.where(plan[0][1])[0]
            return self._gather1(idx)
        if plan[0][0] == 'mask' and plan[0][1].ndim == 1 and all(p[0] == 'slice' and concrete(p[1]) == 0 and _eq(p[2], self.shape_e[1 + i]) for i, p in enumerate(plan[1:])):
            idx = npshim.where(plan[0][1])[0]
            return self._gather_rows(idx)
        if len(plan) == 1 and plan[0][0] == 'fancy' and self.ndim == 1:
            return self._gather1(plan[0][1])
        if plan[0][0] == 'fancy' and plan[0][1].ndim == 1 and all(p[0] in ('slice', 'int', 'new') for p in plan[1:]):
            rows = self._gather_rows(plan[0][1])
            rest = tuple([slice(None)] + [_plan_to_key(p) for p in plan[1:]])
            with SpecMode():
                return rows[rest]
        if plan[-1][0] == 'mask' and plan[-1][1].ndim == 1 and all(p[0] == 'int' for p in plan[:-1]) is False and len(plan) == 2 and plan[0][0] in ('slice',):
            raise Unsupported('mask on trailing axis with leading slice')
        if len(plan) == 2 and plan[0][0] == 'mask' and plan[1][0] == 'int' and self.ndim == 2:
            # a[mask, j]
            col = SArr((self.shape_e[0],), lambda i: self.elem(i, plan[1][1]), self.kind,
                       nan=(None if self.nan is None else (lambda i: self.nan(i, plan[1][1]))))
            with SpecMode():
                return col._adv_get([plan[0]])
        raise Unsupported('advanced indexing pattern %s' % ([p[0] for p in plan],))

    def _gather1(self, idx):
        if idx.kind != 'i':
            raise Unsupported('gather with non-int index array')
        n = self.shape_e[0]
        if not Ctx.spec:
            c = C()
            ix = [c.fresh('gi', I) for _ in idx.shape_e]
            rng = z3.And(*[z3.And(0 <= i, i < m) for i, m in zip(ix, idx.shape_e)])
            v = idx.elem(*ix)
            c.obl.append(Obligation('fancy-index-in-bounds', list(c.pc) + [rng], z3.And(-n <= v, v < n), 'safety', list(c.prefix[:c.pos])))
        base, basenan = self.elem, self.nan
        nonneg = getattr(idx, 'nonneg', False)

        def nrm(v):
            return v if nonneg else z3.If(v < 0, v + n, v)
        r = SArr(idx.shape_e, lambda *ix: base(nrm(idx.elem(*ix))), self.kind,
                 nan=(None if basenan is None else (lambda *ix: basenan(nrm(idx.elem(*ix))))))
        r.gather_of = (self, idx)
        return r

    def _gather_rows(self, idx):
        n = self.shape_e[0]
        if not Ctx.spec:
            c = C()
            i = c.fresh('gi', I)
            v = idx.elem(i)
            c.obl.append(Obligation('fancy-index-in-bounds', list(c.pc) + [z3.And(0 <= i, i < idx.shape_e[0])], z3.And(-n <= v, v < n), 'safety', list(c.prefix[:c.pos])))
        base, basenan = self.elem, self.nan
        nonneg = getattr(idx, 'nonneg', False)

        def nrm(v):
            return v if nonneg else z3.If(v < 0, v + n, v)
        r = SArr((idx.shape_e[0],) + self.shape_e[1:], lambda i, *rest: base(nrm(idx.elem(i)), *rest), self.kind,
                 nan=(None if basenan is None else (lambda i, *rest: basenan(nrm(idx.elem(i)), *rest))))
        r.row_idx = idx            # rows gathered through this index array (SymSet.extend states membership per selected row)
        return r

    def __setitem__(self, key, val):
        self._write_check()
        plan = self._plan(key, for_set=True)
        if any(p[0] == 'new' for p in plan):
            raise Unsupported('newaxis in assignment target')
        old, oldnan = self._snapshot()
        n_adv = [p for p in plan if p[0] in ('mask', 'fancy')]
        # the value
        vnan = None
        if isinstance(val, SArr):
            vkind = val.kind
        elif isinstance(val, SNan):
            vkind = 'f'
        elif isinstance(val, float) and val != val:
            vkind = 'f'
        else:
            ve = lift(val)
            vkind = kind_of_sort(ve.sort())
        if vkind == 'f' and self.kind == 'i':
            raise Unsupported('float stored into int array')

        def conv(e):
            if self.kind == 'f':
                return to_real(e) if e.sort() != B else z3.If(e, z3.RealVal(1), z3.RealVal(0))
            if self.kind == 'i' and e.sort() == B:
                return z3.If(e, z3.IntVal(1), z3.IntVal(0))
            if self.kind == 'b' and e.sort() != B:
                return e != 0
            return e

        if len(n_adv) > 1:
            raise Unsupported('several advanced indices in assignment')
        if n_adv:
            p = n_adv[0]
            pos = plan.index(p)
            if p[0] == 'mask':
                m = p[1]
                if m.ndim == self.ndim and len(plan) == 1:
                    cond = lambda ix: m.elem(*ix)
                elif m.ndim == 1:
                    cond = lambda ix: m.elem(ix[pos])
                else:
                    raise Unsupported('mask assignment pattern')
                if not Ctx.spec:
                    for a, b in zip(m.shape_e, self.shape_e[pos:pos + m.ndim]):
                        if not _eq(a, b):
                            C().oblige('mask-shape-agrees', a == b, 'safety')
            else:
                idx = p[1]
                if idx.ndim != 1:
                    raise Unsupported('n-d fancy assignment')
                nn = self.shape_e[pos]
                if not Ctx.spec:
                    c = C()
                    i = c.fresh('si', I)
                    v = idx.elem(i)
                    c.obl.append(Obligation('fancy-index-in-bounds', list(c.pc) + [z3.And(0 <= i, i < idx.shape_e[0])], z3.And(-nn <= v, v < nn), 'safety', list(c.prefix[:c.pos])))
                if idx.member is not None:
                    cond = lambda ix: idx.member(ix[pos])
                else:
                    q = z3.Int('fq%d' % next(_buf_ids))
                    cond = lambda ix: z3.Exists([q], z3.And(0 <= q, q < idx.shape_e[0], idx.elem(q) == ix[pos]))
            if isinstance(val, SArr):
                if p[0] == 'fancy' and val.ndim == 1 and len(plan) == 1 and idx.incr:
                    # out[inds] = vals  with strictly increasing inds: element k of vals lands at inds[k]
                    if not Ctx.spec and not _eq(val.shape_e[0], idx.shape_e[0]):
                        C().oblige('assign-shapes-agree', val.shape_e[0] == idx.shape_e[0], 'safety')
                    inv = C().fresh_fun('invidx', I, I)
                    q = z3.Int('iq%d' % next(_buf_ids))
                    C().assume(z3.ForAll([q], z3.Implies(z3.And(0 <= q, q < idx.shape_e[0]), inv(idx.elem(q)) == q), patterns=[idx.elem(q)]))
                    vfun = lambda ix: conv(val.elem(inv(ix[0])))
                    vnanf = (lambda ix: val.nan(inv(ix[0]))) if val.nan is not None else None
                elif p[0] == 'fancy' and val.ndim == 1 and len(plan) == 1 and val.nan is None and not Ctx.spec:
                    # out[inds] = vals  with an arbitrary index list (repeats allowed): position r is written iff r occurs in inds, and it
                    # then holds vals[q] for SOME q with inds[q] == r  (numpy: the last such q - an over-approximation, sound for proofs)
                    c = C()
                    if not _eq(val.shape_e[0], idx.shape_e[0]):
                        c.oblige('assign-shapes-agree', val.shape_e[0] == idx.shape_e[0], 'safety')
                    HAS = c.fresh_fun('sthas', I, B)
                    JL = c.fresh_fun('stq', I, I)
                    q = z3.Int('sq%d' % next(_buf_ids))
                    r_ = z3.Int('sr%d' % next(_buf_ids))
                    nonneg = getattr(idx, 'nonneg', False)
                    nrm = (lambda v: v) if nonneg else (lambda v: z3.If(v < 0, v + nn, v))
                    tq = idx.elem(q)
                    c.assume(z3.ForAll([q], z3.Implies(z3.And(0 <= q, q < idx.shape_e[0]), HAS(nrm(tq))), patterns=[tq] if _pat_ok_core(tq, [q]) else []))
                    c.assume(z3.ForAll([r_], z3.Implies(HAS(r_), z3.And(0 <= JL(r_), JL(r_) < idx.shape_e[0], nrm(idx.elem(JL(r_))) == r_)), patterns=[HAS(r_)]))
                    cond = lambda ix: HAS(ix[pos])
                    velem_, _vn = self._rhs_before_store(val)
                    vfun = lambda ix: conv(velem_(JL(ix[0])))
                    vnanf = None
                else:
                    raise Unsupported('array value in advanced assignment')
            elif isinstance(val, SNan):
                vfun = lambda ix: conv(val.e)
                vnanf = lambda ix: val.isnan
            elif isinstance(val, float) and val != val:
                vfun = lambda ix: z3.RealVal(0)
                vnanf = lambda ix: z3.BoolVal(True)
            else:
                vfun = lambda ix: conv(ve)
                vnanf = None
            others = [(d, q) for d, q in enumerate(plan) if q is not p]

            def full(ix):
                cs = [cond(ix)]
                for d, q in others:
                    dd = d if d < pos else d + (p[1].ndim - 1 if p[0] == 'mask' else 0)
                    cs.append(z3.And(q[1] <= ix[dd], ix[dd] < q[2]) if q[0] == 'slice' else ix[dd] == q[1])
                return z3.And(*cs)
            nn = None
            if vnanf is not None or oldnan is not None:
                nn = lambda *ix: z3.If(full(ix), vnanf(ix) if vnanf else z3.BoolVal(False), oldnan(*ix) if oldnan else z3.BoolVal(False))
            self._store(lambda *ix: z3.If(full(ix), vfun(ix), old(*ix)), nn)
            return

        # basic indexing
        def inregion(ix):
            cs = []
            for p, i in zip(plan, ix):
                if p[0] == 'slice':
                    if concrete(p[1]) == 0 and any(_eq(p[2], s) for s in self.shape_e):
                        continue
                    cs.append(z3.And(p[1] <= i, i < p[2]))
                else:
                    cs.append(i == p[1])
            return z3.And(*cs) if cs else z3.BoolVal(True)

        if isinstance(val, SArr):
            # target region shape (dims with slices) must match val (with broadcasting of leading dims)
            tdims = [d for d, p in enumerate(plan) if p[0] == 'slice']
            tshape = [z3.simplify(plan[d][2] - plan[d][1]) for d in tdims]
            vshape = list(val.shape_e)
            if len(vshape) > len(tshape):
                # drop leading singleton dims of value
                while len(vshape) > len(tshape) and concrete(vshape[0]) == 1:
                    vshape.pop(0)
                if len(vshape) != len(tshape):
                    C().oblige('assign-shapes-agree', z3.BoolVal(False), 'safety')
                    raise EndPath()
            off = len(tshape) - len(vshape)
            lead = val.ndim - len(vshape)
            bc = []
            for j, vs in enumerate(vshape):
                ts = tshape[off + j]
                if _eq(ts, vs):
                    bc.append(False)
                elif concrete(vs) == 1:
                    bc.append(True)
                else:
                    if not Ctx.spec:
                        C().oblige('assign-shapes-agree', ts == vs, 'safety')
                    bc.append(False)

            def vix(ix):
                out = [z3.IntVal(0)] * lead
                for j in range(len(vshape)):
                    d = tdims[off + j]
                    out.append(z3.IntVal(0) if bc[j] else z3.simplify(ix[d] - plan[d][1]))
                return out
            velem, vn = self._rhs_before_store(val)
            nn = None
            if vn is not None or oldnan is not None:
                nn = lambda *ix: z3.If(inregion(ix), vn(*vix(ix)) if vn else z3.BoolVal(False), oldnan(*ix) if oldnan else z3.BoolVal(False))
            self._store(lambda *ix: z3.If(inregion(ix), conv(velem(*vix(ix))), old(*ix)), nn)
        elif isinstance(val, SNan):
            self._store(lambda *ix: z3.If(inregion(ix), conv(val.e), old(*ix)),
                        lambda *ix: z3.If(inregion(ix), val.isnan, oldnan(*ix) if oldnan else z3.BoolVal(False)))
        elif isinstance(val, float) and val != val:
            self._store(old, lambda *ix: z3.If(inregion(ix), z3.BoolVal(True), oldnan(*ix) if oldnan else z3.BoolVal(False)))
        else:
            v = conv(ve)
            self._store(lambda *ix: z3.If(inregion(ix), v, old(*ix)),
                        (lambda *ix: z3.If(inregion(ix), z3.BoolVal(False), oldnan(*ix))) if oldnan is not None else None)

    def _rhs_before_store(self, val):
        """numpy evaluates the right-hand side before it assigns.  Element closures are lazy, and a value computed from a view of
        the target (X[:, i] = X[:, i] / env) would read the target AFTER the store.  If evaluating the value touches the target's
        buffer, the value is frozen now: its element term at fresh index variables, instantiated by substitution later."""
        root = self
        while root.view_of is not None and getattr(root, 'view_plan', None) is not None:
            root = root.view_of
        touched = [False]
        orig_e, orig_n = root.elem, root.nan

        def spy_e(*ix):
            touched[0] = True
            return orig_e(*ix)
        spy_n = None
        if orig_n is not None:
            def spy_n(*ix):
                touched[0] = True
                return orig_n(*ix)
        qs = [z3.Int('rhsq%d_%d' % (next(_buf_ids), d)) for d in range(val.ndim)]
        root.elem, root.nan = spy_e, spy_n
        try:
            te = val.elem(*qs)
            tn = val.nan(*qs) if val.nan is not None else None
        finally:
            root.elem, root.nan = orig_e, orig_n
            _EPOCH[0] += 1        # element terms memoised while the spy was installed are dropped
        if not touched[0]:
            return val.elem, val.nan

        def inst(t):
            return lambda *ix: z3.substitute(t, *[(q, lift(i)) for q, i in zip(qs, ix)])
        return inst(te), (inst(tn) if tn is not None else None)

    def _store(self, newelem, newnan):
        """install new contents; for a basic-indexing view the update is written through to the base array"""
        _EPOCH[0] += 1
        if self.view_of is None or getattr(self, 'view_plan', None) is None:
            self.elem, self.nan = _memo(newelem), (_memo(newnan) if newnan is not None else None)
            return
        base, plan = self.view_of, self.view_plan
        oldb, oldbn = base.elem, base.nan

        def split(bx):
            # base index -> (condition that it lies in the view's image, corresponding view index)
            conds, vix = [], []
            bi = 0
            for p in plan:
                if p[0] == 'new':
                    vix.append(z3.IntVal(0))
                elif p[0] == 'slice':
                    b = bx[bi]
                    bi += 1
                    if not (concrete(p[1]) == 0 and _eq(p[2], base.shape_e[bi - 1])):
                        conds.append(z3.And(p[1] <= b, b < p[2]))
                    vix.append(b if concrete(p[1]) == 0 else z3.simplify(b - p[1]))
                else:
                    b = bx[bi]
                    bi += 1
                    conds.append(b == p[1])
            return (z3.And(*conds) if conds else z3.BoolVal(True)), vix

        def belem(*bx):
            cnd, vix = split(bx)
            return newelem(*vix) if z3.is_true(cnd) else z3.If(cnd, newelem(*vix), oldb(*bx))
        bnan = None
        if newnan is not None or oldbn is not None:
            def bnan(*bx):
                cnd, vix = split(bx)
                return z3.If(cnd, newnan(*vix) if newnan is not None else z3.BoolVal(False), oldbn(*bx) if oldbn is not None else z3.BoolVal(False))
        base._store(belem, bnan)

    def _snapshot(self):
        """current contents as closures that do not change when the array is written afterwards"""
        if self.view_of is None or getattr(self, 'view_plan', None) is None:
            return self.elem, self.nan
        e, n = self.elem, self.nan
        # a view's closures dereference the base dynamically: freeze the base first
        be, bn = self.view_of._snapshot()
        plan = self.view_plan

        def srcix(ix):
            ix = list(ix)
            out = []
            for p in plan:
                if p[0] == 'new':
                    ix.pop(0)
                elif p[0] == 'slice':
                    i = ix.pop(0)
                    out.append(i if concrete(p[1]) == 0 else i + p[1])
                else:
                    out.append(p[1])
            return out
        return (lambda *ix: be(*srcix(ix))), (None if bn is None else (lambda *ix: bn(*srcix(ix))))

    # -- reductions and methods (delegated to the numpy shim so that the assumed contract lives in one place)
    def sum(self, axis=None, keepdims=False):
        from . import npshim
        return npshim.sum(self, axis=axis, keepdims=keepdims)

    def mean(self, axis=None):
        from . import npshim
        return npshim.mean(self, axis=axis)

    def std(self, axis=None):
        from . import npshim
        return npshim.std(self, axis=axis)

    def max(self, axis=None):
        from . import npshim
        return npshim.amax(self, axis=axis)

    def min(self, axis=None):
        from . import npshim
        return npshim.amin(self, axis=axis)

    def any(self, axis=None):
        from . import npshim
        return npshim.any_(self, axis=axis)

    def all(self, axis=None):
        from . import npshim
        return npshim.all_(self, axis=axis)

    def reshape(self, *shape):
        from . import npshim
        return npshim.reshape(self, shape[0] if len(shape) == 1 else shape)

    def squeeze(self, axis=None):
        from . import npshim
        return npshim.squeeze(self, axis=axis)

    def flatten(self, order='C'):
        from . import npshim
        if order != 'C':
            raise Unsupported('flatten order %r (memory layout is not modelled)' % (order,))
        return npshim.reshape(self, -1).copy()

    def ravel(self, order='C'):
        from . import npshim
        if order != 'C':
            raise Unsupported('ravel order %r (memory layout is not modelled)' % (order,))
        return npshim.reshape(self, -1)

    def dot(self, o):
        """matrix product for a concrete small inner dimension (ASSUMED numpy contract: sum over the shared axis)"""
        if not isinstance(o, SArr) or self.ndim != 2 or o.ndim != 2:
            raise Unsupported('dot pattern')
        p = concrete(self.shape_e[1])
        if p is None or p > 8 or concrete(o.shape_e[0]) != p:
            raise Unsupported('dot with symbolic inner dimension')
        a, b = self, o

        def elem(i, j):
            acc = None
            for q in range(p):
                x, y = coerce2(a.elem(i, z3.IntVal(q)), b.elem(z3.IntVal(q), j))
                acc = x * y if acc is None else acc + x * y
            return acc
        return SArr((self.shape_e[0], o.shape_e[1]), elem, 'f' if 'f' in (a.kind, b.kind) else 'i')

    def tolist(self):
        raise Unsupported('tolist of symbolic array')

    def sort(self, axis=-1):
        from . import npshim
        self._write_check()
        r = npshim.sort(self)
        self._store(r.elem, r.nan)
        self.sorted_from = r.sorted_from


def _size_exceeds(e, limit):
    n = 0
    stack = [e]
    seen = set()
    while stack:
        t = stack.pop()
        if t.get_id() in seen:
            continue
        seen.add(t.get_id())
        n += 1
        if n > limit:
            return True
        stack.extend(t.children())
    return False


def _name(c, e):
    """replace a non-trivial integer term by a fresh constant defined equal to it (keeps closures small)"""
    if c is None or Ctx.spec or not _size_exceeds(e, 6):
        return e
    v = c.fresh('nm', e.sort())
    c.assume(v == e)
    return v


def _ceil_int(x):
    x = to_real(x)
    return -z3.ToInt(-x)


def _interval_of(ha, hb):
    """index interval [lo, hi) on which  (a + i  op1  c1) and (a + i  op2  c2)  both hold, for an affine array elem(i) = a + i of length n"""
    n = ha[3]
    lo, hi = z3.IntVal(0), n
    for op, a, c, _ in (ha, hb):
        d = to_real(c) - to_real(a)            # a + i op c   <=>   i op d
        if op == 'ge':
            b = _ceil_int(d)
            lo = z3.If(b > lo, b, lo)
        elif op == 'gt':
            b = z3.ToInt(d) + 1
            lo = z3.If(b > lo, b, lo)
        elif op == 'lt':
            b = _ceil_int(d)
            hi = z3.If(b < hi, b, hi)
        elif op == 'le':
            b = z3.ToInt(d) + 1
            hi = z3.If(b < hi, b, hi)
    return z3.simplify(lo), z3.simplify(hi)


def _plan_to_key(p):
    if p[0] == 'new':
        return None
    if p[0] == 'slice':
        return slice(SInt(p[1]), SInt(p[2]))
    return SInt(p[1])


def _asb(a):
    return a if a.sort() == B else a != 0


def _beq(a, b):
    return _asb(a) == _asb(b)


def _c_or_s(e):
    c = concrete(e)
    return c if c is not None else SInt(e)


DTYPE_KIND = {int: 'i', float: 'f', bool: 'b'}     # extended by verify.py with the shadowed builtins


def kind_of_dtype(t):
    if t in DTYPE_KIND:
        return DTYPE_KIND[t]
    import numpy as _np
    if t in (_np.int64, _np.int32, _np.intp):
        return 'i'
    if t in (_np.float64, _np.float32):
        return 'f'
    if t in (_np.bool_,):
        return 'b'
    if isinstance(t, str):
        return {'int': 'i', 'float': 'f', 'bool': 'b'}.get(t)
    return None


class FrameDict(dict):
    """an option dictionary passed in by the caller: every mutation is a frame violation (obligation False)"""

    def _w(self, what):
        c = C()
        c.obl.append(Obligation('frame:no-write-to-input-dict', list(c.pc), z3.BoolVal(False), 'frame', list(c.prefix[:c.pos]), note='%s on a dictionary owned by the caller' % what))
        c.ghost['frame_writes'] = c.ghost.get('frame_writes', 0) + 1

    def __setitem__(self, k, v):
        self._w('__setitem__(%r)' % (k,))
        dict.__setitem__(self, k, v)

    def __delitem__(self, k):
        self._w('__delitem__(%r)' % (k,))
        dict.__delitem__(self, k)

    def pop(self, *a):
        self._w('pop')
        return dict.pop(self, *a)

    def update(self, *a, **k):
        self._w('update')
        return dict.update(self, *a, **k)

    def setdefault(self, *a):
        self._w('setdefault')
        return dict.setdefault(self, *a)

    def clear(self):
        self._w('clear')
        dict.clear(self)

    def copy(self):
        return dict(self)


class SymList:
    """closure form of a list comprehension over a symbolic-length iterable: item(j) evaluates the element expression at index j
    (python builds the list when the comprehension is executed: the element expression is evaluated with arrays read as of that epoch,
    and the comprehension's free local variables are bound when it is created - see cut.CompRewriter)"""

    def __init__(self, n, item):
        self.n = lift(n)
        self.item = item
        self.T = _now()

    def __sym_len__(self):
        return _c_or_s(self.n)

    def __iter__(self):
        # (without this python would fall back to the sequence protocol - __getitem__(0), (1), ... until IndexError, which never comes)
        raise Unsupported('native iteration over a symbolic-length list (zip / for over the result of a symbolic comprehension)')

    def __len__(self):
        c_ = concrete(self.n)
        if c_ is None:
            raise Unsupported('len() of a symbolic-length list must go through the shadowed len')
        return c_

    def __getitem__(self, j):
        if isinstance(j, slice):
            raise Unsupported('slice of symbolic list')
        if not Ctx.spec:
            C().oblige('index-in-bounds', z3.And(-self.n <= lift(j), lift(j) < self.n), 'safety')
        return self.at(j)

    def at(self, j):
        Ctx.closure_depth += 1
        old = _ASOF[0]
        _ASOF[0] = self.T
        try:
            return self.item(j)
        finally:
            _ASOF[0] = old
            Ctx.closure_depth -= 1


class SymSet:
    """A python list that the code only uses as a set of integers (`.append(v)`, `.extend(values)`, `v in lst`), of symbolic size:
    pred(v) <=> v is in the list.  `in` reaches it through the mechanical rewrite  a in b -> __vc.contains(a, b)."""

    def __init__(self, pred):
        self._hp = []
        self.pred = pred

    @property
    def pred(self):
        return _version(self._hp)

    @pred.setter
    def pred(self, f):
        _install(self._hp, f)

    @staticmethod
    def fresh(name):
        f = C().fresh_fun(name, I, B)
        return SymSet(lambda v: f(v))

    @staticmethod
    def of(seq):
        """membership in a native list / SymSet, as a formula"""
        if isinstance(seq, SymSet):
            return seq.pred
        vals = [lift(x) for x in seq]
        return lambda v: z3.Or(*[v == x for x in vals]) if vals else z3.BoolVal(False)

    def has(self, v):
        return SBool(self.pred(lift(v)))

    def __havoc__(self, name):
        return SymSet.fresh(name)

    def __iter__(self):
        raise Unsupported('iteration over a symbolic set')

    def append(self, v):
        old, ve = self.pred, lift(v)
        _EPOCH[0] += 1
        self.pred = lambda x: z3.Or(old(x), x == ve)

    def extend(self, vals):
        if isinstance(vals, (list, tuple)):
            for v in vals:
                self.append(v)
            return
        if not (isinstance(vals, SArr) and vals.ndim == 1 and vals.kind == 'i'):
            raise Unsupported('symbolic set extended with %r' % type(vals))
        c = C()
        old = self.pred
        NEW = c.fresh_fun('inset', I, B)
        v = z3.Int('sv%d' % next(_buf_ids))
        n = vals.shape_e[0]
        # the rows the values were gathered from, when the index array has a membership predicate (np.where): state the new members
        # per selected ROW (no rank function needed), using W(P(r)) == r from np.where's contract
        src = vals
        idx = None
        while src is not None:
            idx = getattr(src, 'row_idx', None)
            if idx is not None:
                break
            src = src.view_of
        if idx is not None and idx.member is not None and getattr(idx, 'pos', None) is not None:
            r_ = z3.Int('sr%d' % next(_buf_ids))
            at_r = z3.substitute(vals.elem(idx.pos(r_)), (idx.elem(idx.pos(r_)), r_))
            WR = c.fresh_fun('insetrow', I, I)
            c.assume(z3.ForAll([r_], z3.Implies(idx.member(r_), NEW(at_r)), patterns=[at_r] if _pat_ok_core(at_r, [r_]) else []), feas=False)
            wr = WR(v)
            at_w = z3.substitute(vals.elem(idx.pos(wr)), (idx.elem(idx.pos(wr)), wr))
            c.assume(z3.ForAll([v], z3.Implies(NEW(v), z3.Or(old(v), z3.And(idx.member(wr), at_w == v))), patterns=[NEW(v)]), feas=False)
        else:
            q = z3.Int('sq%d' % next(_buf_ids))
            WQ = c.fresh_fun('insetpos', I, I)
            tq = vals.elem(q)
            c.assume(z3.ForAll([q], z3.Implies(z3.And(0 <= q, q < n), NEW(tq)), patterns=[tq] if _pat_ok_core(tq, [q]) else []), feas=False)
            c.assume(z3.ForAll([v], z3.Implies(NEW(v), z3.Or(old(v), z3.And(0 <= WQ(v), WQ(v) < n, vals.elem(WQ(v)) == v))), patterns=[NEW(v)]), feas=False)
        ov = old(v)
        c.assume(z3.ForAll([v], z3.Implies(ov, NEW(v)), patterns=[ov] if _pat_ok_core(ov, [v]) else []), feas=False)
        _EPOCH[0] += 1
        self.pred = lambda x: NEW(x)


def _pat_ok_core(e, ix):
    """usable as an E-matching pattern: an application of an uninterpreted function, built only from uninterpreted functions,
    variables and numerals (no if-then-else, arithmetic, boolean structure, quantifier or lambda), mentioning every bound variable"""
    if not z3.is_app(e) or z3.is_const(e) or e.decl().kind() != z3.Z3_OP_UNINTERPRETED:
        return False
    stack, seen = [e], set()
    while stack:
        t = stack.pop()
        if t.get_id() in seen:
            continue
        seen.add(t.get_id())
        if not z3.is_app(t):
            return False
        if not (t.decl().kind() == z3.Z3_OP_UNINTERPRETED or z3.is_int_value(t) or z3.is_rational_value(t)):
            return False
        stack.extend(t.children())
    s = e.sexpr()
    return all(str(i) in s for i in ix)


class SNan:
    """A float scalar that may be NaN (value e is meaningful only when not isnan)."""

    def __init__(self, e, isnan):
        self.e, self.isnan = e, isnan


# --------------------------------------------------------------------------------------------
# dual-mode spec vocabulary (symbolic: builds z3; native: computes python bools)

_qn = itertools.count(1)


def _call(x):
    return x() if callable(x) else x


def _native(*vals):
    return not any(is_sym(v) or z3.is_expr(v) for v in vals)


def forall(lo, hi, f):
    if _native(lo, hi):
        # concrete range: plain conjunction (of native booleans and/or symbolic formulas)
        lo_, hi_ = int(lo), int(hi)
        if hi_ - lo_ <= 64:
            return and_(*[(lambda s=s: f(s)) for s in range(lo_, hi_)])
    v = z3.Int('q%d' % next(_qn))
    with SpecMode():
        body = _tobool(_call(f(SInt(v))))
    return SBool(z3.ForAll([v], z3.Implies(z3.And(lift(lo) <= v, v < lift(hi)), body)))


def exists(lo, hi, f):
    if _native(lo, hi):
        try:
            rs = [f(s) for s in range(int(lo), int(hi))]
            if _native(*rs):
                return any(rs)
        except Unsupported:
            pass
    v = z3.Int('q%d' % next(_qn))
    with SpecMode():
        body = _tobool(_call(f(SInt(v))))
    return SBool(z3.Exists([v], z3.And(lift(lo) <= v, v < lift(hi), body)))


def implies(a, b):
    if _native(a):
        if not a:
            return True
        return _call(b)
    with SpecMode():
        bb = _call(b)
    return SBool(z3.Implies(_tobool(a), _tobool(bb)))


def and_(*a):
    vals = []
    for x in a:
        x = _call(x)
        if _native(x):
            if not x:
                return False
            continue
        vals.append(_tobool(x))
    if not vals:
        return True
    return SBool(z3.And(*vals))


def or_(*a):
    vals = []
    for x in a:
        x = _call(x)
        if _native(x):
            if x:
                return True
            continue
        vals.append(_tobool(x))
    if not vals:
        return False
    return SBool(z3.Or(*vals))


def not_(a):
    if _native(a):
        return not a
    return SBool(z3.Not(_tobool(a)))


def ite(c, a, b):
    if _native(c):
        return _call(a) if c else _call(b)
    with SpecMode():
        a, b = _call(a), _call(b)
    x, y = coerce2(lift(a), lift(b))
    return wrap(z3.If(_tobool(c), x, y))


def iff(a, b):
    if _native(a, b):
        return bool(a) == bool(b)
    return SBool(_tobool(a) == _tobool(b))
