"""pyvc - VC generation from the real Python source, discharged with z3 / cvc5 (see DESIGN.md section 3)."""
