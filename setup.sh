#!/bin/sh
# Build the overlay venv used by every check (offline, from the wheelhouse).
set -e
cd "$(dirname "$0")"
if [ ! -x .venv/bin/python ] || ! .venv/bin/python -c "import z3, jsonschema, numpy, emd" >/dev/null 2>&1; then
  rm -rf .venv
  /venv/bin/python -m venv .venv
  PIP_NO_INDEX=1 .venv/bin/pip install -q --no-index --find-links /opt/veriftools/wheels z3-solver cvc5 jsonschema crosshair-tool deal icontract >/dev/null
  SP=$(.venv/bin/python -c "import sysconfig; print(sysconfig.get_paths()['purelib'])")
  echo "import site; site.addsitedir('/venv/lib/python3.12/site-packages')" > "$SP/zz_repo_deps.pth"
fi
.venv/bin/python -c "import z3, jsonschema, numpy, scipy, emd; print('verif venv ok: z3', z3.get_version_string())"
