"""C05 - extrema are exact and envelopes interpolate them on the sample grid.

Functions under contract (emd/sift.py):
  _find_extrema       : calls scipy.signal.argrelextrema with the STRICT comparator np.greater and order 1 (call-site obligation against
                        an assumed argrelextrema contract parameterised by comparator and order); returns exactly the strict interior
                        local maxima in increasing order with their values;
  compute_parabolic_extrema : vertex of the parabola through the three samples around each peak lies within one sample of the peak;
  get_padded_extrema  : (None, None) iff fewer than two extrema; otherwise strictly increasing locations, the detected extrema unchanged
                        in the interior (locations and magnitudes), every added extremum outside them, both record ends covered
                        (first location < 0, last >= N) and termination of the re-padding loop (variant), for the default pad options;
  interp_envelope     : None iff too few extrema; otherwise one value per input sample, the k-th being the selected interpolant through
                        the padded extrema evaluated AT THE INTEGER TIME k - with and without parabolic refinement
                        (obligation at the interpolant evaluation: the grid starts at an integer and has unit step).
"""
import itertools
import numpy as np
import z3
from contracts.common import *
from pyvc.verify import Unit

PROPERTY = 'C05'
LEVEL = 'proof'
SIFT = 'emd/sift.py'
FUNCTIONS = ['emd.sift._find_extrema', 'emd.sift.compute_parabolic_extrema', 'emd.sift.get_padded_extrema', 'emd.sift.interp_envelope']
ASSUMPTIONS = [
    'assumed numpy contract: np.pad(a, w, "median") WITHOUT stat_length pads both sides with one value (the median of the whole vector, uninterpreted) - modelled so that a call site that lost its options is refuted, never relied on by the unchanged code',
    'floats are mathematical reals',
    'assumed scipy contract: signal.argrelextrema(x, cmp, order=1)[0] = increasing list of the interior indices i with cmp(x[i], x[i-1]) and cmp(x[i], x[i+1]) (stub parameterised by the comparator and the order actually passed)',
    'assumed numpy contract: np.pad(a, w, "reflect", reflect_type="odd") of a strictly increasing a is strictly increasing, keeps a in the middle, has length len(a)+2w and its first pad values are 2a[0]-a[1+j] / 2a[-1]-a[-2-j]; np.pad(a, w, "median", stat_length=1) repeats the end values',
    'assumed scipy contract: the interpolants (splrep/splev, pchip, PchipInterpolator) are functions ITP(knots, values, t) of the evaluation time (uninterpreted); that they pass through the knots is assumed, not proved',
    'assumed numpy contract: np.arange over reals has unit step; np.where of an index-interval mask is the corresponding arange',
    'pad options other than the defaults (custom np.pad modes) are outside the unbounded units; parabolic refinement: termination of the re-padding loop is proved for integer locations only',
]
NOT_COVERED = ['that the scipy interpolants pass through their knots (hence "upper envelope passes through every unrefined peak") - bounded stand-in',
               'custom np.pad options; termination of re-padding with fractional (parabolic) locations - bounded stand-in']

N = z3.Int('N')
ITP = z3.Function('ITP', z3.ArraySort(I, R), z3.ArraySort(I, R), I, R, R)      # interpolant through (knots, values) of n points, evaluated at t


# ----- argrelextrema stub ---------------------------------------------------------------------------------

class SignalShim:
    @staticmethod
    def argrelextrema(data, comparator, axis=0, order=1, mode='clip'):
        c = core.C()
        c.oblige('argrelextrema:strict-comparator-np.greater', z3.BoolVal(comparator is npshim.greater), 'pre', 'comparator passed: %r' % (getattr(comparator, '__name__', comparator),))
        c.oblige('argrelextrema:order-1', z3.BoolVal(order == 1), 'pre', 'order passed: %r' % (order,))
        if not (order == 1 and data.ndim == 1):
            raise core.Unsupported('argrelextrema with order != 1 or n-d data')
        n = data.shape_e[0]
        K = c.fresh('npk', I)
        L = c.fresh_fun('pkloc', I, I)
        P = c.fresh_fun('pkpos', I, I)
        j, j2, i = z3.Ints('aj aj2 ai')
        x = data.elem

        def cmp(a, b):
            return lift(comparator(SReal(a), SReal(b)))
        ispk = lambda q: z3.And(1 <= q, q <= n - 2, cmp(x(q), x(q - 1)), cmp(x(q), x(q + 1)))
        c.assume(z3.And(K >= 0, K <= z3.If(n >= 2, n - 2, 0)))
        c.assume(z3.ForAll([j], z3.Implies(z3.And(0 <= j, j < K), ispk(L(j))), patterns=[L(j)]))
        c.assume(z3.ForAll([j, j2], z3.Implies(z3.And(0 <= j, j < j2, j2 < K), L(j) < L(j2)), patterns=[z3.MultiPattern(L(j), L(j2))]))
        c.assume(z3.ForAll([i], z3.Implies(ispk(i), z3.And(0 <= P(i), P(i) < K, L(P(i)) == i)), patterns=[P(i)]))
        r = SArr((K,), lambda q: L(q), 'i', incr=True)
        r.nonneg = True
        c.ghost['pk'] = (K, L, P)
        return (r,)


def _mk_fe(c):
    x, X = vec('x', N)
    c.assume(N >= 3)
    c.ghost['X'] = X
    return (x,), {}


def _post_fe(c, a, kw, ret):
    X = c.ghost['X']
    locs, vals = ret
    K = locs.shape_e[0]
    j, j2, i = z3.Ints('pj pj2 pi')
    strict = lambda q: z3.And(1 <= q, q <= N - 2, X(q - 1) < X(q), X(q) > X(q + 1))
    if locs.kind != 'i':
        c.oblige('post:locations-are-sample-indices', z3.BoolVal(concrete(K) == 0), 'post')
        return
    c.oblige('post:every-reported-location-is-a-strict-interior-maximum', z3.Implies(z3.And(0 <= j, j < K), strict(locs.elem(j))), 'post')
    c.oblige('post:locations-increasing', z3.Implies(z3.And(0 <= j, j < j2, j2 < K), locs.elem(j) < locs.elem(j2)), 'post')
    w = z3.Int('wit')
    c.oblige('post:every-strict-interior-maximum-is-reported', z3.Implies(strict(i), z3.Exists([w], z3.And(0 <= w, w < K, locs.elem(w) == i))), 'post')
    c.oblige('post:values-are-the-signal-at-the-locations', z3.And(vals.shape_e[0] == K, z3.Implies(z3.And(0 <= j, j < K), vals.elem(j) == X(locs.elem(j)))), 'post')


from pyvc.core import concrete       # noqa: E402


# ----- compute_parabolic_extrema --------------------------------------------------------------------------

def _mk_par(c):
    K = z3.Int('K')
    c.assume(K >= 1)
    Y = z3.Function('y', I, I, R)
    L = z3.Function('loc', I, I)
    j = z3.Int('yj')
    c.assume(z3.ForAll([j], z3.And(Y(1, j) > Y(0, j), Y(1, j) > Y(2, j)), patterns=[Y(1, j)]))
    c.ghost['K'] = K
    c.ghost['L'] = L
    return (SArr((3, K), lambda i, q: Y(i, q), 'f'), SArr((K,), lambda q: L(q), 'i')), {}


def _post_par(c, a, kw, ret):
    t, yhat = ret
    K, L = c.ghost['K'], c.ghost['L']
    j = z3.Int('pj')
    c.oblige('post:one-refined-location-per-peak', z3.And(t.shape_e[0] == K, yhat.shape_e[0] == K), 'post')
    c.oblige('post:refined-location-within-one-sample-of-the-peak', z3.Implies(z3.And(0 <= j, j < K), z3.And(t.elem(j) > z3.ToReal(L(j)) - 1, t.elem(j) < z3.ToReal(L(j)) + 1)), 'post')


# ----- get_padded_extrema ---------------------------------------------------------------------------------

def _pad_stub(arr, pad_width, mode, **opts):
    """assumed np.pad contracts for the two default modes (see ASSUMPTIONS)"""
    c = core.C()
    w = concrete(pad_width)
    if w is None:
        # pad_width was reduced to the (symbolic) number of extrema: use its value when the path condition fixes it
        for cand in (1, 2, 3, 4, 5):
            if c.entails(lift(pad_width) == cand):
                w = cand
                break
    if w is None or w < 1:
        raise core.Unsupported('symbolic pad width')
    n = arr.shape_e[0]
    a = arr.elem
    m = n + 2 * w
    if mode == 'median' and opts == {'stat_length': 1}:
        return SArr((m,), lambda p: z3.If(p < w, a(z3.IntVal(0)), z3.If(p >= w + n, a(n - 1), a(p - w))), arr.kind)
    if mode == 'median' and 'stat_length' not in opts and not opts:
        # numpy's default: the median over the WHOLE vector (an uninterpreted value here) on both sides - not the rule of this library,
        # but a well-defined numpy call: modelled, so that a call site that loses its options is refuted rather than left undecided
        med = c.fresh('median_of_the_whole_vector', core.SORT[arr.kind] if arr.kind != 'i' else R)
        return SArr((m,), lambda p: z3.If(z3.Or(p < w, p >= w + n), med, core.to_real(a(p - w)) if arr.kind == 'i' else a(p - w)), 'f' if arr.kind == 'i' else arr.kind)
    if mode == 'reflect' and opts == {'reflect_type': 'odd'}:
        Rf = c.fresh_fun('padded', I, core.SORT[arr.kind])
        p, q = z3.Ints('pp pq')
        two = z3.IntVal(2) if arr.kind == 'i' else z3.RealVal(2)
        c.assume(z3.ForAll([p], z3.Implies(z3.And(0 <= p, p < n), Rf(p + w) == a(p)), patterns=[Rf(p + w)]))
        c.assume(z3.ForAll([p], z3.Implies(z3.And(w <= p, p < w + n), Rf(p) == a(p - w)), patterns=[Rf(p)]))
        # strictly increasing input  =>  strictly increasing output (holds for odd reflection)
        c.assume(z3.ForAll([p, q], z3.Implies(z3.And(0 <= p, p < q, q < m), Rf(p) < Rf(q)), patterns=[z3.MultiPattern(Rf(p), Rf(q))]))
        # the pad values nearest to the data: 2*edge - mirrored neighbour
        c.assume(z3.And(Rf(w - 1) == two * a(z3.IntVal(0)) - a(z3.IntVal(1)), Rf(w + n) == two * a(n - 1) - a(n - 2)))
        c.ghost['pad_calls'] = c.ghost.get('pad_calls', 0) + 1
        # the contract presupposes a strictly increasing input with at least two entries
        i1, i2 = z3.Ints('ci1 ci2')
        c.obl.append(core.Obligation('np.pad(reflect,odd):input-strictly-increasing', list(c.pc) + [z3.And(0 <= i1, i1 < i2, i2 < n)], a(i1) < a(i2), 'pre', list(c.prefix[:c.pos])))
        c.oblige('np.pad(reflect,odd):at-least-two-entries', n >= 2, 'pre')
        r = SArr((m,), lambda t: Rf(t), arr.kind, incr=True)
        return r
    raise core.Unsupported('np.pad mode %r with options %r is outside the assumed contracts' % (mode, opts))


def _fe_stub_for(c, parabolic):
    """contract of _find_extrema as seen by get_padded_extrema (modular)"""
    def fe(X, peak_prom_thresh=None, parabolic_extrema=False):
        c2 = core.C()
        c2.oblige('get_padded_extrema->_find_extrema:parabolic_extrema-forwarded', z3.BoolVal(parabolic_extrema == parabolic), 'post')
        K = c2.fresh('K', I)
        kind = 'f' if parabolic_extrema else 'i'
        L = c2.fresh_fun('loc', I, core.SORT[kind])
        M = c2.fresh_fun('mag', I, R)
        j, j2 = z3.Ints('fj fj2')
        n = X.shape_e[0]
        c2.assume(z3.And(K >= 0, K <= n))
        c2.assume(z3.ForAll([j, j2], z3.Implies(z3.And(0 <= j, j < j2, j2 < K), L(j) < L(j2)), patterns=[z3.MultiPattern(L(j), L(j2))]))
        lo, hi = (z3.IntVal(1), n - 2) if kind == 'i' else (z3.RealVal(0), z3.ToReal(n - 1))
        c2.assume(z3.ForAll([j], z3.Implies(z3.And(0 <= j, j < K), z3.And(lo <= L(j), L(j) <= hi)), patterns=[L(j)]))
        c2.ghost['ext'] = (K, L, M)
        if c2.branch(K == 0):
            return npshim.array([]), npshim.array([])
        return SArr((K,), lambda q: L(q), kind, incr=True), SArr((K,), lambda q: M(q), 'f')
    return fe


def _mk_gpe(mode, w, parabolic):
    def mk(c):
        x, X = vec('x', N)
        c.assume(N >= 3)
        return (x,), dict(pad_width=w, mode=mode, parabolic_extrema=parabolic)
    return mk


def _loops_gpe():
    def off(e):
        K, L, M = core.C().ghost['ext']
        return (e.ret_max_locs.shape_e[0] - K) / 2
    inv = [
        ('lengths', lambda e: and_(e.ret_max_locs.shape[0] == e.ret_max_ext.shape[0],
                                   SBool((e.ret_max_locs.shape_e[0] - core.C().ghost['ext'][0]) % 2 == 0), SBool(off(e) >= 1))),
        ('increasing', lambda e: forall(0, e.ret_max_locs.shape[0], lambda p: forall(lift(p) + 1, e.ret_max_locs.shape[0], lambda q: e.ret_max_locs.elem(lift(p)) < e.ret_max_locs.elem(lift(q))))),
        ('interior-untouched', lambda e: forall(0, wrap(core.C().ghost['ext'][0]), lambda i: and_(
            SBool(e.ret_max_locs.elem(off(e) + lift(i)) == core.C().ghost['ext'][1](lift(i))),
            SBool(e.ret_max_ext.elem(off(e) + lift(i)) == _sgn(e) * core.C().ghost['ext'][2](lift(i)))))),
        # default magnitude rule (median over the one nearest extremum): every added extremum, of every padding round, carries the magnitude of
        # the first / last detected one
        ('added-magnitudes-are-the-edge-magnitudes', lambda e: and_(
            forall(0, wrap(off(e)), lambda q: SBool(e.ret_max_ext.elem(lift(q)) == _sgn(e) * core.C().ghost['ext'][2](z3.IntVal(0)))),
            forall(wrap(off(e) + core.C().ghost['ext'][0]), e.ret_max_ext.shape[0], lambda q: SBool(e.ret_max_ext.elem(lift(q)) == _sgn(e) * core.C().ghost['ext'][2](core.C().ghost['ext'][0] - 1))))),
    ]
    return {0: {'inv': inv, 'variant': lambda e: wrap(
        z3.If(e.ret_max_locs.elem(e.ret_max_locs.shape_e[0] - 1) < e.X.shape_e[0], e.X.shape_e[0] - e.ret_max_locs.elem(e.ret_max_locs.shape_e[0] - 1), 0) +
        z3.If(e.ret_max_locs.elem(z3.IntVal(0)) >= 0, e.ret_max_locs.elem(z3.IntVal(0)) + 1, 0))}}


def _sgn(e):
    return z3.RealVal(-1) if core.C().ghost.get('mode') == 'troughs' else z3.RealVal(1)


def _post_gpe(mode, w, parabolic):
    def post(c, a, kw, ret):
        locs, mags = ret
        K, L, M = c.ghost['ext']
        if locs is None:
            c.oblige('post:none-only-with-fewer-than-two-extrema', z3.And(z3.BoolVal(mags is None), K <= 1), 'post')
            return
        c.oblige('post:extrema-returned-only-with-at-least-two', K >= 2, 'post')
        n = locs.shape_e[0]
        sg = z3.RealVal(-1) if mode == 'troughs' else z3.RealVal(1)
        i, p = z3.Ints('pi pp')
        if w == 0:
            c.oblige('post:unpadded-extrema-unchanged', z3.And(n == K, z3.Implies(z3.And(0 <= i, i < K), z3.And(locs.elem(i) == L(i), mags.elem(i) == sg * M(i)))), 'post')
            return
        off = (n - K) / 2
        c.oblige('post:symmetric-padding', z3.And((n - K) % 2 == 0, off >= 1, mags.shape_e[0] == n), 'post')
        c.oblige('post:strictly-ordered-in-time', z3.Implies(z3.And(0 <= p, p < n - 1), locs.elem(p) < locs.elem(p + 1)), 'post')
        c.oblige('post:interior-extrema-unaltered', z3.Implies(z3.And(0 <= i, i < K), z3.And(locs.elem(off + i) == L(i), mags.elem(off + i) == sg * M(i))), 'post')
        c.oblige('post:added-extrema-lie-beyond-both-ends', z3.And(locs.elem(off - 1) < L(0), locs.elem(off + K) > L(K - 1)), 'post')
        c.oblige('post:added-extrema-carry-the-first-and-last-detected-magnitude', z3.Implies(z3.And(0 <= p, p < n), z3.And(
            z3.Implies(p < off, mags.elem(p) == sg * M(z3.IntVal(0))), z3.Implies(p >= off + K, mags.elem(p) == sg * M(K - 1)))), 'post')
        zero = z3.IntVal(0) if locs.kind == 'i' else z3.RealVal(0)
        Nn = N if locs.kind == 'i' else z3.ToReal(N)
        # beyond the first sample (index 0) and beyond the last one (index N - 1): the same rule at both ends.  (For integer locations `> N - 1` is
        # `>= N`, the bound the code used to test; for fractional - parabolic - locations the old bound was one sample stricter on the right than on
        # the left, which broke time reversal: defect D25.)
        c.oblige('post:both-record-ends-covered', z3.And(locs.elem(z3.IntVal(0)) < zero, locs.elem(n - 1) > Nn - 1), 'post')
    return post


# ----- interp_envelope ------------------------------------------------------------------------------------

def _gpe_stub_for(c, parabolic):
    def gpe(X, pad_width=2, mode='peaks', parabolic_extrema=False, loc_pad_opts=None, mag_pad_opts=None):
        c2 = core.C()
        kind = 'f' if parabolic_extrema else 'i'
        K = c2.fresh('nk', I)
        L = c2.fresh_fun('knot', I, core.SORT[kind])
        M = c2.fresh_fun('kval', I, R)
        j, j2 = z3.Ints('gj gj2')
        n = X.shape_e[0]
        if c2.branch(c2.fresh('has_ext', B)):
            c2.assume(K >= 2)
            c2.assume(z3.ForAll([j, j2], z3.Implies(z3.And(0 <= j, j < j2, j2 < K), L(j) < L(j2)), patterns=[z3.MultiPattern(L(j), L(j2))]))
            zero, nn = (z3.IntVal(0), n) if kind == 'i' else (z3.RealVal(0), z3.ToReal(n))
            if concrete(pad_width) != 0:
                c2.assume(z3.And(L(0) < zero, L(K - 1) >= nn))      # contract of get_padded_extrema for pad_width >= 1
            c2.ghost['knots'] = (K, L, M, kind)
            return SArr((K,), lambda q: L(q), kind, incr=True), SArr((K,), lambda q: M(q), 'f')
        c2.ghost['knots'] = None
        return None, None
    return gpe


class InterpShim:
    """assumed scipy contract: the value of the interpolant depends only on (knots, values, evaluation time)"""
    @staticmethod
    def _eval(locs, pks, t):
        c = core.C()
        # obligation at the evaluation: the grid is the INTEGER sample grid (integer start, unit step)
        t0 = t.elem(z3.IntVal(0))
        i = z3.Int('gi')
        c.oblige('envelope-evaluated-on-integer-sample-times', z3.IsInt(to_real(t0)) if t0.sort() == R else z3.BoolVal(True), 'post')
        c.obl.append(core.Obligation('envelope-grid-has-unit-step', list(c.pc) + [z3.And(0 <= i, i < t.shape_e[0] - 1)], to_real(t.elem(i + 1)) == to_real(t.elem(i)) + 1, 'post', list(c.prefix[:c.pos])))
        La = npshim.reify1(lambda q: to_real(locs.elem(q)), 'f')
        Ma = npshim.reify1(lambda q: pks.elem(q), 'f')
        r = SArr(t.shape_e, lambda q: ITP(La, Ma, locs.shape_e[0], to_real(t.elem(q))), 'f')
        return r

    @staticmethod
    def splrep(locs, pks):
        return ('tck', locs, pks)

    @staticmethod
    def splev(t, f):
        return InterpShim._eval(f[1], f[2], t)

    @staticmethod
    def PchipInterpolator(locs, pks):
        return lambda t: InterpShim._eval(locs, pks, t)
    pchip = PchipInterpolator


to_real = core.to_real


def _mk_ie(mode, method, parabolic, pad):
    def mk(c):
        x, X = vec('x', N)
        c.assume(N >= 3)
        return (x,), dict(mode=mode, interp_method=method, extrema_opts={'pad_width': pad, 'parabolic_extrema': parabolic})
    return mk


def _post_ie(c, a, kw, ret):
    kn = c.ghost.get('knots')
    if ret is None:
        c.oblige('post:none-only-without-extrema', z3.BoolVal(kn is None), 'post')
        return
    c.oblige('post:envelope-only-with-extrema', z3.BoolVal(kn is not None), 'post')
    K, L, M, kind = kn
    k = z3.Int('pk')
    La = npshim.reify1(lambda q: to_real(L(q)), 'f')
    Ma = npshim.reify1(lambda q: M(q), 'f')
    c.oblige('post:one-value-per-input-sample', ret.shape_e[0] == N, 'post')
    c.oblige('post:sample-k-is-the-interpolant-at-integer-time-k', z3.Implies(z3.And(0 <= k, k < N), ret.elem(k) == ITP(La, Ma, K, z3.ToReal(k))), 'post')


def units(tier):
    import emd.sift as ES
    U = []
    U.append(Unit('_find_extrema', SIFT, '_find_extrema', _mk_fe, _post_fe, module=ES, ns={'signal': SignalShim},
                  observables=[{'kind': 'scalar', 'name': 'N'}, {'kind': 'array', 'name': 'x', 'shape': ['N']}]))
    U[-1].bound_scalars = [('N', 2)]
    U.append(Unit('compute_parabolic_extrema', SIFT, 'compute_parabolic_extrema', _mk_par, _post_par, module=ES))
    for mode in ('peaks', 'troughs', 'abs_peaks'):
        for w in (0, 1, 2, 3):
            for parabolic in (False, True):
                if tier == 'quick' and (mode == 'abs_peaks' and w in (1, 3) or (parabolic and w == 3)):
                    continue

                def call(f, c, a, kw, parabolic=parabolic, mode=mode):
                    c.ghost['mode'] = mode
                    f.__globals__['_find_extrema'] = _fe_stub_for(c, parabolic)
                    f.__globals__['np'] = _NPwithPad
                    return f(*a, **kw)
                loops = _loops_gpe() if not parabolic else {0: {'inv': _loops_gpe()[0]['inv']}}
                u = Unit('get_padded_extrema[%s,pad=%d%s]' % (mode, w, ',parabolic' if parabolic else ''), SIFT, 'get_padded_extrema', _mk_gpe(mode, w, parabolic),
                         _post_gpe(mode, w, parabolic), loops=loops if w else {}, module=ES, wrap_call=call)
                U.append(u)
    for method in ('splrep', 'pchip', 'mono_pchip'):
        for mode in ('upper', 'lower', 'combined'):
            for parabolic in (False, True):
                for pad in (2,) if tier == 'quick' else (1, 2, 5):
                    if tier == 'quick' and method != 'splrep' and mode != 'upper':
                        continue

                    def call(f, c, a, kw, parabolic=parabolic):
                        f.__globals__['get_padded_extrema'] = _gpe_stub_for(c, parabolic)
                        f.__globals__['interp'] = InterpShim
                        return f(*a, **kw)
                    u = Unit('interp_envelope[%s,%s,pad=%d%s]' % (method, mode, pad, ',parabolic' if parabolic else ''), SIFT, 'interp_envelope',
                             _mk_ie(mode, method, parabolic, pad), _post_ie, module=ES, wrap_call=call, raises={})
                    U.append(u)
    return U


class _NPwithPadMeta(type):
    def __getattr__(cls, k):
        return getattr(npshim, k)


class _NPwithPad(metaclass=_NPwithPadMeta):
    pad = staticmethod(_pad_stub)


def model_witness(unit_name, model):
    if unit_name == '_find_extrema':
        x = model_vec(model, 'x')
        if x and len(x) >= 3:
            return {'kind': 'extrema', 'x': [float(v) for v in x]}
    return None


# ----------------------------------------------------------------------------- native contract

def strict_max(x):
    x = np.asarray(x, float)
    return [i for i in range(1, len(x) - 1) if x[i - 1] < x[i] > x[i + 1]]


def replay(w):
    import emd
    import warnings
    from scipy import interpolate as SI
    S = emd.sift
    kind = w.get('kind')
    x = np.array(w['x'], float)
    if w.get('dtype'):
        x = x.astype(w['dtype'])        # integer-valued samples stored as integers (the alphabets below are integer-valued)
    n = len(x)
    with warnings.catch_warnings():
        warnings.simplefilter('ignore')
        if kind == 'extrema':
            locs, vals = S._find_extrema(x)
            exp = strict_max(x)
            if list(np.asarray(locs, int)) != exp:
                return True, 'detected peaks %s, strict local maxima are %s (x=%s)' % (list(locs), exp, x.tolist())
            if exp and not np.array_equal(vals, x[exp]):
                return True, 'peak values %s differ from the signal at the peaks' % list(vals)
            tl, tv = S._find_extrema(-x)
            expt = strict_max(-x)
            if list(np.asarray(tl, int)) != expt:
                return True, 'detected troughs %s, strict local minima are %s (x=%s)' % (list(tl), expt, x.tolist())
            return False, 'ok'
        if kind == 'padded':
            mode, pad, par = w['mode'], w['pad'], w['parabolic']
            src = {'peaks': x, 'troughs': -x, 'abs_peaks': np.abs(x)}[mode]
            base = strict_max(src)
            try:
                locs, mags = S.get_padded_extrema(x.copy(), pad_width=pad, mode=mode, parabolic_extrema=par)
            except Exception as ex:
                return True, 'get_padded_extrema raised %s: %s (x=%s mode=%s pad=%d parabolic=%s)' % (type(ex).__name__, ex, x.tolist(), mode, pad, par)
            if len(base) <= 1:
                return (locs is not None), 'extrema returned although fewer than two exist' if locs is not None else 'ok'
            if locs is None:
                return True, 'no extrema returned although %d exist (x=%s, mode=%s)' % (len(base), x.tolist(), mode)
            if not np.all(np.diff(locs) > 0):
                return True, 'padded locations are not strictly increasing: %s (x=%s mode=%s pad=%d)' % (list(locs), x.tolist(), mode, pad)
            K = len(base)
            off = (len(locs) - K) // 2 if pad else 0
            inner = np.asarray(locs[off:off + K])
            if par:
                if not np.all(np.abs(inner - np.array(base)) < 1):
                    return True, 'refined interior locations %s are not within one sample of the peaks %s' % (inner.tolist(), base)
            else:
                exp_m = src[base] * (-1 if mode == 'troughs' else 1)
                if inner.tolist() != base or not np.array_equal(np.asarray(mags[off:off + K]), exp_m):
                    return True, 'interior extrema altered by padding: %s / %s, detected %s / %s' % (inner.tolist(), list(mags[off:off + K]), base, exp_m.tolist())
            if pad and not (locs[0] < 0 and locs[-1] > n - 1):
                return True, 'padded extrema do not cover both record ends: first %s last %s, N=%d' % (locs[0], locs[-1], n)
            if pad and not (np.all(locs[:off] < inner[0]) and np.all(locs[off + K:] > inner[-1])):
                return True, 'padding added extrema inside the detected ones: %s' % list(locs)
            if pad:
                # default magnitude rule (median over the ONE nearest extremum): every added extremum, of every padding round, carries the
                # magnitude of the first / last detected one
                mg = np.asarray(mags, float)
                if not (np.all(mg[:off] == mg[off]) and np.all(mg[off + K:] == mg[off + K - 1])):
                    return True, 'padded magnitudes %s are not those of the first / last detected extremum (%s / %s) (x=%s mode=%s pad=%d)' % (np.round(mg, 6).tolist(), mg[off], mg[off + K - 1], x.tolist(), mode, pad)
                # default location rule: odd reflection, i.e. the added locations mirror the detected ones about the first / last detected extremum
                lc = np.asarray(locs, float)
                left, right = lc[:off][::-1], lc[off + K:]
                full = lc[off:off + K]
                single_round = off == min(pad, K) and off <= K - 1
                if single_round and not (np.allclose(left, 2 * full[0] - full[1:1 + len(left)]) and np.allclose(right, 2 * full[-1] - full[::-1][1:1 + len(right)])):
                    return True, 'padded locations %s are not the detected ones %s mirrored about the first / last detected extremum (x=%s mode=%s pad=%d)' % (lc.tolist(), full.tolist(), x.tolist(), mode, pad)
            return False, 'ok'
        if kind == 'envelope':
            mode, pad, par, method = w['mode'], w['pad'], w['parabolic'], w['method']
            xo = {'pad_width': pad, 'parabolic_extrema': par}
            try:
                out = S.interp_envelope(x.copy(), mode=mode, interp_method=method, extrema_opts=xo, ret_extrema=True)
            except ValueError as ex:
                if pad == 0:
                    return False, 'explicit rejection for pad_width=0'
                return True, 'interp_envelope raised ValueError: %s (x=%s mode=%s method=%s pad=%d parabolic=%s)' % (ex, x.tolist(), mode, method, pad, par)
            except Exception as ex:
                return True, 'interp_envelope raised %s: %s (x=%s)' % (type(ex).__name__, ex, x.tolist())
            if out is None:
                src = {'upper': x, 'lower': -x, 'combined': np.abs(x)}[mode]
                if len(strict_max(src)) >= 2:
                    return True, 'no envelope although %d extrema exist' % len(strict_max(src))
                return False, 'ok'
            env, (locs, pks) = out
            if env.shape != (n,):
                return True, 'envelope has %s values for %d samples' % (env.shape, n)
            if method == 'splrep':
                ref = SI.splev(np.arange(n), SI.splrep(locs, pks))
            else:
                ref = SI.PchipInterpolator(locs, pks)(np.arange(n))
            if not np.allclose(env, ref, rtol=1e-9, atol=1e-9):
                return True, 'envelope is not the %s interpolant through the padded extrema evaluated at the integer sample times: max deviation %.3g (x=%s mode=%s pad=%d parabolic=%s)' % (
                    method, np.abs(env - ref).max(), np.round(x, 3).tolist()[:16], mode, pad, par)
            if not par:
                src = {'upper': x, 'lower': x, 'combined': np.abs(x)}[mode]
                sel = strict_max({'upper': x, 'lower': -x, 'combined': np.abs(x)}[mode])
                if sel and not np.allclose(env[sel], src[sel], rtol=1e-9, atol=1e-9):
                    return True, 'envelope does not pass through the unrefined extrema (max miss %.3g)' % np.abs(env[sel] - src[sel]).max()
            return False, 'ok'
    return False, 'unknown witness kind'


def refute(tier, seed, emit):
    maxlen = 7 if tier == 'quick' else 9
    pads = (0, 1, 2, 3) if tier == 'quick' else (0, 1, 2, 3, 4, 5)
    emit.scope('every sequence of length 3..%d over the 3-level alphabet {-2,0,1} (ties / plateaus / very short signals; also stored as integers up to length 6): strict extrema; x pad widths %s x parabolic on/off x modes: padded extrema; x {splrep, pchip, mono_pchip} x {upper, lower, combined}: envelope vs interpolant rebuilt from the returned extrema at 0..N-1; non-trivial = at least two extrema of some kind' % (maxlen, list(pads)), exhaustive=True)
    # (asymmetric alphabet with a negative level: |x| differs from x, peaks of |x| are asymmetric - the combined envelope is a case of its own)
    for t in seqs([-2.0, 0.0, 1.0], maxlen, 3):
        x = list(t)
        nontriv = len(strict_max(t)) >= 2 or len(strict_max([-v for v in t])) >= 2
        emit.case(('ext', t), nontrivial=nontriv, contract='_find_extrema')
        ok, msg = replay({'kind': 'extrema', 'x': x})
        if ok:
            emit.violation('extrema-are-exactly-the-strict-local-extrema', {'kind': 'extrema', 'x': x}, msg)
        if len(t) <= 6 and nontriv:
            # the same samples stored as integers (raw counts)
            for wd in ({'kind': 'extrema', 'x': x, 'dtype': 'int64'}, {'kind': 'padded', 'x': x, 'mode': 'troughs', 'pad': 2, 'parabolic': True, 'dtype': 'int64'},
                       {'kind': 'envelope', 'x': x, 'mode': 'combined', 'pad': 2, 'parabolic': False, 'method': 'splrep', 'dtype': 'int32'}):
                emit.case(('int', t, wd['kind']), nontrivial=True, contract='interp_envelope')
                ok, msg = replay(wd)
                if ok:
                    emit.violation({'extrema': 'extrema-are-exactly-the-strict-local-extrema', 'padded': 'padding-keeps-interior-orders-and-covers', 'envelope': 'envelope-is-interpolant-at-integer-sample-times'}[wd['kind']] + ':integer-input', wd, msg)
        if not nontriv and len(t) > 5:
            continue
        for pad in pads:
            for par in (False, True):
                for mode in ('peaks', 'troughs', 'abs_peaks'):
                    if mode == 'abs_peaks' and pad not in (0, 2):
                        continue
                    emit.case(('pad', t, pad, par, mode), nontrivial=nontriv, contract='get_padded_extrema')
                    w = {'kind': 'padded', 'x': x, 'mode': mode, 'pad': pad, 'parabolic': par}
                    ok, msg = replay(w)
                    if ok:
                        emit.violation('padding-keeps-interior-orders-and-covers' + (':parabolic' if par else ''), w, msg)
                if pad == 0:
                    continue
                for mi, method in enumerate(('splrep', 'pchip', 'mono_pchip')):
                    for mode in ('upper', 'lower', 'combined'):
                        if (mi + pad + len(t)) % 3 and tier == 'quick':
                            continue
                        emit.case(('env', t, pad, par, method, mode), nontrivial=nontriv, contract='interp_envelope')
                        w = {'kind': 'envelope', 'x': x, 'mode': mode, 'pad': pad, 'parabolic': par, 'method': method}
                        ok, msg = replay(w)
                        if ok:
                            emit.violation('envelope-is-interpolant-at-integer-sample-times' + (':parabolic' if par else ''), w, msg)
        if emit.full:
            return
    r = rng(seed, 5)
    nr = 60 if tier == 'quick' else 600
    emit.scope('%d seeded real-valued signals (length 8..300) x the same option grid' % nr)
    from contracts.C04 import _signals
    for si, x in enumerate(_signals(r, nr)):
        for par in (False, True):
            pad = 1 + si % 4
            method = ('splrep', 'pchip', 'mono_pchip')[si % 3]
            mode = ('upper', 'lower', 'combined')[(si // 3) % 3]
            emit.case(('rand', si, par), contract='interp_envelope')
            w = {'kind': 'envelope', 'x': np.asarray(x).tolist(), 'mode': mode, 'pad': pad, 'parabolic': par, 'method': method}
            ok, msg = replay(w)
            if ok:
                emit.violation('envelope-is-interpolant-at-integer-sample-times' + (':parabolic' if par else ''), w, msg[:400])
            w2 = {'kind': 'padded', 'x': np.asarray(x).tolist(), 'mode': ('peaks', 'troughs', 'abs_peaks')[si % 3], 'pad': pad, 'parabolic': par}
            ok, msg = replay(w2)
            if ok:
                emit.violation('padding-keeps-interior-orders-and-covers' + (':parabolic' if par else ''), w2, msg[:400])
        if emit.full:
            return
