"""C16 - sample / cycle / subset / chain index maps are mutually consistent.

Functions under contract (emd/_cycles_support.py): the level-to-level lookups map_* and projections project_*;
(emd/cycles.py) get_subset_vector, get_chain_vector.

Well-formedness predicates (preconditions, = what the constructors produce):
  WFcv(cv)      : every label >= -1
  WFsv(sv, POS) : -1 <= sv[i] < nsub;  POS: [0,nsub) -> [0,ncyc) with sv[POS(k)] = k and sv[i] != -1 => POS(sv[i]) = i
                  (subset ids and selected cycles are in bijection)
Contracts are the set-theoretic definitions from the statement: a forward map returns None exactly for an unlabelled
sample / unselected cycle and otherwise the label; a backward map returns exactly the items that map forward to it;
a projection places vals[k] on exactly the items that map to k and NaN elsewhere.
"""
import itertools
import numpy as np
import z3
from contracts.common import *
from pyvc.verify import Unit

PROPERTY = 'C16'
LEVEL = 'proof'
SUP = 'emd/_cycles_support.py'
FUNCTIONS = ['emd._cycles_support.' + f for f in (
    'map_cycle_to_samples', 'map_sample_to_cycle', 'map_subset_to_cycle', 'map_cycle_to_subset', 'map_subset_to_sample',
    'map_sample_to_subset', 'map_chain_to_subset', 'map_subset_to_chain', 'map_cycle_to_chain', 'map_sample_to_chain',
    'map_chain_to_cycle', 'map_chain_to_samples',
    'project_cycles_to_samples', 'project_subset_to_cycles', 'project_chain_to_subset', 'project_subset_to_samples', 'project_chain_to_cycles', 'project_chain_to_samples')] + ['emd.cycles.get_subset_vector', 'emd.cycles.get_chain_vector']
ASSUMPTIONS = [
    'floats are mathematical reals with a separate NaN flag; numpy ints unbounded',
    'assumed numpy contracts (cross-checked natively, not proved): where, ==, diff, all, zeros_like, astype, r_, integer-array (fancy) assignment, scalar indexing',
    'well-formedness of subset vectors is stated in bijection form (POS); that get_subset_vector outputs satisfy it is an induction the solver does not do: checked by the bounded stand-in only',
    'callees without loops are rebuilt from the real source in the same namespace and verified as part of their caller (inlined); the composite projections (project_chain_to_cycles, project_chain_to_samples, project_subset_to_samples) and map_subset_to_sample call their callees through contract stubs whose pre-conditions become obligations at the call and whose post-conditions are the ones discharged in the callee\'s own unit',
]
ASSUMPTIONS.append('map_chain_to_samples: np.hstack of a symbolic number of variable-length pieces by an assumed contract (pieces laid end to end: offsets, piece-of-entry function); '
                   'the result is proved to hold exactly the samples of the chain, each listed once (sound, complete, post:each-sample-listed-once), cycle by cycle in the order of the subset cycles of the chain with the samples of each cycle ascending (post:cycle-by-cycle-in-subset-order); that this is the globally ascending list for vectors produced by the library is checked by the bounded stand-in')
NOT_COVERED = ['map_chain_to_samples: that the listed samples are globally ascending (true for cycle / subset vectors produced by the library, whose cycles follow one another in time) - bounded stand-in only; membership, multiplicity and the cycle-by-cycle order are proved',
               'augmented-cycle maps (outside the property)']

N = z3.Int('N')        # samples
NC = z3.Int('NC')      # cycles
NS = z3.Int('NS')      # subset cycles
NCH = z3.Int('NCH')    # chains
POS = z3.Function('POS', I, I)
K = z3.Int('k')


def _cv(c):
    cv, CV = vec('cv', N, 'i')
    s = z3.Int('s')
    c.assume(N >= 1)
    c.assume(z3.ForAll([s], CV(s) >= -1, patterns=[CV(s)]))
    return cv, CV


def _sv(c):
    sv, SV = vec('sv', NC, 'i')
    i = z3.Int('i')
    c.assume(z3.And(NC >= 1, NS >= 0, NS <= NC))
    c.assume(z3.ForAll([i], z3.And(-1 <= SV(i), SV(i) < NS), patterns=[SV(i)]))
    c.assume(z3.ForAll([i], z3.Implies(z3.And(0 <= i, i < NS), z3.And(0 <= POS(i), POS(i) < NC, SV(POS(i)) == i)), patterns=[POS(i)]))
    c.assume(z3.ForAll([i], z3.Implies(z3.And(0 <= i, i < NC, SV(i) != -1), POS(SV(i)) == i), patterns=[SV(i)]))
    return sv, SV


def _ch(c):
    ch, CH = vec('ch', NS, 'i')
    i = z3.Int('i')
    c.assume(z3.ForAll([i], z3.And(0 <= CH(i), CH(i) < NCH), patterns=[CH(i)]))
    return ch, CH


def _idx(c, name, hi):
    k = z3.Int(name)
    c.assume(z3.And(0 <= k, k < hi))
    return SInt(k)


def _post_set(c, name, ret, n, pred):
    """ret is the strictly increasing list of exactly the i in [0,n) with pred(i)"""
    j = SInt(z3.Int('pj'))
    j2 = SInt(z3.Int('pj2'))
    i = SInt(z3.Int('pi'))
    L = ret.shape[0]
    with core.SpecMode():
        c.oblige(name + ':sound', implies(and_(0 <= j, j < L), lambda: and_(0 <= ret[j], ret[j] < n, pred(ret[j]))), 'post')
        c.oblige(name + ':increasing', implies(and_(0 <= j, j < j2, j2 < L), lambda: ret[j] < ret[j2]), 'post')
        c.oblige(name + ':complete', implies(and_(0 <= i, i < n, pred(i)), lambda: exists(0, L, lambda q: ret[q] == i)), 'post')


def _opt_post(c, name, ret, none_iff, value):
    """forward map: None exactly when none_iff, else the value"""
    if ret is None:
        c.oblige(name + ':none-only-when-unmapped', none_iff, 'post')
    else:
        c.oblige(name + ':value', and_(not_(none_iff), ret == value), 'post')


def _proj_spec(out, vals, key, i, upto):
    """projection contract at position i: key[i] in [0, upto) -> out[i] is vals[key[i]] (missing iff that value is missing); else out[i] is missing"""
    hit = and_(0 <= key[i], key[i] < upto)
    nanf = npshim.isnan(out)
    vnan = npshim.isnan(vals)
    return and_(implies(hit, lambda: and_(nanf[i] == vnan[key[i]], implies(not_(vnan[key[i]]), lambda: out[i] == vals[key[i]]))), implies(not_(hit), lambda: nanf[i]))


def _proj_stub(name):
    """contract stub of a basic projection (each is a unit of this file): requires key >= -1 and a non-empty key vector; ensures _proj_spec everywhere"""
    def stub(vals, key):
        c = core.C()
        n = key.shape_e[0]
        q = c.fresh('pq', I)
        c.obl.append(core.Obligation('%s:requires-keys->=-1' % name, list(c.pc) + [z3.And(0 <= q, q < n)], key.elem(q) >= -1, 'pre', list(c.prefix[:c.pos])))
        c.oblige('%s:requires-nonempty-key-vector' % name, n >= 1, 'pre')
        O = c.fresh_fun(name + '_out', I, R)
        ON = c.fresh_fun(name + '_missing', I, B)
        out = SArr((n,), lambda i: O(i), 'f', nan=lambda i: ON(i))
        i = SInt(z3.Int('sq%d' % next(core._buf_ids)))
        with core.SpecMode():
            body = implies(and_(0 <= i, i < wrap(n)), lambda: _proj_spec(out, vals, key, i, vals.shape[0]))
        c.assume(z3.ForAll([i.e], lift(body)))
        return out
    return stub


def units(tier):
    import emd._cycles_support as CS
    import emd.cycles as EC
    U = []

    def unit(name, mk, post, qual=None, loops=None, inline=(), path=SUP, module=CS, obs=None, bound=None):
        u = Unit('%s' % name, path, qual or name, mk, post, loops=loops or {}, module=module,
                 inline=[(SUP, q, {}) for q in inline], observables=obs or [])
        u.bound_scalars = bound
        U.append(u)

    OBS_CV = [{'kind': 'scalar', 'name': 'N'}, {'kind': 'array', 'name': 'cv', 'shape': ['N']}, {'kind': 'scalar', 'name': 'k'}]

    # -- map_cycle_to_samples
    def mk(c):
        cv, CV = _cv(c)
        return (cv, _idx(c, 'k', N)), {}
    unit('map_cycle_to_samples', mk, lambda c, a, kw, r: _post_set(c, 'post', r, a[0].shape[0], lambda s: a[0][s] == a[1]), obs=OBS_CV)

    # -- map_sample_to_cycle
    def mk(c):
        cv, CV = _cv(c)
        return (cv, _idx(c, 'k', N)), {}
    unit('map_sample_to_cycle', mk, lambda c, a, kw, r: _opt_post(c, 'post', r, a[0][a[1]] == -1, a[0][a[1]]), obs=OBS_CV, bound=[('N', 0)])

    # -- map_subset_to_cycle: the unique cycle carrying subset id k
    def mk(c):
        sv, SV = _sv(c)
        return (sv, _idx(c, 'k', NS)), {}

    def post(c, a, kw, r):
        c.oblige('post:exactly-one', r.shape_e[0] == 1, 'post')
        with core.SpecMode():
            c.oblige('post:is-POS', implies(r.shape[0] >= 1, lambda: r[0] == wrap(POS(lift(a[1])))), 'post')
    unit('map_subset_to_cycle', mk, post)

    # -- map_cycle_to_subset
    def mk(c):
        sv, SV = _sv(c)
        return (sv, _idx(c, 'k', NC)), {}
    unit('map_cycle_to_subset', mk, lambda c, a, kw, r: _opt_post(c, 'post', r, a[0][a[1]] == -1, a[0][a[1]]))

    # -- map_subset_to_sample = samples of cycle POS(k)
    def mk(c):
        sv, SV = _sv(c)
        cv, CV = _cv(c)
        return (sv, cv, _idx(c, 'k', NS)), {}
    def subset_to_cycle_stub(subset_vect, ii):
        """contract of map_subset_to_cycle (its own unit above: post:exactly-one, post:is-POS): requires 0 <= ii < number of subset cycles"""
        c = core.C()
        if not core.Ctx.spec:
            c.oblige('map_subset_to_cycle:requires-existing-subset-cycle', z3.And(0 <= lift(ii), lift(ii) < NS), 'pre')
        return SArr((z3.IntVal(1),), lambda q: POS(lift(ii)), 'i')
    unit('map_subset_to_sample', mk, lambda c, a, kw, r: _post_set(c, 'post', r, a[1].shape[0], lambda s: a[1][s] == wrap(POS(lift(a[2])))),
         inline=['map_cycle_to_samples'])
    U[-1].ns = dict(U[-1].ns or {}, map_subset_to_cycle=subset_to_cycle_stub)

    # -- map_sample_to_subset
    def mk(c):
        sv, SV = _sv(c)
        cv, CV = _cv(c)
        s = z3.Int('s')
        c.assume(z3.ForAll([s], CV(s) < NC, patterns=[CV(s)]))
        return (sv, cv, _idx(c, 'k', N)), {}

    def post(c, a, kw, r):
        sv, cv, s = a
        with core.SpecMode():
            unl = cv[s] == -1
            none_iff = or_(unl, lambda: sv[ite(unl, 0, cv[s])] == -1)
            val = sv[ite(unl, 0, cv[s])]
        _opt_post(c, 'post', r, none_iff, val)
    unit('map_sample_to_subset', mk, post, inline=['map_sample_to_cycle', 'map_cycle_to_subset'],
         obs=[{'kind': 'scalar', 'name': 'N'}, {'kind': 'scalar', 'name': 'NC'}, {'kind': 'scalar', 'name': 'k'},
              {'kind': 'array', 'name': 'cv', 'shape': ['N']}, {'kind': 'array', 'name': 'sv', 'shape': ['NC']}], bound=[('N', 0), ('NC', 0)])

    # -- map_chain_to_subset / map_subset_to_chain
    def mk(c):
        c.assume(z3.And(NS >= 1, NCH >= 1))
        ch, CH = _ch(c)
        return (ch, _idx(c, 'k', NCH)), {}
    unit('map_chain_to_subset', mk, lambda c, a, kw, r: _post_set(c, 'post', r, a[0].shape[0], lambda s: a[0][s] == a[1]))

    # -- map_chain_to_cycle: the cycles of chain k = the cycles POS(j) of the subset cycles j with chain_vect[j] == k, in subset order
    def mk(c):
        c.assume(z3.And(NS >= 1, NCH >= 1))
        ch, CH = _ch(c)
        sv, SV = _sv(c)
        npshim.register_param_where(c, CH, NS, 'chv')
        return (ch, sv, _idx(c, 'k', NCH)), {}

    def post(c, a, kw, r):
        ch, sv, k = a
        KKc, WWc, PPc = c.ghost['param_where'][-1][2:5]
        j = z3.Int('pj')
        cy = z3.Int('pc')
        n = KKc(lift(k))
        c.oblige('post:one-cycle-per-subset-cycle-of-the-chain', r.shape_e[0] == n, 'post')
        c.oblige('post:j-th-entry-is-the-cycle-of-the-j-th-subset-cycle-of-the-chain', z3.Implies(z3.And(0 <= j, j < n), r.elem(j) == POS(WWc(lift(k), j))), 'post')
        with core.SpecMode():
            c.oblige('post:sound', z3.Implies(z3.And(0 <= j, j < n), z3.And(0 <= r.elem(j), r.elem(j) < NC, lift(sv[wrap(r.elem(j))] >= 0), lift(ch[sv[wrap(r.elem(j))]] == k))), 'post')
        # complete: every cycle whose subset cycle lies in chain k is listed (witness: the rank of that subset cycle in the chain)
        SVf = sv.elem
        CHf = ch.elem
        c.oblige('post:complete', z3.Implies(z3.And(0 <= cy, cy < NC, SVf(cy) >= 0, CHf(SVf(cy)) == lift(k)),
                                             z3.And(0 <= PPc(lift(k), SVf(cy)), PPc(lift(k), SVf(cy)) < n, r.elem(PPc(lift(k), SVf(cy))) == cy)), 'post')
    unit('map_chain_to_cycle', mk, post, inline=['map_chain_to_subset'])
    U[-1].ns = dict(U[-1].ns or {}, map_subset_to_cycle=subset_to_cycle_stub)

    # -- map_chain_to_samples: the samples of chain k = the samples of the cycles POS(j) of the subset cycles j with chain_vect[j] == k,
    #    piece after piece (np.hstack of variable-length pieces: assumed contract); map_subset_to_sample by the contract of its own unit
    def mk(c):
        c.assume(z3.And(NS >= 1, NCH >= 1))
        ch, CH = _ch(c)
        sv, SV = _sv(c)
        cv, CV = _cv(c)
        s = z3.Int('s')
        c.assume(z3.ForAll([s], CV(s) < NC, patterns=[CV(s)]))
        npshim.register_param_where(c, CH, NS, 'chv')
        npshim.register_param_where(c, CV, N, 'cyv')
        c.ghost['CV'] = CV
        return (ch, sv, cv, _idx(c, 'k', NCH)), {}

    def subset_to_sample_stub(subset_vect, cycle_vect, ii):
        """contract of map_subset_to_sample (its own unit above: post:sound / increasing / complete = the strictly increasing list of exactly
        the samples of cycle POS(ii)), i.e. np.where(cycle_vect == POS(ii))[0]: requires 0 <= ii < number of subset cycles"""
        c = core.C()
        if not core.Ctx.spec:
            c.oblige('map_subset_to_sample:requires-existing-subset-cycle', z3.And(0 <= lift(ii), lift(ii) < NS), 'pre')
        KKv, WWv, PPv = c.ghost['param_where'][-1][2:5]
        cyc = POS(lift(ii))
        r = SArr((KKv(cyc),), lambda q: WWv(cyc, q), 'i', incr=True)
        r.nonneg = True
        return r

    def post(c, a, kw, r):
        ch, sv, cv, k = a
        KKc, WWc, PPc = c.ghost['param_where'][-2][2:5]
        KKv, WWv, PPv = c.ghost['param_where'][-1][2:5]
        CVf, SVf, CHf = cv.elem, sv.elem, ch.elem
        p, s = z3.Ints('pp ps')
        L = r.shape_e[0]
        inchain = lambda smp: z3.And(CVf(smp) >= 0, SVf(CVf(smp)) >= 0, CHf(SVf(CVf(smp))) == lift(k))
        c.oblige('post:sound', z3.Implies(z3.And(0 <= p, p < L), z3.And(0 <= r.elem(p), r.elem(p) < N, inchain(r.elem(p)))), 'post')
        hs = getattr(r, 'hstack_of', None)
        if hs is None:
            c.oblige('post:complete', z3.BoolVal(False), 'post', note='result is not the concatenation the contract expects')
            return
        _, OFF, PJ = hs
        # complete: a sample of a cycle whose subset cycle lies in chain k is listed (witness: rank of the subset cycle in the chain, rank of the sample in its cycle)
        jw = PPc(lift(k), SVf(CVf(s)))
        qw = PPv(CVf(s), s)
        c.oblige('post:complete', z3.Implies(z3.And(0 <= s, s < N, inchain(s)), z3.And(0 <= OFF(jw) + qw, OFF(jw) + qw < L, r.elem(OFF(jw) + qw) == s)), 'post')
        # multiplicity: no sample is listed twice. Two entries of one piece differ because a piece (the samples of one cycle) is strictly increasing;
        # entries of two pieces differ because they lie in the cycles POS(j1) != POS(j2) of two different subset cycles (sv[POS(j)] = j)
        p2 = z3.Int('pp2')
        c.oblige('post:each-sample-listed-once', z3.Implies(z3.And(0 <= p, p < p2, p2 < L), r.elem(p) != r.elem(p2)), 'post')
        # order (the counterpart of map_chain_to_cycle's "j-th entry is the cycle of the j-th subset cycle of the chain"): the list is laid out cycle by
        # cycle in the order of the chain's subset cycles, the samples of each cycle ascending - entry OFF(j) + q is the q-th sample of cycle POS(j-th subset cycle)
        jj, qq = z3.Ints('pj pq')
        nsub = KKc(lift(k))
        cyc = POS(WWc(lift(k), jj))
        c.oblige('post:cycle-by-cycle-in-subset-order', z3.And(L == OFF(nsub), z3.Implies(z3.And(0 <= jj, jj < nsub), z3.And(OFF(jj + 1) == OFF(jj) + KKv(cyc),
                 z3.Implies(z3.And(0 <= qq, qq < KKv(cyc)), r.elem(OFF(jj) + qq) == WWv(cyc, qq))))), 'post')
    unit('map_chain_to_samples', mk, post, inline=['map_chain_to_subset'])
    U[-1].ns = dict(U[-1].ns or {}, map_subset_to_sample=subset_to_sample_stub)

    def mk(c):
        c.assume(z3.And(NS >= 1, NCH >= 1))
        ch, CH = _ch(c)
        return (ch, _idx(c, 'k', NS)), {}
    unit('map_subset_to_chain', mk, lambda c, a, kw, r: c.oblige('post:value', r == a[0][a[1]], 'post'))

    # -- map_cycle_to_chain
    def mk(c):
        sv, SV = _sv(c)
        ch, CH = _ch(c)
        c.assume(NCH >= 1)
        return (ch, sv, _idx(c, 'k', NC)), {}

    def post(c, a, kw, r):
        ch, sv, k = a
        with core.SpecMode():
            uns = sv[k] == -1
            val = ch[ite(uns, 0, sv[k])]
        _opt_post(c, 'post', r, uns, val)
    unit('map_cycle_to_chain', mk, post, inline=['map_cycle_to_subset', 'map_subset_to_chain'])

    # -- map_sample_to_chain
    def mk(c):
        sv, SV = _sv(c)
        cv, CV = _cv(c)
        ch, CH = _ch(c)
        s = z3.Int('s')
        c.assume(NCH >= 1)
        c.assume(z3.ForAll([s], CV(s) < NC, patterns=[CV(s)]))
        return (ch, sv, cv, _idx(c, 'k', N)), {}

    def post(c, a, kw, r):
        ch, sv, cv, s = a
        with core.SpecMode():
            unl = cv[s] == -1
            sub = sv[ite(unl, 0, cv[s])]
            none_iff = or_(unl, sub == -1)
            val = ch[ite(none_iff, 0, sub)]
        _opt_post(c, 'post', r, none_iff, val)
    unit('map_sample_to_chain', mk, post, inline=['map_sample_to_cycle', 'map_cycle_to_subset', 'map_sample_to_subset', 'map_subset_to_chain'])

    # -- projections: out[i] = vals[key[i]] where key[i] in [0, len(vals)), NaN elsewhere
    def proj_unit(name, keyname, inline, nkeys_name, nvals_name):
        NK, NV = z3.Int(nkeys_name), z3.Int(nvals_name)

        def mk(c):
            key, KEY = vec(keyname, NK, 'i')
            V = z3.Function('vals', I, R)
            VN = z3.Function('vals_missing', I, B)       # the values may themselves be missing (NaN): a projection of a projection
            vals = SArr((NV,), lambda q: V(q), 'f', nan=lambda q: VN(q))
            i = z3.Int('i')
            c.assume(z3.And(NK >= 1, NV >= 0))
            c.assume(z3.ForAll([i], KEY(i) >= -1, patterns=[KEY(i)]))
            return (vals, key), {}

        def spec(out, vals, key, i, upto):
            return _proj_spec(out, vals, key, i, upto)
        loops = {0: {'inv': [
            ('shape', lambda e: e.out.shape[0] == getattr(e, keyname_arg(name)).shape[0]),
            ('placed', lambda e: forall(0, getattr(e, keyname_arg(name)).shape[0], lambda i: spec(e.out, e.vals, getattr(e, keyname_arg(name)), i, e.ii))),
        ]}}

        def post(c, a, kw, r):
            vals, key = a
            c.oblige('post:shape', r.shape_e[0] == key.shape_e[0], 'post')
            i = SInt(z3.Int('pi'))
            with core.SpecMode():
                c.oblige('post:placed', implies(and_(0 <= i, i < key.shape[0]), lambda: spec(r, vals, key, i, vals.shape[0])), 'post')
        unit(name, mk, post, loops=loops, inline=inline)

    def keyname_arg(fn):
        return {'project_cycles_to_samples': 'cycle_vect', 'project_subset_to_cycles': 'subset_vect', 'project_chain_to_subset': 'chain_vect'}[fn]
    proj_unit('project_cycles_to_samples', 'cyclevect', ['map_cycle_to_samples'], 'N', 'NV')
    proj_unit('project_subset_to_cycles', 'subsetvect', ['map_subset_to_cycle'], 'NC', 'NV')
    proj_unit('project_chain_to_subset', 'chainvect', ['map_chain_to_subset'], 'NS', 'NV')

    # -- composite projections, modularly: the inner projections by their contracts (units above)
    def comp_unit(name, nargs, stubs, expect):
        def mk(c):
            V = z3.Function('vals', I, R)
            vals = SArr((NCH,), lambda q: V(q), 'f')
            c.assume(z3.And(NCH >= 0, NS >= 1, NC >= 1, N >= 1))
            ch, CH = vec('ch', NS, 'i')
            sv, SV = vec('sv', NC, 'i')
            cv, CV = vec('cv', N, 'i')
            i = z3.Int('i')
            for F in (CH, SV, CV):
                c.assume(z3.ForAll([i], F(i) >= -1, patterns=[F(i)]))
            return {'cs': (vals, ch, sv), 'cm': (vals, ch, sv, cv), 'sm': (SArr((NS,), lambda q: V(q), 'f'), sv, cv)}[nargs], {}

        def post(c, a, kw, r):
            i = SInt(z3.Int('pi'))
            n_out = a[-1].shape[0]
            c.oblige('post:shape', r.shape_e[0] == a[-1].shape_e[0], 'post')
            with core.SpecMode():
                nanf = npshim.isnan(r)
                hit, val = expect(a, i)
                c.oblige('post:placed', implies(and_(0 <= i, i < n_out), lambda: and_(implies(hit, lambda: and_(not_(nanf[i]), r[i] == val())), implies(not_(hit), lambda: nanf[i]))), 'post')
        u = Unit(name, SUP, name, mk, post, module=CS, ns={k: _proj_stub(k) for k in stubs})
        U.append(u)

    def chain_of_cycle(a, i):          # (vals, ch, sv[, cv]) at cycle i
        vals, ch, sv = a[0], a[1], a[2]
        k = sv[i]
        inner = lambda: ch[ite(and_(0 <= k, k < ch.shape[0]), k, 0)]
        hit = and_(0 <= k, k < ch.shape[0], 0 <= inner(), inner() < vals.shape[0])
        return hit, (lambda: vals[inner()])
    comp_unit('project_chain_to_cycles', 'cs', ['project_chain_to_subset', 'project_subset_to_cycles'], chain_of_cycle)

    def chain_of_sample(a, i):
        vals, ch, sv, cv = a
        cyc = cv[i]
        okc = and_(0 <= cyc, cyc < sv.shape[0])
        cyc0 = ite(okc, cyc, 0)
        h1, v1 = chain_of_cycle((vals, ch, sv), cyc0)
        return and_(okc, h1), v1
    # -- project_subset_to_samples: inner projection by contract, then its own placement loop (same invariant as the basic projections)
    def subset_of_sample(a, i):
        vals, sv, cv = a
        cyc = cv[i]
        okc = and_(0 <= cyc, cyc < sv.shape[0])
        k = sv[ite(okc, cyc, 0)]
        hit = and_(okc, 0 <= k, k < vals.shape[0])
        return hit, (lambda: vals[ite(hit, k, 0)])
    comp_unit('project_subset_to_samples', 'sm', ['project_subset_to_cycles'], subset_of_sample)
    U[-1].loops = {0: {'inv': [
        ('shape', lambda e: e.out.shape[0] == e.cycle_vect.shape[0]),
        ('placed', lambda e: forall(0, e.cycle_vect.shape[0], lambda i: _proj_spec(e.out, e.cycle_vals, e.cycle_vect, i, e.ii))),
    ]}}
    U[-1].inline = [(SUP, 'map_cycle_to_samples', {})]

    def chain_to_cycles_stub(vals, chain_vect, subset_vect):
        """contract of project_chain_to_cycles (the unit just above)"""
        c = core.C()
        n = subset_vect.shape_e[0]
        q = c.fresh('pq', I)
        c.obl.append(core.Obligation('project_chain_to_cycles:requires-keys->=-1', list(c.pc) + [z3.And(0 <= q, q < n)], subset_vect.elem(q) >= -1, 'pre', list(c.prefix[:c.pos])))
        q2 = c.fresh('pq', I)
        c.obl.append(core.Obligation('project_chain_to_cycles:requires-keys->=-1', list(c.pc) + [z3.And(0 <= q2, q2 < chain_vect.shape_e[0])], chain_vect.elem(q2) >= -1, 'pre', list(c.prefix[:c.pos])))
        c.oblige('project_chain_to_cycles:requires-nonempty-key-vector', z3.And(n >= 1, chain_vect.shape_e[0] >= 1), 'pre')
        O = c.fresh_fun('p2c_out', I, R)
        ON = c.fresh_fun('p2c_missing', I, B)
        out = SArr((n,), lambda i: O(i), 'f', nan=lambda i: ON(i))
        i = SInt(z3.Int('sq%d' % next(core._buf_ids)))
        with core.SpecMode():
            nanf = npshim.isnan(out)
            hit, val = chain_of_cycle((vals, chain_vect, subset_vect), i)
            body = implies(and_(0 <= i, i < wrap(n)), lambda: and_(implies(hit, lambda: and_(not_(nanf[i]), out[i] == val())), implies(not_(hit), lambda: nanf[i])))
        c.assume(z3.ForAll([i.e], lift(body)))
        return out

    def comp_unit2():
        comp_unit('project_chain_to_samples', 'cm', ['project_cycles_to_samples'], chain_of_sample)
        U[-1].ns['project_chain_to_cycles'] = chain_to_cycles_stub
    comp_unit2()

    # -- get_subset_vector: out[i] = -1 if valids[i] == 0 else (number of selected entries before i)
    CNT = z3.Function('cnt', I, I)

    def mk(c):
        n = z3.Int('NC')
        valids, V = vec('valids', n, 'i')
        k = z3.Int('k')
        c.assume(n >= 0)
        c.assume(CNT(0) == 0)
        c.assume(z3.ForAll([k], z3.Implies(k >= 0, CNT(k + 1) == CNT(k) + z3.If(V(k) == 0, 0, 1)), patterns=[CNT(k + 1)]))
        return (valids,), {}

    def spec_at(valids, out, i):
        return out[i] == ite(valids[i] == 0, -1, wrap(CNT(lift(i))))
    loops = {0: {'inv': [('count', lambda e: e.count == wrap(CNT(lift(e.ii)))),
                         ('prefix', lambda e: forall(0, e.ii, lambda s: spec_at(e.valids, e.subset_vect, s)))]}}

    def post(c, a, kw, r):
        c.oblige('post:len', r.shape_e[0] == a[0].shape_e[0], 'post')
        c.oblige('post:elems', forall(0, a[0].shape[0], lambda s: spec_at(a[0], r, s)), 'post')
    unit('get_subset_vector', mk, post, loops=loops, path='emd/cycles.py', module=EC,
         obs=[{'kind': 'scalar', 'name': 'NC'}, {'kind': 'array', 'name': 'valids', 'shape': ['NC']}], bound=[('NC', 0)])

    # -- get_chain_vector: chain ids of the selected cycles; a new chain starts where consecutive selected cycles are not adjacent
    def mk(c):
        sv, SV = vec('sv', NC, 'i')
        i = z3.Int('i')
        c.assume(NC >= 1)
        c.assume(z3.ForAll([i], SV(i) >= -1, patterns=[SV(i)]))
        return (sv,), {}

    def chain_spec(ci, out, i):
        # ci = positions of the selected cycles (strictly increasing)
        return and_(implies(i == 0, lambda: out[i] == 0),
                    implies(i >= 1, lambda: out[i] == out[i - 1] + ite(ci[i] - ci[i - 1] > 1, 1, 0)))
    loops = {0: {'inv': [('count', lambda e: implies(e.ii >= 1, lambda: e.count == e.chainv[e.ii - 1])),
                         ('count0', lambda e: implies(e.ii == 0, e.count == 0)),
                         ('prefix', lambda e: forall(0, e.ii, lambda s: chain_spec(e.chain_inds, e.chainv, s)))]}}

    def post(c, a, kw, r):
        sv = a[0]
        with core.SpecMode():
            ci = npshim.where(sv > -1)[0]
        c.oblige('post:len', r.shape_e[0] == ci.shape_e[0], 'post')
        c.oblige('post:elems', forall(0, ci.shape[0], lambda s: chain_spec(ci, r, s)), 'post')
    unit('get_chain_vector', mk, post, loops=loops, path='emd/cycles.py', module=EC,
         obs=[{'kind': 'scalar', 'name': 'NC'}, {'kind': 'array', 'name': 'sv', 'shape': ['NC']}], bound=[('NC', 0)])
    return U


def lemmas(tier):
    """Round trips over the contracts: mapping a sample forward and back yields a set containing it."""
    CV = z3.Function('cv', I, I)
    SV = z3.Function('sv', I, I)
    CH = z3.Function('ch', I, I)
    s = z3.Int('s')
    inN = z3.And(0 <= s, s < N)
    # contracts: sample->cycle = cv[s] (None iff -1); cycle->samples(c) = {t: cv[t]=c}
    L = []
    L.append(('roundtrip:sample-cycle', [inN, CV(s) != -1], z3.And(inN, CV(s) == CV(s))))
    c_ = CV(s)
    k_ = SV(c_)
    wf = [z3.ForAll([K], z3.Implies(z3.And(0 <= K, K < NC, SV(K) != -1), POS(SV(K)) == K), patterns=[SV(K)])]
    # sample->subset = sv[cv[s]]; subset->samples(k) = {t: cv[t] = POS(k)}
    L.append(('roundtrip:sample-subset', wf + [inN, c_ != -1, c_ < NC, 0 <= c_, k_ != -1], CV(s) == POS(k_)))
    # sample->chain = ch[sv[cv[s]]]; chain->samples(h) = {t: cv[t]>=0, sv[cv[t]]>=0, ch[sv[cv[t]]] = h}
    L.append(('roundtrip:sample-chain', wf + [inN, c_ != -1, k_ != -1], z3.And(c_ != -1, k_ != -1, CH(k_) == CH(k_))))
    return L


# ----------------------------------------------------------------------------- native reference model

def ref_maps(cv, sv, ch):
    cv, sv, ch = np.asarray(cv), np.asarray(sv), np.asarray(ch)
    s2c = [None if v == -1 else int(v) for v in cv]
    c2k = [None if v == -1 else int(v) for v in sv]
    k2h = [int(v) for v in ch]
    return s2c, c2k, k2h


def _eq_opt(a, b):
    if a is None or b is None:
        return a is None and b is None
    return int(a) == int(b)


def check_structure(cv, sv, ch, emit, tag):
    """All clauses of C16 on one (cycle_vect, subset_vect, chain_vect) structure; returns list of (clause, detail)."""
    import emd._cycles_support as CS
    cv, sv, ch = np.array(cv), np.array(sv), np.array(ch)
    keep = (cv.copy(), sv.copy(), ch.copy())            # every call below receives these same three vectors
    bad = []
    s2c, c2k, k2h = ref_maps(cv, sv, ch)
    nS, nC, nK = len(cv), len(sv), len(ch)
    nH = (int(ch.max()) + 1) if nK else 0

    def call(clause, f, *a):
        try:
            return True, f(*a)
        except Exception as ex:
            bad.append(('defined-for-every-item:%s' % f.__name__, '%s%s raised %s: %s' % (f.__name__, tuple(np.asarray(x).tolist() if isinstance(x, np.ndarray) else x for x in a), type(ex).__name__, ex)))
            return False, None
    # forward maps
    for s in range(nS):
        ok, r = call('fwd', CS.map_sample_to_cycle, cv, s)
        if ok and not _eq_opt(r, s2c[s]):
            bad.append(('forward-none-exactly-when-unmapped:map_sample_to_cycle', 'sample %d -> %r, expected %r' % (s, r, s2c[s])))
        exp = None if s2c[s] is None else c2k[s2c[s]]
        ok, r = call('fwd', CS.map_sample_to_subset, sv, cv, s)
        if ok and not _eq_opt(r, exp):
            bad.append(('forward-none-exactly-when-unmapped:map_sample_to_subset', 'sample %d -> %r, expected %r' % (s, r, exp)))
        exph = None if exp is None else k2h[exp]
        if nK:
            ok, r = call('fwd', CS.map_sample_to_chain, ch, sv, cv, s)
            if ok and not _eq_opt(r, exph):
                bad.append(('forward-none-exactly-when-unmapped:map_sample_to_chain', 'sample %d -> %r, expected %r' % (s, r, exph)))
    for c in range(nC):
        ok, r = call('fwd', CS.map_cycle_to_subset, sv, c)
        if ok and not _eq_opt(r, c2k[c]):
            bad.append(('forward-none-exactly-when-unmapped:map_cycle_to_subset', 'cycle %d -> %r expected %r' % (c, r, c2k[c])))
        if nK:
            exph = None if c2k[c] is None else k2h[c2k[c]]
            ok, r = call('fwd', CS.map_cycle_to_chain, ch, sv, c)
            if ok and not _eq_opt(r, exph):
                bad.append(('forward-none-exactly-when-unmapped:map_cycle_to_chain', 'cycle %d -> %r expected %r' % (c, r, exph)))
        ok, r = call('bwd', CS.map_cycle_to_samples, cv, c)
        exp = [s for s in range(nS) if s2c[s] == c]
        if ok and list(np.atleast_1d(r)) != exp:
            bad.append(('backward-is-preimage:map_cycle_to_samples', 'cycle %d -> %s expected %s' % (c, list(r), exp)))
    for k in range(nK):
        ok, r = call('fwd', CS.map_subset_to_chain, ch, k)
        if ok and int(r) != k2h[k]:
            bad.append(('forward:map_subset_to_chain', 'subset %d -> %r expected %r' % (k, r, k2h[k])))
        ok, r = call('bwd', CS.map_subset_to_cycle, sv, k)
        exp = [c for c in range(nC) if c2k[c] == k]
        if ok and list(np.atleast_1d(r)) != exp:
            bad.append(('backward-is-preimage:map_subset_to_cycle', 'subset %d -> %s expected %s' % (k, r, exp)))
        ok, r = call('bwd', CS.map_subset_to_sample, sv, cv, k)
        exp = [s for s in range(nS) if s2c[s] is not None and c2k[s2c[s]] == k]
        if ok and list(np.atleast_1d(r)) != exp:
            bad.append(('backward-is-preimage:map_subset_to_sample', 'subset %d -> %s expected %s' % (k, r, exp)))
    for h in range(nH):
        ok, r = call('bwd', CS.map_chain_to_subset, ch, h)
        exp = [k for k in range(nK) if k2h[k] == h]
        if ok and list(np.atleast_1d(r)) != exp:
            bad.append(('backward-is-preimage:map_chain_to_subset', 'chain %d -> %s expected %s' % (h, r, exp)))
        ok, r = call('bwd', CS.map_chain_to_cycle, ch, sv, h)
        exp = [c for c in range(nC) if c2k[c] is not None and k2h[c2k[c]] == h]
        if ok:
            try:
                got = [int(v) for v in np.atleast_1d(r)]
            except Exception:
                got = r
            if got != exp:
                bad.append(('backward-is-preimage:map_chain_to_cycle', 'chain %d -> %s expected %s' % (h, got, exp)))
        ok, r = call('bwd', CS.map_chain_to_samples, ch, sv, cv, h)
        exp = [s for s in range(nS) if s2c[s] is not None and c2k[s2c[s]] is not None and k2h[c2k[s2c[s]]] == h]
        if ok and list(np.atleast_1d(r)) != exp:
            bad.append(('backward-is-preimage:map_chain_to_samples', 'chain %d -> %s expected %s' % (h, list(r), exp)))
    # projections
    def projcheck(name, got, exp):
        got = np.asarray(got, dtype=float)
        e = np.array([np.nan if v is None else v for v in exp], dtype=float)
        if got.shape != e.shape or not np.array_equal(np.isnan(got), np.isnan(e)) or not np.allclose(got[~np.isnan(e)], e[~np.isnan(e)]):
            bad.append(('projection-places-values-exactly:%s' % name, 'got %s expected %s' % (got.tolist(), e.tolist())))
    # three value sets per level: non-integer values (means, ratios), and integer-valued ones that COLLIDE with the index range of their own level
    # (counts, positions: the value at item i equals the index of another item) - a projection carries any value unaltered, whatever it looks like
    for tag_, mk_ in (('', lambda n, a0, st: a0 + st * np.arange(n)), (':values-equal-to-other-indices', lambda n, a0, st: np.arange(n)[::-1].astype(float)),
                      (':values-equal-to-later-indices', lambda n, a0, st: (np.arange(n) + 1.0) % max(n, 1))):
        cvals, kvals, hvals = mk_(nC, 10.25, 1.5), mk_(nK, 100.75, 0.5), mk_(nH, 0.25, 2.5)
        ok, r = call('proj', CS.project_cycles_to_samples, cvals, cv)
        if ok:
            projcheck('project_cycles_to_samples' + tag_, r, [None if c is None else cvals[c] for c in s2c])
        if nK:
            ok, r = call('proj', CS.project_subset_to_cycles, kvals, sv)
            if ok:
                projcheck('project_subset_to_cycles' + tag_, r, [None if k is None else kvals[k] for k in c2k])
            ok, r = call('proj', CS.project_subset_to_samples, kvals, sv, cv)
            if ok:
                projcheck('project_subset_to_samples' + tag_, r, [None if (c is None or c2k[c] is None) else kvals[c2k[c]] for c in s2c])
            ok, r = call('proj', CS.project_chain_to_subset, hvals, ch)
            if ok:
                projcheck('project_chain_to_subset' + tag_, r, [hvals[h] for h in k2h])
            ok, r = call('proj', CS.project_chain_to_cycles, hvals, ch, sv)
            if ok:
                projcheck('project_chain_to_cycles' + tag_, r, [None if k is None else hvals[k2h[k]] for k in c2k])
            ok, r = call('proj', CS.project_chain_to_samples, hvals, ch, sv, cv)
            if ok:
                projcheck('project_chain_to_samples' + tag_, r, [None if (c is None or c2k[c] is None) else hvals[k2h[c2k[c]]] for c in s2c])
    if not all(np.array_equal(u, v) for u, v in zip((cv, sv, ch), keep)):
        bad.append(('maps-leave-the-index-vectors-unchanged', 'after all map_* / project_* calls the cycle / subset / chain vectors are %s %s %s, they were %s %s %s' % (
            cv.tolist(), sv.tolist(), ch.tolist(), keep[0].tolist(), keep[1].tolist(), keep[2].tolist())))
    return bad


def build(valids, layout):
    """cycle_vect from a layout (list of (cycle length, gap before)) and the subset / chain vectors from the real constructors"""
    import emd.cycles as EC
    cv = []
    for c, (ln, gap) in enumerate(layout):
        cv += [-1] * gap + [c] * ln
    cv = np.array(cv + [-1] * (1 if layout and layout[-1][1] else 0), dtype=int)
    valids = np.asarray(valids)
    sv = EC.get_subset_vector(valids)
    ch = EC.get_chain_vector(sv)
    return cv, sv, ch


def ref_subset_chain(valids):
    sv, ch = [], []
    n = 0
    prev = None
    for i, v in enumerate(valids):
        if v:
            sv.append(n)
            n += 1
            if prev is None:
                ch.append(0)
            else:
                ch.append(ch[-1] + (1 if i - prev > 1 else 0))
            prev = i
        else:
            sv.append(-1)
    return sv, ch


def replay(w):
    if w.get('kind') != 'index_structure':
        return False, 'unknown witness kind'
    import emd.cycles as EC
    valids = np.array(w['valids'])
    try:
        cv, sv, ch = build(valids, [tuple(x) for x in w['layout']])
    except Exception as ex:
        return True, 'constructors raised %s: %s' % (type(ex).__name__, ex)
    rs, rc = ref_subset_chain(valids)
    if list(sv) != rs or list(ch) != rc:
        return True, 'constructors: subset %s chain %s, expected %s %s' % (list(sv), list(ch), rs, rc)
    bad = check_structure(cv, sv, ch, None, '')
    bad = [b for b in bad if w.get('clause') is None or b[0] == w['clause']] or bad
    if bad:
        return True, '%s: %s (cycle_vect=%s subset_vect=%s chain_vect=%s)' % (bad[0][0], bad[0][1], cv.tolist(), sv.tolist(), ch.tolist())
    return False, 'all maps agree with the set-theoretic definitions'


def model_witness(unit_name, model):
    return None


def refute(tier, seed, emit):
    maxn = 7 if tier == 'quick' else 12
    emit.scope('every boolean selection vector of length 1..%d x 3 cycle layouts (all length 2; lengths 1..3 cyclic; with unlabelled gaps) - every map_* / project_* call compared with its set-theoretic definition; non-trivial = at least one selected and one unselected cycle' % maxn, exhaustive=True)
    for n in range(1, maxn + 1):
        layouts = [[(2, 0)] * n, [(1 + (i % 3), 0) for i in range(n)], [(1 + (i % 2), i % 2) for i in range(n)]]
        if tier == 'thorough' and n > 9:
            layouts = layouts[2:]
        for valids in itertools.product((0, 1), repeat=n):
            for li, layout in enumerate(layouts):
                emit.case((valids, li), nontrivial=(0 < sum(valids) < n) or n == 1, contract='map_*/project_*')
                w = {'kind': 'index_structure', 'valids': list(valids), 'layout': [list(x) for x in layout]}
                try:
                    cv, sv, ch = build(valids, layout)
                except Exception as ex:
                    emit.violation('constructors-never-fail:%s' % type(ex).__name__, w, 'get_subset_vector/get_chain_vector raised %s' % ex)
                    continue
                rs, rc = ref_subset_chain(valids)
                if list(sv) != rs or list(ch) != rc:
                    emit.violation('constructors-match-definition', w, 'subset %s chain %s expected %s %s' % (list(sv), list(ch), rs, rc))
                    continue
                for clause, detail in check_structure(cv, sv, ch, emit, ''):
                    emit.violation(clause, w, detail)
            if emit.full:
                return
    r = rng(seed, 16)
    nbig = 20 if tier == 'quick' else 200
    emit.scope('%d seeded random larger structures (20..60 cycles)' % nbig)
    for k in range(nbig):
        n = int(r.randint(20, 60))
        valids = (r.rand(n) < r.choice([0.2, 0.5, 0.8])).astype(int)
        layout = [(int(r.randint(1, 5)), int(r.rand() < 0.3)) for _ in range(n)]
        emit.case(('big', k), contract='map_*/project_*')
        w = {'kind': 'index_structure', 'valids': valids.tolist(), 'layout': [list(x) for x in layout]}
        try:
            cv, sv, ch = build(valids, layout)
        except Exception as ex:
            emit.violation('constructors-never-fail:%s' % type(ex).__name__, w, 'constructors raised %s' % ex)
            continue
        for clause, detail in check_structure(cv, sv, ch, emit, ''):
            emit.violation(clause, w, detail)
        if emit.full:
            return
