"""C20 - logging never changes results and verbosity overrides are temporary.

Functions under contract (emd/logger.py), executed from the real source on a ghost model of the `logging` module:
  wrap_verbose.inner_verbose   (the decorator body around every sift variant)
  sift_logger.add_logger.sift_logger (the logging decorator)
  set_level, get_level, enable, disable
Ghost logger state (finite, explored exhaustively and symbolically): console handler present or absent; its level in
{10,20,30,40,50}; logging.disable level in {0, sys.maxsize} (enabled / emd.logger.disable()); level of the emd logger in
{10,...,50} (Logger.isEnabledFor / getEffectiveLevel are modelled on these).  Per-call verbosity in {absent, None, CRITICAL, WARNING, INFO, DEBUG}; the wrapped
function either returns r or raises E.
  inner_verbose: normal exit  => returns exactly r and the console level is what it was before the call;
                 exceptional  => propagates exactly E and the console level is what it was before the call;
                 it raises nothing of its own - in particular when the logger was never set up (no console handler).
  sift_logger  : returns exactly the wrapped function's output, never touches the ghost state.
  set_level / get_level / enable / disable: frame conditions (what each may change).
"""
import itertools
import os
import numpy as np
import z3
from contracts.common import *
from pyvc.verify import Unit

PROPERTY = 'C20'
LEVEL = 'proof'
FUNCTIONS = ['emd.logger.wrap_verbose.inner_verbose', 'emd.logger.sift_logger.add_logger.sift_logger', 'emd.logger.set_level', 'emd.logger.get_level', 'emd.logger.enable', 'emd.logger.disable']
ASSUMPTIONS = [
    "assumed stdlib contract: logging.getLogger('emd').handlers is a list holding at most one handler named 'console'; Handler.level / setLevel / get_name; logging.disable(n) only sets the module-wide disable level; Logger.isEnabledFor(l) <=> l > disable level and l >= the logger's effective level; getattr(logging, NAME) / logging._levelToName are the standard level tables; log records never flow into data",
    'the wrapped sift is an arbitrary function that either returns a value or raises (it does not itself change the logger state)',
    'numerical non-interference of logging is a data-flow statement over the decorators (they return the wrapped result object itself); identity of results across logger states for the real sifts is checked by the bounded stand-in',
]
NOT_COVERED = ['set_up / set_format (logging.config.dictConfig, yaml) - bounded stand-in only', 'logging to a file - bounded stand-in only']

LEVELS = {'CRITICAL': 50, 'ERROR': 40, 'WARNING': 30, 'INFO': 20, 'DEBUG': 10, 'NOTSET': 0}
NAMES = {v: k for k, v in LEVELS.items()}
LVL0 = z3.Int('lvl0')
DISABLED = z3.Int('logging_disable_level')
LOGGER_LEVEL = z3.Int('emd_logger_level')
import sys as _sys_mod
BIG = _sys_mod.maxsize


class StubError(Exception):
    pass


class Handler:
    def __init__(self, g, name):
        self.g, self.name = g, name

    def get_name(self):
        return self.name

    @property
    def level(self):
        if self.name != 'console':
            return 0
        return self.g['lvl']

    def setLevel(self, v):
        if self.name == 'console':
            self.g['lvl'] = v if isinstance(v, SInt) else SInt(lift(v))
            self.g['writes'].append('console.level')

    def setFormatter(self, f):
        pass

    def __getattr__(self, k):
        raise core.Unsupported('logging.Handler.%s is outside the ghost model of the logging module' % k)


class GhostLogger:
    def __init__(self, g):
        self.g = g

    @property
    def handlers(self):
        return [Handler(self.g, 'console')] if self.g['console'] else [Handler(self.g, None)]

    def isEnabledFor(self, level):
        # logging.Logger.isEnabledFor: not globally disabled at that level (logging.disable) and at or above the logger's effective level
        dis = self.g['disabled']
        return SBool(z3.And(lift(level) > lift(dis), lift(level) >= LOGGER_LEVEL))

    def getEffectiveLevel(self):
        return SInt(LOGGER_LEVEL)

    def __getattr__(self, k):
        if k in ('info', 'debug', 'warning', 'error', 'exception', 'critical'):
            return lambda *a, **kw: None
        raise core.Unsupported('logging.Logger.%s is outside the ghost model of the logging module' % k)


class LevelTable:
    """logging._levelToName: a symbolic level is resolved by forking over the five levels"""

    def __getitem__(self, k):
        if k is None:
            raise _KeyErr(None)
        if isinstance(k, SInt):
            c = core.C()
            for v in (10, 20, 30, 40):
                if c.branch(k.e == v):
                    return NAMES[v]
            if c.branch(k.e == 50):
                return NAMES[50]
            raise _KeyErr(k)
        return NAMES[k]


class _KeyErr(KeyError, core.ModelledError):
    pass


class LoggingShim:
    CRITICAL, ERROR, WARNING, INFO, DEBUG, NOTSET = 50, 40, 30, 20, 10, 0
    _levelToName = LevelTable()

    def __init__(self, g):
        self.g = g

    def getLogger(self, name=None):
        return GhostLogger(self.g)

    def disable(self, level=50):
        self.g['disabled'] = level
        self.g['writes'].append('logging.disable')


def _ghost(c, console):
    # logging.disable(level) state: 0 (enabled) or sys.maxsize (emd.logger.disable()); the emd logger's own level: any standard level
    g = {'console': console, 'lvl': SInt(LVL0), 'disabled': SInt(DISABLED), 'writes': []}
    c.assume(z3.Or(*[LVL0 == v for v in (10, 20, 30, 40, 50)]))
    c.assume(z3.Or(DISABLED == 0, DISABLED == BIG))
    c.assume(z3.Or(*[LOGGER_LEVEL == v for v in (10, 20, 30, 40, 50)]))
    c.ghost['g'] = g
    return g


def _ns(g):
    lg = LoggingShim(g)
    import sys as _sys
    return {'logging': lg, 'sys': _sys}


R_TOKEN = object()


def _mk_inner(console, verbose, raises):
    def mk(c):
        g = _ghost(c, console)
        c.ghost['ns_logging'] = g

        def func(*a, **kw):
            g['called'] = g.get('called', 0) + 1
            g['lvl_during'] = g['lvl']
            g['kwargs_seen'] = dict(kw)
            if raises:
                raise StubError('wrapped sift failed')
            return R_TOKEN
        c.ghost['func'] = func
        kw = {} if verbose == 'absent' else {'verbose': verbose}
        return ('X',), kw
    return mk


def _wrap_call(console):
    def call(f, c, args, kwargs):
        g = c.ghost['g']
        f.__globals__['func'] = c.ghost['func']
        f.__globals__['logging'] = LoggingShim(g)
        return f(*args, **kwargs)
    return call


def _post_inner(verbose):
    def post(c, a, kw, r):
        g = c.ghost['g']
        c.oblige('post:returns-the-wrapped-result-unchanged', z3.BoolVal(r is R_TOKEN), 'post')
        c.oblige('post:wrapped-function-called-exactly-once', z3.BoolVal(g.get('called') == 1), 'post')
        c.oblige('post:console-level-restored-on-return', lift(g['lvl']) == LVL0, 'post')
        if verbose in LEVELS and g['console']:
            c.oblige('post:override-in-force-during-the-call', lift(g['lvl_during']) == LEVELS[verbose], 'post')
        c.oblige('post:verbose-forwarded', z3.BoolVal(g.get('kwargs_seen') == kw), 'post')
    return post


def _exc_inner(c, a, kw, ex):
    g = c.ghost['g']
    c.oblige('exc:propagates-the-wrapped-exception', z3.BoolVal(isinstance(ex, StubError)), 'post')
    c.oblige('exc:console-level-restored-on-raise', lift(g['lvl']) == LVL0, 'post')


def units(tier):
    import emd.logger as EL
    U = []
    inl = [('emd/logger.py', 'get_level', {}), ('emd/logger.py', 'set_level', {})]
    for console in (True, False):
        for verbose in ('absent', None, 'CRITICAL', 'WARNING', 'INFO', 'DEBUG'):
            for raises in (False, True):
                u = Unit('inner_verbose[console=%s,verbose=%s,%s]' % (console, verbose, 'raises' if raises else 'returns'), 'emd/logger.py', 'wrap_verbose.inner_verbose',
                         _mk_inner(console, verbose, raises), _post_inner(verbose), module=EL, inline=inl, wrap_call=_wrap_call(console),
                         raises={Exception: _exc_inner}, observables=[{'kind': 'scalar', 'name': 'lvl0'}])
                U.append(u)

    # sift_logger: returns func output unchanged, no write to the ghost state
    def mk_sl(c):
        g = _ghost(c, True)
        out = np.zeros((4, 2))
        c.ghost['out'] = out

        seen = {}

        def func(*a, **kw):
            seen['args'], seen['kwargs'] = a, dict(kw)
            return out
        c.ghost['func'] = func
        c.ghost['seen'] = seen
        x = np.zeros((4,))
        kw = {'max_imfs': 2, 'imf_opts': {'sd_thresh': 0.05}, 'envelope_opts': {'interp_method': 'pchip'}, 'extrema_opts': {'pad_width': 3}, 'sift_thresh': 1e-6}
        c.ghost['given'] = ((x,), {k: (dict(v) if isinstance(v, dict) else v) for k, v in kw.items()})
        return (x,), kw

    def call_sl(f, c, args, kwargs):
        f.__globals__['func'] = c.ghost['func']
        f.__globals__['sift_name'] = 'sift'
        f.__globals__['logging'] = LoggingShim(c.ghost['g'])
        f.__globals__['logger'] = GhostLogger(c.ghost['g'])       # the module-level logger of emd/logger.py, in the same ghost state
        import numpy as _np
        f.__globals__['np'] = _np
        f.__globals__['isinstance'] = isinstance
        return f(*args, **kwargs)

    def post_sl(c, a, kw, r):
        g = c.ghost['g']
        c.oblige('post:returns-the-wrapped-result', z3.BoolVal(r is c.ghost['out'] or (isinstance(r, np.ndarray) and r.shape == c.ghost['out'].shape and np.array_equal(r, c.ghost['out']))), 'post')
        c.oblige('post:no-write-to-logger-state', z3.BoolVal(g['writes'] == []), 'post')
        # whatever the logger state (console level, emd logger level, logging.disable): the wrapped sift receives exactly the caller's
        # positional arguments and keyword arguments - option dictionaries included - so logging cannot change what is computed
        seen, (ga, gk) = c.ghost['seen'], c.ghost['given']
        c.oblige('post:wrapped-function-receives-exactly-the-callers-arguments', z3.BoolVal(len(seen.get('args', ())) == 1 and seen['args'][0] is ga[0] and seen.get('kwargs') == gk), 'post',
                 note='received %r' % (seen.get('kwargs'),))
        c.oblige('post:callers-option-dictionaries-not-modified', z3.BoolVal(kw == gk), 'post')
    U.append(Unit('sift_logger', 'emd/logger.py', 'sift_logger.add_logger.sift_logger', mk_sl, post_sl, module=EL, wrap_call=call_sl))

    # set_level / get_level / enable / disable
    for console in (True, False):
        for name in ('CRITICAL', 'WARNING', 'INFO', 'DEBUG'):
            def mk(c, console=console, name=name):
                _ghost(c, console)
                return (name,), {}

            def call(f, c, args, kwargs):
                f.__globals__['logging'] = LoggingShim(c.ghost['g'])
                return f(*args, **kwargs)

            def post(c, a, kw, r, console=console, name=name):
                g = c.ghost['g']
                c.oblige('post:level-set-iff-console', lift(g['lvl']) == (LEVELS[name] if console else LVL0), 'post')
                c.oblige('post:frame', z3.And(lift(g['disabled']) == DISABLED, z3.BoolVal(g['console'] == console)), 'post')
            U.append(Unit('set_level[console=%s,%s]' % (console, name), 'emd/logger.py', 'set_level', mk, post, module=EL, wrap_call=call))

        def mkg(c, console=console):
            _ghost(c, console)
            return (), {}

        def callg(f, c, args, kwargs):
            f.__globals__['logging'] = LoggingShim(c.ghost['g'])
            return f(*args, **kwargs)

        def postg(c, a, kw, r, console=console):
            g = c.ghost['g']
            if console:
                c.oblige('post:returns-console-level', lift(r) == LVL0 if r is not None else z3.BoolVal(False), 'post')
            else:
                c.oblige('post:none-without-console', z3.BoolVal(r is None), 'post')
            c.oblige('post:pure', z3.BoolVal(g['writes'] == []), 'post')
        U.append(Unit('get_level[console=%s]' % console, 'emd/logger.py', 'get_level', mkg, postg, module=EL, wrap_call=callg))
        for fn in ('enable', 'disable'):
            def postd(c, a, kw, r, fn=fn):
                g = c.ghost['g']
                c.oblige('post:console-level-untouched', lift(g['lvl']) == LVL0, 'post')
                c.oblige('post:only-the-disable-level-written', z3.BoolVal(set(g['writes']) <= {'logging.disable'}), 'post')
            U.append(Unit('%s[console=%s]' % (fn, console), 'emd/logger.py', fn, mkg, postd, module=EL, wrap_call=callg))
    return U


def lemmas(tier):
    """History claim over the contracts: every operation either sets the console level explicitly or preserves it, so after
    any finite history the level is the last one set explicitly (one induction step, for an arbitrary operation)."""
    lvl, lvl2, last, last2, op, arg = z3.Ints('h_lvl h_lvl2 h_last h_last2 h_op h_arg')
    # op 0: set_level(arg) with console ; 1: wrapped call (returns or raises) ; 2: enable/disable ; 3: get_level
    step = z3.And(z3.Implies(op == 0, z3.And(lvl2 == arg, last2 == arg)),
                  z3.Implies(op != 0, z3.And(lvl2 == lvl, last2 == last)))
    return [('history:level-is-last-explicitly-set', [lvl == last, step, 0 <= op, op <= 3], lvl2 == last2)]


def model_witness(unit_name, model):
    if unit_name.startswith('inner_verbose'):
        console = 'console=True' in unit_name
        verbose = unit_name.split('verbose=')[1].split(',')[0]
        raises = unit_name.endswith('raises]')
        return {'kind': 'history', 'start': 'set_up' if console else 'never', 'ops': [['call', None if verbose in ('None', 'absent') else verbose, raises]],
                'level0': NAMES.get(model.get('lvl0', 20), 'INFO')}
    return None


# ----------------------------------------------------------------------------- native contract (in-process, logger state restored afterwards)

def _reset_never():
    import logging
    lg = logging.getLogger('emd')
    for h in list(lg.handlers):
        lg.removeHandler(h)
    lg.addHandler(logging.NullHandler())
    logging.disable(logging.NOTSET)
    # set_up (dictConfig) also sets logger levels: back to the import-time state, so that "never set up" means the same every time
    for name, obj in list(logging.Logger.manager.loggerDict.items()):
        if (name == 'emd' or name.startswith('emd.')) and isinstance(obj, logging.Logger):
            obj.setLevel(logging.NOTSET)
            obj.disabled = False
            obj.propagate = True


def _x():
    t = np.linspace(0, 1, 256)
    return np.sin(2 * np.pi * 13 * t) + 0.5 * np.sin(2 * np.pi * 3 * t) + t


# every call carries non-default option dictionaries: a result that depends on the logger state (options lost on the way) shows up
CALL_KW = {'max_imfs': 2, 'imf_opts': {'sd_thresh': 0.05}, 'envelope_opts': {'interp_method': 'mono_pchip'}, 'extrema_opts': {'pad_width': 3}}


def run_history(start, ops, level0='INFO', variant='sift', log_file=False):
    """returns list of (op, observed level, expected level, error) and the outputs of the successful calls"""
    import contextlib
    import io
    import logging
    import tempfile
    import emd
    _reset_never()
    model = None            # None = never set up
    buf = io.StringIO()
    outs = []
    trace = []
    td = tempfile.TemporaryDirectory() if log_file else None
    with contextlib.redirect_stdout(buf):
        if start == 'set_up':
            if log_file:
                emd.logger.set_up(level=level0, log_file=os.path.join(td.name, 'emd.log'))
            else:
                emd.logger.set_up(level=level0)
            model = LEVELS[level0]
        for op in ops:
            err = None
            if op[0] == 'set_up':
                emd.logger.set_up(level=op[1])
                model = LEVELS[op[1]]
            elif op[0] == 'set_level':
                emd.logger.set_level(op[1])
                if model is not None:
                    model = LEVELS[op[1]]
            elif op[0] == 'disable':
                emd.logger.disable()
            elif op[0] == 'enable':
                emd.logger.enable()
            elif op[0] == 'call':
                f = getattr(emd.sift, variant)
                x = _x()
                if op[2]:
                    x = np.zeros((16, 2, 3))      # rejected by the input checks: the call raises after the override was applied
                try:
                    kw = dict(CALL_KW, imf_opts=dict(CALL_KW['imf_opts']), envelope_opts=dict(CALL_KW['envelope_opts']), extrema_opts=dict(CALL_KW['extrema_opts']))
                    if op[1] is not None or len(op) > 3:
                        kw['verbose'] = op[1]
                    out = f(x, **kw)
                    if op[2]:
                        err = 'call was expected to raise'
                    outs.append(out[0] if isinstance(out, tuple) else out)
                except ValueError as ex:
                    if not op[2]:
                        err = 'call raised %s: %s' % (type(ex).__name__, ex)
                except Exception as ex:
                    err = 'call raised %s: %r' % (type(ex).__name__, ex)
            obs = emd.logger.get_level()
            trace.append((op, obs, model, err))
    if td is not None:
        for h in list(logging.getLogger('emd').handlers):
            h.close()
    _reset_never()
    if td is not None:
        td.cleanup()
    return trace, outs


def replay(w):
    if w.get('kind') != 'history':
        return False, 'unknown witness kind'
    trace, outs = run_history(w['start'], [tuple(o) for o in w['ops']], w.get('level0', 'INFO'), w.get('variant', 'sift'), log_file=bool(w.get('log_file')))
    for op, obs, model, err in trace:
        if err:
            return True, 'start=%s: after %s: %s' % (w['start'], list(op), err)
        if obs != model:
            return True, 'start=%s history %s: console level is %s after %s, expected %s (the last level set explicitly)' % (w['start'], w['ops'], obs, list(op), model)
    ref = w.get('ref')
    if ref is None and w.get('compare_with_never_set_up') and w.get('variant', 'sift') == 'sift':
        import contextlib, io, emd
        _reset_never()
        with contextlib.redirect_stdout(io.StringIO()):
            ref = emd.sift.sift(_x(), **CALL_KW)
    if ref is not None and outs:
        if not all(np.array_equal(o, np.asarray(ref)) for o in outs):
            return True, 'start=%s history %s: numerical result differs from the result obtained with logging never set up' % (w['start'], w['ops'])
    return False, 'levels follow the last explicit setting; results identical'


def refute(tier, seed, emit):
    import emd
    _reset_never()
    import contextlib, io
    with contextlib.redirect_stdout(io.StringIO()):
        ref = emd.sift.sift(_x(), **CALL_KW)
    depth = 2 if tier == 'quick' else 4
    ops = [('set_level', 'DEBUG'), ('set_level', 'WARNING'), ('disable',), ('enable',), ('set_up', 'INFO'),
           ('call', None, False), ('call', 'DEBUG', False), ('call', 'CRITICAL', False), ('call', 'WARNING', True), ('call', None, True)]
    emit.scope('every history of length 1..%d over %d operations {set_level x2, disable, enable, set_up, sift(verbose in {None, DEBUG, CRITICAL}) returning, sift(verbose in {WARNING, None}) raising} from both the never-set-up and the set-up(WARNING) state: get_level() after each step vs the last explicit setting, and sift output vs the never-set-up reference; non-trivial = contains a call with an override' % (depth, len(ops)), exhaustive=True)
    for start in ('never', 'set_up'):
        for d in range(1, depth + 1):
            for hist in itertools.product(ops, repeat=d):
                nontriv = any(o[0] == 'call' and o[1] is not None for o in hist)
                emit.case((start, hist), nontrivial=nontriv, contract='wrap_verbose')
                w = {'kind': 'history', 'start': start, 'ops': [list(o) for o in hist], 'level0': 'WARNING', 'ref': ref.tolist()}
                ok, msg = replay(w)
                if ok:
                    cl = 'override-before-set_up-is-harmless' if (start == 'never' and not any(o[0] == 'set_up' for o in hist)) else \
                        ('level-restored-when-the-call-raises' if any(o[0] == 'call' and o[2] for o in hist) else 'level-restored-after-the-call')
                    if 'numerical' in msg:
                        cl = 'results-independent-of-logger-state'
                    w2 = dict(w)
                    w2.pop('ref')
                    w2['compare_with_never_set_up'] = True      # (the replay recomputes the reference instead of carrying the array)
                    emit.violation(cl, w2, msg)
            if emit.full:
                return
    # other variants and logging to a file
    emit.scope('mask_sift / ensemble_sift with overrides from both start states; logging to a file')
    import tempfile
    for variant in ('mask_sift', 'ensemble_sift'):
        for start in ('never', 'set_up'):
            for vb in ('DEBUG', 'CRITICAL'):
                emit.case((variant, start, vb), contract='wrap_verbose')
                w = {'kind': 'history', 'start': start, 'ops': [['call', vb, False], ['call', vb, True]], 'level0': 'INFO', 'variant': variant}
                ok, msg = replay(w)
                if ok:
                    emit.violation('other-variants:' + variant, w, msg)
    for lvl0 in ('DEBUG', 'WARNING'):
        emit.case(('file', lvl0), contract='wrap_verbose')
        w = {'kind': 'history', 'start': 'set_up', 'ops': [['call', 'INFO', False], ['call', None, False]], 'level0': lvl0, 'compare_with_never_set_up': True, 'log_file': True}
        ok, msg = replay(w)
        if ok:
            emit.violation('logging-to-file', w, msg)
