"""C19 - array inputs are layout-insensitive, validated and never modified.

Functions under contract (emd/support.py), by case analysis over ndim in 1..4 with symbolic extents:
  ensure_1d_with_singleton : accepts exactly (n,), (n,1), (n,1,1), (n,1,1,1) -> the same (n,1) column (same elements); every layout
                             with a trailing extent != 1 must raise ValueError (never returned for processing)
  ensure_vector            : (n,) and (n,1) -> the same (n,) vector; second extent != 1 must raise ValueError
  ensure_2d                : (n,) -> (n,1) with the same elements; higher ndim unchanged
  ensure_equal_dims        : raises ValueError iff a compared extent differs
Frame conditions (no in-place write reaches a buffer or option dictionary owned by the caller), from the real source with
buffer identities tracked by the engine: hilberthuang, hilberthuang_1d, holospectrum, get_cycle_vector, is_good,
sift_second_layer, mask_sift_second_layer (sift callee abstracted), interp_envelope / get_padded_extrema option handling.
"""
import copy
import itertools
import warnings
import numpy as np
import z3
from contracts.common import *
from pyvc.verify import Unit

PROPERTY = 'C19'
LEVEL = 'proof'
FUNCTIONS = ['emd.support.ensure_1d_with_singleton', 'emd.support.ensure_vector', 'emd.support.ensure_2d', 'emd.support.ensure_equal_dims',
             'frame conditions of: emd.spectra.hilberthuang, hilberthuang_1d, holospectrum, emd.cycles.get_cycle_vector, is_good, emd.sift.sift_second_layer, mask_sift_second_layer']
ASSUMPTIONS = [
    'numpy view / copy semantics are modelled by buffer identities: basic slicing, newaxis, squeeze, reshape share the buffer; copy(), arithmetic and astype create a new one (assumed numpy contract)',
    'extents are symbolic, ndim is enumerated 1..4; the signal has at least 2 samples (np.squeeze would also drop a length-1 first axis)',
    'frame units reuse the harnesses of C10 / C11 / C13 with every array argument marked read-only; callees of the second-layer sifts are abstracted to a pure function returning a fresh array',
    'frame units of the numerically heavy entry points (sift, get_next_imf, mask_sift, ensemble variants, envelope / extrema routines, frequency_transform, amplitude_normalise, phase_align, bin_by_phase, cycle detection) reuse the harnesses of their own properties with every array argument read-only: callees are contract stubs there, so each callee needs (and has) its own frame unit; an in-place write that the engine does not model as one (only item / slice assignment and augmented assignment are) would be missed - the bounded stand-in compares the bytes of read-only inputs; determinism is bounded-only',
]
NOT_COVERED = ['determinism (repeated call identical) of every routine; frame of the routines not listed under the frame units (holospectrum squash variants, second-layer frequency transform, Cycles methods): bounded stand-in only',
               'layout equivalence of full results (as opposed to the normalised input) for the sift routines: bounded stand-in only']

N = z3.Int('n')
EXT = [z3.Int('m%d' % d) for d in range(1, 4)]


def _input(c, ndim, name='X'):
    shape = (N,) + tuple(EXT[:ndim - 1])
    f = z3.Function(name, *([I] * ndim + [R]))
    c.assume(N >= 2)
    for m in EXT[:ndim - 1]:
        c.assume(m >= 1)
    return SArr(shape, lambda *ix: f(*ix), 'f')


def _all_one(ndim):
    return z3.And(*[m == 1 for m in EXT[:ndim - 1]]) if ndim > 1 else z3.BoolVal(True)


def _same_column(c, name, X, r, ndim):
    i = z3.Int('ri')
    zeros = [z3.IntVal(0)] * (ndim - 1)
    c.oblige(name + ':shape-is-(n,1)', z3.BoolVal(r.ndim == 2) if r.ndim != 2 else z3.And(r.shape_e[0] == N, r.shape_e[1] == 1), 'post')
    if r.ndim == 2:
        c.oblige(name + ':same-elements', z3.Implies(z3.And(0 <= i, i < N), r.elem(i, z3.IntVal(0)) == X.elem(i, *zeros)), 'post')


def validator_units(tier):
    """the input validators (ensure_1d_with_singleton, ensure_vector, ensure_2d, ensure_equal_dims): also re-run by the checks whose
    argument rests on them (C03)"""
    import emd.support as SP
    U = []
    obs = [{'kind': 'scalar', 'name': 'n'}, {'kind': 'scalar', 'name': 'm1'}, {'kind': 'scalar', 'name': 'm2'}, {'kind': 'scalar', 'name': 'm3'}]
    for ndim in (1, 2, 3, 4):
        # ---- ensure_1d_with_singleton
        def mk(c, ndim=ndim):
            X = _input(c, ndim)
            c.ghost['X'] = X
            return ([X], ['X'], 'caller'), {}

        def post(c, a, kw, r, ndim=ndim):
            X = c.ghost['X']
            c.oblige('post:accepted-only-if-trailing-extents-are-1', _all_one(ndim), 'post')
            if isinstance(r, SArr):
                _same_column(c, 'post', X, r, ndim)
            else:
                c.oblige('post:returns-an-array', z3.BoolVal(False), 'post')

        def exc(c, a, kw, ex, ndim=ndim):
            c.oblige('exc:rejected-only-if-some-trailing-extent-is-not-1', z3.Not(_all_one(ndim)), 'post')
        u = Unit('ensure_1d_with_singleton[ndim=%d]' % ndim, 'emd/support.py', 'ensure_1d_with_singleton', mk, post, module=SP, raises={ValueError: exc}, observables=obs)
        u.frame = True
        u.meta = {'ndim': ndim}
        U.append(u)

        # ---- ensure_vector
        if ndim <= 2:
            def postv(c, a, kw, r, ndim=ndim):
                X = c.ghost['X']
                if ndim == 1:
                    c.oblige('post:vector-unchanged', z3.BoolVal(isinstance(r, SArr) and r.ndim == 1), 'post')
                else:
                    c.oblige('post:accepted-only-single-column', z3.And(EXT[0] == 1, z3.BoolVal(ndim == 2)), 'post')
                    if isinstance(r, SArr) and r.ndim == 1:
                        i = z3.Int('ri')
                        c.oblige('post:same-elements', z3.Implies(z3.And(0 <= i, i < N), r.elem(i) == X.elem(i, *([z3.IntVal(0)] * (ndim - 1)))), 'post')
                    else:
                        c.oblige('post:result-is-1d', z3.BoolVal(False), 'post')

            def excv(c, a, kw, ex, ndim=ndim):
                c.oblige('exc:rejected-only-if-not-a-single-column', z3.BoolVal(ndim > 2) if ndim > 2 else (EXT[0] != 1 if ndim == 2 else z3.BoolVal(False)), 'post')
            u = Unit('ensure_vector[ndim=%d]' % ndim, 'emd/support.py', 'ensure_vector', mk, postv, module=SP, raises={ValueError: excv}, observables=obs)
            u.frame = True
            U.append(u)

        # ---- ensure_2d
        if ndim <= 3:
            def post2(c, a, kw, r, ndim=ndim):
                X = c.ghost['X']
                if ndim == 1:
                    _same_column(c, 'post', X, r, 1)
                else:
                    c.oblige('post:unchanged', z3.BoolVal(isinstance(r, SArr) and r.ndim == ndim and r.buf == X.buf), 'post')
            u = Unit('ensure_2d[ndim=%d]' % ndim, 'emd/support.py', 'ensure_2d', mk, post2, module=SP, observables=obs)
            u.frame = True
            U.append(u)

    # ---- ensure_equal_dims (two and three arrays: the extents of EVERY later array are compared with those of the first)
    for nargs, ndim, dim in ((2, 1, None), (2, 2, None), (2, 2, 0), (2, 2, 1), (2, 3, 0), (2, 3, 1), (3, 1, None), (3, 2, 0), (3, 2, None), (3, 3, 1)):
        def mke(c, nargs=nargs, ndim=ndim, dim=dim):
            shapes, arrs = [], []
            for q in range(nargs):
                sq = [z3.Int('%s%d' % ('abc'[q], d)) for d in range(ndim)]
                for v in sq:
                    c.assume(v >= 1)
                fq = z3.Function('ABC'[q], *([I] * ndim + [R]))
                arrs.append(SArr(tuple(sq), (lambda f: lambda *ix: f(*ix))(fq), 'f'))
                shapes.append(sq)
            c.ghost['shapes'] = shapes
            return (tuple(arrs), tuple('abc'[:nargs]), 'caller'), dict(dim=dim)

        def same(c, ndim=ndim, dim=dim):
            shapes = c.ghost['shapes']
            ds = range(ndim) if dim is None else [dim]
            return z3.And(*[shapes[0][d] == sq[d] for sq in shapes[1:] for d in ds])

        def poste(c, a, kw, r, same=same):
            c.oblige('post:accepted-only-if-compared-extents-agree', same(c), 'post')

        def exce(c, a, kw, ex, same=same):
            c.oblige('exc:rejected-only-if-some-compared-extent-differs', z3.Not(same(c)), 'post')
        u = Unit('ensure_equal_dims[%sndim=%d,dim=%s]' % ('' if nargs == 2 else '%d arrays,' % nargs, ndim, dim), 'emd/support.py', 'ensure_equal_dims', mke, poste, module=SP, raises={ValueError: exce},
                 observables=[{'kind': 'scalar', 'name': nm} for nm in ('a0', 'a1', 'b0', 'b1', 'c0', 'c1')])
        u.frame = True
        U.append(u)
    return U


def units(tier):
    import emd.support as SP
    U = validator_units(tier)

    # ---- frame conditions on other entry points: reuse the harnesses of C10 / C11 / C13 with read-only inputs
    from contracts import C10, C11, C13, C01, C03, C04, C05, C07, C09, C14
    picks = [('C10', C10, lambda n: n in ('hilberthuang[M=2,energy]', 'hilberthuang_1d[M=2,energy]')),
             ('C11', C11, lambda n: n in ('holospectrum[M=2,K=1,energy,squash=False]',)),
             ('C13', C13, lambda n: n in ('get_cycle_vector[return_good=True,mask=given]', 'is_good[ret_all_checks=True]')),
             # the numerically heavy entry points: same harnesses (callees by contract - each callee has its own frame unit here), every array argument read-only
             ('C01', C01, lambda n: n in ('sift[no-cap]',)),
             ('C04', C04, lambda n: n in ('get_next_imf[sd]', 'sd_stop', 'rilling_stop')),
             ('C03', C03, lambda n: n in ('mask_sift[peel,cap]', 'ensemble_sift[shape]', 'complete_ensemble_sift[cap]')),
             ('C05', C05, lambda n: n in ('interp_envelope[splrep,upper,pad=2]', 'get_padded_extrema[peaks,pad=2]', 'get_padded_extrema[troughs,pad=2]', '_find_extrema')),
             ('C07', C07, lambda n: n in ('get_next_imf_mask[nphases=2]',)),
             ('C09', C09, lambda n: n in ('frequency_transform[hilbert]', 'frequency_transform[nht]', 'frequency_transform[quad]', 'freq_from_phase', 'phase_from_freq')),
             ('C14', C14, lambda n: n in ('bin_by_phase[vector,unweighted]', 'phase_align[cycle mode]', 'get_cycle_stat_from_samples'))]
    seen_frame = set()
    for tag, mod, sel in picks:
        for u in mod.units(tier):
            if sel(u.name) and u.name not in seen_frame:
                seen_frame.add(u.name)
                v = Unit('frame:' + u.name, u.path, u.qualname, u.make_inputs, None, loops=u.loops, ns=u.ns, module=u.module, inline=u.inline, raises=u.raises,
                         wrap_call=u.wrap_call)
                v.frame = True
                v.post = _frame_post
                v.keep_kinds = ('frame', 'post')      # (the functional obligations of these harnesses are discharged under their own property)
                for att in ('drop_names',):
                    if hasattr(u, att):
                        setattr(v, att, getattr(u, att))
                U.append(v)

    # ---- get_cycle_vector on an UNWRAPPED phase (values above 2 pi: the re-wrapping branch) must not write into the caller's array
    import emd.cycles as ECY

    def mk_unw(c):
        T = z3.Int('T')
        c.assume(T >= 2)
        for ax in npshim.pi_axioms():
            c.assume(ax)
        ph, P = vec('phase_unwrapped', T)
        return (ph,), dict(return_good=False)

    def call_unw(f, c, a, kw):
        g = f.__globals__

        class Utils:
            wrap_phase = staticmethod(g['wrap_phase'])
        g['utils'] = Utils
        return f(*a, **kw)
    triv = {'inv': [('true', lambda e: True)]}
    v = Unit('frame:get_cycle_vector[unwrapped phase]', 'emd/cycles.py', 'get_cycle_vector', mk_unw, _frame_post, module=ECY, wrap_call=call_unw,
             loops={0: dict(triv), 1: dict(triv)}, inline=[('emd/support.py', 'ensure_2d', {}), ('emd/utils.py', 'wrap_phase', {})])
    v.frame = True
    v.keep_kinds = ('frame', 'post')
    U.append(v)

    # ---- amplitude_normalise: works on a copy for 2-d and for 3-d (second-layer) input
    import emd.utils as EU
    for nd in (2, 3):
        def mk_an(c, nd=nd):
            T = z3.Int('T')
            c.assume(T >= 4)
            shape = (T, 2) if nd == 2 else (T, 1, 2)
            f = z3.Function('Xan', *([I] * nd + [R]))
            return (SArr(shape, lambda *ix: f(*ix), 'f'),), {}

        def call_an(f, c, a, kw):
            def env_stub(X, mode='upper', interp_method='splrep', extrema_opts=None, ret_extrema=False):
                c2 = core.C()
                if c2.branch(c2.fresh('has_env', B)):
                    g = c2.fresh_fun('env', I, R)
                    return SArr((X.shape_e[0],), lambda i: g(i), 'f')
                return None
            f.__globals__['interp_envelope'] = env_stub
            return f(*a, **kw)
        v = Unit('frame:amplitude_normalise[ndim=%d]' % nd, 'emd/utils.py', 'amplitude_normalise', mk_an, _frame_post, module=EU, wrap_call=call_an,
                 loops={2: {'inv': [('true', lambda e: True)],
                            # inside the loop the envelope is an array (it is None only when the loop is not entered)
                            'decl': {'env': lambda e: SArr((e.X.shape_e[0],), (lambda g: lambda i: g(i))(core.C().fresh_fun('envh', I, R)), 'f')}}})
        v.frame = True
        v.keep_kinds = ('frame', 'post')
        U.append(v)

    # ---- second-layer sifts: the caller's option dictionary must not be written
    import emd.sift as ES

    def mk2(kind):
        def mk(c):
            T = z3.Int('T')
            c.assume(T >= 4)
            IA, F = mat('IA', T, 2)
            args = core.FrameDict({'nphases': 2} if kind == 'mask' else {'sift_thresh': 1e-8})
            c.ghost['args0'] = dict(args)
            c.ghost['args'] = args

            def sift_stub(X, **kw):
                f = core.C().fresh_fun('imf', I, I, R)
                ncol = kw.get('max_imfs') or 2
                return SArr((X.shape_e[0], lift(ncol)), lambda i, j: f(i, j), 'f')
            c.ghost['stub'] = sift_stub
            if kind == 'mask':
                mf = npshim.array([0.25, 0.125, 0.0625])
                return (IA, mf), dict(sift_args=args)
            return (IA,), dict(sift_args=args)
        return mk

    def call2(kind):
        def call(f, c, a, kw):
            f.__globals__['mask_sift'] = c.ghost['stub']
            f.__globals__['sift'] = c.ghost['stub']
            if kind != 'mask':
                kw = dict(kw, sift_func=c.ghost['stub'])
            return f(*a, **kw)
        return call

    def post2l(c, a, kw, r):
        c.oblige('post:caller-dict-unchanged', z3.BoolVal(dict(c.ghost['args']) == c.ghost['args0']), 'post')
        _frame_post(c, a, kw, r)
    for kind, q in (('mask', 'mask_sift_second_layer'), ('plain', 'sift_second_layer')):
        v = Unit('frame:' + q, 'emd/sift.py', q, mk2(kind), post2l, module=ES, inline=[('emd/support.py', 'ensure_2d', {})], wrap_call=call2(kind))
        v.frame = True
        U.append(v)
    return U


def _frame_post(c, a, kw, r):
    # frame obligations are generated at the write itself; this clause makes the unit non-vacuous
    c.oblige('post:no-write-to-caller-owned-buffers-or-dicts', z3.BoolVal(c.ghost.get('frame_writes', 0) == 0), 'post')


def model_witness(unit_name, model):
    if unit_name.startswith('ensure_1d_with_singleton') or unit_name.startswith('ensure_vector'):
        nd = int(unit_name.split('ndim=')[1].rstrip(']'))
        shape = [int(model.get('n', 4))] + [int(model.get('m%d' % d, 1)) for d in range(1, nd)]
        if any(s < 1 or s > 64 for s in shape):
            return None
        return {'kind': 'layout', 'fn': unit_name.split('[')[0], 'shape': shape}
    if unit_name.startswith('ensure_equal_dims'):
        return None
    return None


# ----------------------------------------------------------------------------- native contract

def _sig(n=64):
    t = np.linspace(0, 1, n)
    return np.sin(2 * np.pi * 9 * t) + 0.6 * np.sin(2 * np.pi * 2.3 * t + 0.4) + 0.5 * t


def _entry_points():
    """name -> (callable taking the signal array, accepts_layouts, rejects_layouts)"""
    import emd
    S = emd.sift
    single = {
        'sift': lambda x: S.sift(x, max_imfs=2),
        'mask_sift': lambda x: S.mask_sift(x, max_imfs=2, mask_freqs=0.2),
        'get_next_imf': lambda x: S.get_next_imf(x)[0],
        'get_next_imf_mask': lambda x: S.get_next_imf_mask(x, 0.1, 0.5)[0],
        'complete_ensemble_sift': None,
    }
    return single


def replay(w):
    import emd
    kind = w.get('kind')
    with warnings.catch_warnings():
        warnings.simplefilter('ignore')
        if kind == 'layout':
            shape = tuple(w['shape'])
            n = shape[0]
            x = np.arange(int(np.prod(shape)), dtype=float).reshape(shape)
            x = np.sin(x)
            fn = w['fn']
            ok_layout = all(s == 1 for s in shape[1:]) if fn != 'ensure_vector' else (len(shape) == 1 or (len(shape) == 2 and shape[1] == 1))
            try:
                if fn == 'ensure_vector':
                    r = emd.support.ensure_vector([x], ['x'], 'replay')
                else:
                    r = emd.support.ensure_1d_with_singleton([x], ['x'], 'replay')
            except ValueError:
                return (ok_layout, 'layout %s rejected although it is a valid single signal' % (shape,)) if ok_layout else (False, 'rejected as required')
            except Exception as ex:
                return True, '%s%s raised %s: %s' % (fn, shape, type(ex).__name__, ex)
            if not ok_layout:
                return True, '%s accepts an input of shape %s (returned shape %s) instead of rejecting it with an error' % (fn, shape, getattr(r, 'shape', None))
            exp = x.reshape(n, 1) if fn != 'ensure_vector' else x.reshape(n)
            if r.shape != exp.shape or not np.array_equal(r, exp):
                return True, '%s%s returns shape %s / different elements' % (fn, shape, r.shape)
            return False, 'ok'
        if kind == 'routine':
            return _replay_routine(w)
        if kind == 'routine_len':
            return _replay_len(w)
        if kind == 'frame_phase':
            return _replay_frame_phase(w)
        if kind == 'second_layer':
            return _replay_second(w)
    return False, 'unknown witness kind'


def _replay_frame_phase(w):
    """cycle routines on a read-only phase array - wrapped, or UNWRAPPED (values above 2 pi: get_cycle_vector re-wraps it internally)"""
    import emd
    CY = emd.cycles
    n = 300
    ph = np.cumsum(np.full(n, 2 * np.pi * 0.031)) + 0.4
    if not w['unwrapped']:
        ph = ph % (2 * np.pi)
    if w.get('ndim', 1) == 2:
        ph = np.c_[ph, ph[::-1].copy()] if w['routine'] == 'get_cycle_vector' else ph[:, None]
    before = ph.copy()
    ph.setflags(write=False)
    calls = {'get_cycle_vector': lambda: CY.get_cycle_vector(ph, return_good=False),
             'get_cycle_vector[good]': lambda: CY.get_cycle_vector(ph, return_good=True),
             'Cycles': lambda: CY.Cycles(ph).cycle_vect}
    import contextlib, io
    try:
        with contextlib.redirect_stdout(io.StringIO()):        # (get_cycle_vector prints 'Wrapping phase')
            r1 = np.asarray(calls[w['routine']]())
            r2 = np.asarray(calls[w['routine']]())
    except Exception as ex:
        if 'read-only' in str(ex):
            return True, '%s writes into its (read-only) %s phase array: %s' % (w['routine'], 'unwrapped' if w['unwrapped'] else 'wrapped', ex)
        return True, '%s raised %s: %s' % (w['routine'], type(ex).__name__, ex)
    if not np.array_equal(ph, before):
        return True, '%s modified the phase array passed to it' % w['routine']
    if not np.array_equal(r1, r2):
        return True, '%s gives different results on a repeated call' % w['routine']
    return False, 'ok'


def _replay_len(w):
    for name, good, bad in _multi_array_cases():
        if name != w['name']:
            continue
        try:
            good()
        except Exception as ex:
            if 'read-only' in str(ex):
                return True, '%s writes into one of its (read-only) input arrays: %s' % (name, ex)
            return True, '%s with equal lengths raised %s: %s' % (name, type(ex).__name__, ex)
        try:
            bad()
            return True, '%s processes arrays of different lengths instead of rejecting them' % name
        except ValueError:
            return False, 'ok'
        except Exception as ex:
            return True, '%s with mismatched lengths raised %s (%s) instead of ValueError' % (name, type(ex).__name__, str(ex)[:80])
    return False, 'unknown routine'


def _replay_second(w):
    import emd
    R, D = _routines()
    IA = np.abs(D['IA']) + 0.1
    name = w['name']
    args = copy.deepcopy(w['args'])
    a0 = copy.deepcopy(args)
    call = (lambda a: emd.sift.sift_second_layer(IA, sift_args=a)) if name == 'sift_second_layer' else (lambda a: emd.sift.mask_sift_second_layer(IA, np.array([0.2, 0.1, 0.05]), sift_args=a))
    try:
        call(args)
        call(args)
    except Exception as ex:
        return True, '%s(sift_args=%r) raised %s: %s' % (name, a0, type(ex).__name__, ex)
    if args != a0:
        return True, "%s changed the caller's sift_args from %r to %r" % (name, a0, {k: (v if not isinstance(v, np.ndarray) else v.tolist()) for k, v in args.items()})
    return False, 'ok'


def _routines():
    import emd
    S, SP, CY, UT = emd.sift, emd.spectra, emd.cycles, emd.utils
    x = _sig()
    imf = S.sift(x, max_imfs=2)
    IP, IF, IA = SP.frequency_transform(imf, 64, 'hilbert')
    edges = np.linspace(0, 32, 9)
    for arr in (IP, IF, IA, edges):
        arr.setflags(write=False)        # any in-place write into an argument raises 'assignment destination is read-only'
    R = {
        # name: (function of (signal-like array, opts dict), kind of first argument, extra info)
        'sift': (lambda a, o: S.sift(a, max_imfs=2, **o), 'signal'),
        'mask_sift': (lambda a, o: S.mask_sift(a, max_imfs=2, mask_freqs=0.2, **o), 'signal'),
        'ensemble_sift[noise=0]': (lambda a, o: S.ensemble_sift(a, nensembles=2, ensemble_noise=0, max_imfs=2, **o), 'signal'),
        'get_next_imf': (lambda a, o: S.get_next_imf(a, **{k: v for k, v in o.items() if k != 'imf_opts'})[0], 'signal'),
        'get_next_imf_mask': (lambda a, o: S.get_next_imf_mask(a, 0.1, 0.5, **o)[0], 'signal'),
        'interp_envelope': (lambda a, o: S.interp_envelope(a if a.ndim == 1 else a.reshape(a.shape[0], -1)[:, 0], extrema_opts=o.get('extrema_opts')), 'vector'),
        'get_padded_extrema': (lambda a, o: S.get_padded_extrema(a if a.ndim == 1 else a.reshape(a.shape[0], -1)[:, 0], **(o.get('extrema_opts') or {}))[1], 'vector'),
        'amplitude_normalise': (lambda a, o: UT.amplitude_normalise(a.reshape(a.shape[0], -1)), 'column'),
        'frequency_transform[hilbert]': (lambda a, o: np.c_[SP.frequency_transform(a.reshape(a.shape[0], -1) if a.ndim > 1 else a, 64, 'hilbert')], 'column'),
        'frequency_transform[nht]': (lambda a, o: np.c_[SP.frequency_transform(a.reshape(a.shape[0], -1) if a.ndim > 1 else a, 64, 'nht')], 'column'),
        'frequency_transform[quad]': (lambda a, o: np.c_[SP.frequency_transform(a.reshape(a.shape[0], -1) if a.ndim > 1 else a, 64, 'quad')], 'column'),
        # second-layer (3-d) inputs [samples x imfs x second-level imfs]
        'amplitude_normalise[3d]': (lambda a, o: UT.amplitude_normalise(_as3d(a)), '3d'),
        'frequency_transform[nht,3d]': (lambda a, o: np.concatenate(SP.frequency_transform(_as3d(a), 64, 'nht'), axis=1), '3d'),
        'frequency_transform[quad,3d]': (lambda a, o: np.concatenate(SP.frequency_transform(_as3d(a), 64, 'quad'), axis=1), '3d'),
    }
    return R, dict(x=x, imf=imf, IP=IP, IF=IF, IA=IA, edges=edges)


_3D_CACHE = {}


def _as3d(a):
    """the 3-d array built from signal a (kept per input object so that read-only flags / byte comparisons see the array that was passed)"""
    key = id(a)
    if key not in _3D_CACHE:
        v = a.reshape(a.shape[0], -1)[:, 0]
        arr = np.stack([np.c_[v, v[::-1]], np.c_[0.5 * v + 0.1 * np.cos(np.arange(len(v))), v * np.linspace(1, 2, len(v))]], axis=2)
        arr.setflags(write=a.flags.writeable)
        _3D_CACHE.clear()
        _3D_CACHE[key] = (arr, arr.copy())
    return _3D_CACHE[key][0]


def _opts():
    return {'imf_opts': {'env_step_size': 1, 'sd_thresh': 0.1}, 'envelope_opts': {'interp_method': 'splrep'},
            'extrema_opts': {'pad_width': 2, 'loc_pad_opts': {'mode': 'reflect', 'reflect_type': 'odd'}, 'mag_pad_opts': {'mode': 'median', 'stat_length': 1}}}


def _replay_routine(w):
    import emd
    R, D = _routines()
    name = w['name']
    f, first = R[name]
    x = D['x']
    what = w['check']
    if what == 'layouts' and first == '3d':
        return False, 'n/a'
    if what == 'layouts':
        base = np.asarray(f(x.copy(), {}))
        for lay in ((len(x), 1), (len(x), 1, 1)):
            if first == 'vector' and len(lay) > 2:
                continue
            try:
                r = np.asarray(f(x.reshape(lay).copy(), {}))
            except Exception as ex:
                return True, '%s: input layout %s raised %s: %s although (n,) is accepted' % (name, lay, type(ex).__name__, ex)
            if r.shape != base.shape or not np.array_equal(r, base):
                return True, '%s: result for input layout %s differs from the result for (n,)' % (name, lay)
        return False, 'ok'
    if what == 'rejects':
        for lay in w['layouts']:
            a = np.sin(np.arange(int(np.prod(lay)), dtype=float)).reshape(lay)
            try:
                r = f(a, {})
            except (ValueError,):
                continue
            except Exception as ex:
                return True, '%s: input of shape %s raised %s (%s) instead of a ValueError from the input checks' % (name, tuple(lay), type(ex).__name__, str(ex)[:80])
            return True, '%s: genuinely multi-column input of shape %s is processed (result shape %s) instead of being rejected' % (name, tuple(lay), np.asarray(r).shape)
        return False, 'ok'
    if what == 'frame':
        a = x.copy()
        a.setflags(write=False)
        o = _opts()
        o0 = copy.deepcopy(o)
        try:
            f(a, o if first == 'signal' or 'extrema' in name or 'envelope' in name else {})
            f(a, o if first == 'signal' or 'extrema' in name or 'envelope' in name else {})
        except ValueError as ex:
            if 'read-only' in str(ex):
                return True, '%s writes into its (read-only) input array: %s' % (name, ex)
            return True, '%s raised %s' % (name, ex)
        if not np.array_equal(a, x):
            return True, '%s modified its input array' % name
        if first == '3d' and _3D_CACHE and not np.array_equal(*list(_3D_CACHE.values())[0]):
            return True, '%s modified its 3-d input array' % name
        if repr(o) != repr(o0):
            return True, '%s modified the option dictionaries passed to it: %s -> %s' % (name, o0, o)
        return False, 'ok'
    if what == 'determinism':
        r1 = np.asarray(f(x.copy(), {}))
        r2 = np.asarray(f(x.copy(), {}))
        if r1.shape != r2.shape or not np.array_equal(r1, r2, equal_nan=True):
            return True, '%s: repeating the call gives a different result' % name
        return False, 'ok'
    return False, 'unknown'


def _multi_array_cases():
    """(name, call with good lengths, call with mismatched lengths)"""
    import emd
    R, D = _routines()
    SP, CY = emd.spectra, emd.cycles
    IF, IA, IP, edges = D['IF'], D['IA'], D['IP'], D['edges']
    n = IF.shape[0]
    return [
        ('hilberthuang', lambda: SP.hilberthuang(IF, IA, edges), lambda: SP.hilberthuang(IF, IA[:-3], edges)),
        ('hilberthuang_1d', lambda: SP.hilberthuang_1d(IF, IA, edges), lambda: (_ for _ in ()).throw(ValueError('n/a'))),
        ('hilberthuang[vector]', lambda: SP.hilberthuang(IF[:, 0], IA[:, 0], edges), lambda: SP.hilberthuang(IF[:, 0], IA[:-1, 0], edges)),
        ('holospectrum', lambda: SP.holospectrum(IF, IF[:, :, None] / 4, IA[:, :, None], edges, edges), lambda: SP.holospectrum(IF, (IF[:, :, None] / 4)[:-2], IA[:, :, None], edges, edges)),
        # three arrays, exactly one of them out of step (each position in turn)
        ('holospectrum[last array short]', lambda: SP.holospectrum(IF, IF[:, :, None] / 4, IA[:, :, None], edges, edges), lambda: SP.holospectrum(IF, IF[:, :, None] / 4, (IA[:, :, None])[:-2], edges, edges)),
        ('holospectrum[first array short]', lambda: SP.holospectrum(IF, IF[:, :, None] / 4, IA[:, :, None], edges, edges), lambda: SP.holospectrum(IF[:-2], IF[:, :, None] / 4, IA[:, :, None], edges, edges)),
        ('bin_by_phase[weights short]', lambda: CY.bin_by_phase(IP[:, 0], IF[:, 0], weights=IA[:, 0]), lambda: CY.bin_by_phase(IP[:, 0], IF[:, 0], weights=IA[:-4, 0])),
        ('bin_by_phase[values short, weights given]', lambda: CY.bin_by_phase(IP[:, 0], IF[:, 0], weights=IA[:, 0]), lambda: CY.bin_by_phase(IP[:, 0], IF[:-4, 0], weights=IA[:, 0])),
        ('ensure_equal_dims[3 arrays, last differs]', lambda: emd.support.ensure_equal_dims((IF[:, 0], IA[:, 0], IP[:, 0]), ('a', 'b', 'c'), 'caller'), lambda: emd.support.ensure_equal_dims((IF[:, 0], IA[:, 0], IP[:-1, 0]), ('a', 'b', 'c'), 'caller')),
        ('ensure_equal_dims[3 arrays, middle differs]', lambda: emd.support.ensure_equal_dims((IF[:, 0], IA[:, 0], IP[:, 0]), ('a', 'b', 'c'), 'caller', dim=0), lambda: emd.support.ensure_equal_dims((IF[:, 0], IA[:-1, 0], IP[:, 0]), ('a', 'b', 'c'), 'caller', dim=0)),
        ('phase_align', lambda: CY.phase_align(IP[:, 0], IF[:, 0]), lambda: CY.phase_align(IP[:, 0], IF[:-5, 0])),
        ('bin_by_phase', lambda: CY.bin_by_phase(IP[:, 0], IF[:, 0]), lambda: CY.bin_by_phase(IP[:, 0], IF[:-5, 0])),
        ('get_cycle_vector[mask]', lambda: CY.get_cycle_vector(IP[:, 0], mask=np.ones(n, dtype=bool)), lambda: CY.get_cycle_vector(IP[:, 0], mask=np.ones(n - 4, dtype=bool))),
        ('get_cycle_stat', lambda: CY.get_cycle_stat(CY.get_cycle_vector(IP[:, 0], return_good=False)[:, 0], IF[:, 0]), lambda: CY.get_cycle_stat(CY.get_cycle_vector(IP[:, 0], return_good=False)[:, 0], IF[:-3, 0])),
    ]


def refute(tier, seed, emit):
    import emd
    with warnings.catch_warnings():
        warnings.simplefilter('ignore')
        # 1. layouts of the input checks themselves
        emit.scope('ensure_1d_with_singleton / ensure_vector on every shape (n, m1[, m2[, m3]]) with n in {2,5}, m in {1,2,3}: valid single-signal layouts accepted with identical elements, all others rejected; non-trivial = ndim >= 2', exhaustive=True)
        for fn in ('ensure_1d_with_singleton', 'ensure_vector'):
            for nd in ((1, 2, 3, 4) if fn != 'ensure_vector' else (1, 2)):
                for tail in itertools.product((1, 2, 3), repeat=nd - 1):
                    for n in (2, 5):
                        shape = [n] + list(tail)
                        emit.case((fn, tuple(shape)), nontrivial=nd >= 2, contract=fn)
                        w = {'kind': 'layout', 'fn': fn, 'shape': shape}
                        ok, msg = replay(w)
                        if ok:
                            emit.violation('%s:multi-column-input-rejected' % fn if 'accepts' in msg else '%s:valid-layouts-accepted' % fn, w, msg)
        # 2. routines: layouts, rejection, frame, determinism
        R, D = _routines()
        emit.scope('%d public routines x {layouts (n,),(n,1),(n,1,1) identical; shapes (n,2),(1,n),(n,2,3) rejected for the single-signal sift routines; read-only input + reused option dicts unchanged after two calls; repeated call identical}' % len(R))
        for name, (f, first) in R.items():
            for what in ('layouts', 'frame', 'determinism', 'rejects'):
                if what == 'rejects' and first != 'signal':
                    continue
                emit.case((name, what), contract=name)
                w = {'kind': 'routine', 'name': name, 'check': what, 'layouts': [[64, 2], [1, 64], [16, 2, 3]]}
                try:
                    ok, msg = replay(w)
                except Exception as ex:
                    ok, msg = True, '%s / %s crashed: %s: %s' % (name, what, type(ex).__name__, ex)
                if ok:
                    cl = {'layouts': 'layout-insensitive', 'frame': 'inputs-never-modified', 'determinism': 'deterministic', 'rejects': 'multi-column-input-rejected'}[what]
                    emit.violation('%s:%s' % (cl, name.split('[')[0]), w, msg)
        emit.scope('cycle routines (get_cycle_vector all / good cycles, Cycles) on a read-only phase, wrapped and UNWRAPPED (values above 2 pi), 1-d and 2-d: array unchanged, no write attempted, repeated call identical')
        for routine in ('get_cycle_vector', 'get_cycle_vector[good]', 'Cycles'):
            for unw in (False, True):
                for nd in (1, 2):
                    emit.case(('frame_phase', routine, unw, nd), nontrivial=unw, contract=routine)
                    w = {'kind': 'frame_phase', 'routine': routine, 'unwrapped': unw, 'ndim': nd}
                    ok, msg = replay(w)
                    if ok:
                        emit.violation('inputs-never-modified:%s' % routine.split('[')[0], w, msg)
        # 3. multi-array routines: mismatched lengths rejected
        emit.scope('multi-array routines (hilberthuang, holospectrum, phase_align, bin_by_phase with and without weights, get_cycle_vector with mask, get_cycle_stat, ensure_equal_dims on three arrays): equal lengths accepted, mismatched lengths rejected with ValueError - for three arrays with each single array out of step in turn; inputs unchanged')
        for name, good, bad in _multi_array_cases():
            emit.case((name, 'lengths'), contract=name)
            w = {'kind': 'routine_len', 'name': name}
            ok, msg = replay(w)
            if ok:
                emit.violation(('inputs-never-modified:%s' if 'read-only' in msg else 'equal-lengths-accepted:%s' if 'equal lengths' in msg else 'mismatched-lengths-rejected:%s') % name, w, msg)
        # 4. second-layer sifts reuse of option dicts
        emit.scope('sift_second_layer / mask_sift_second_layer with a reused sift_args dictionary (and with sift_args=None)')
        for name in ('sift_second_layer', 'mask_sift_second_layer'):
            for args in ({'sift_thresh': 1e-8}, None):
                emit.case((name, 'dict', args is None), contract=name)
                w = {'kind': 'second_layer', 'name': name, 'args': args}
                ok, msg = replay(w)
                if ok:
                    emit.violation(('second-layer-runs-with-documented-arguments:%s' if 'raised' in msg else 'inputs-never-modified:%s') % name, w, msg)
