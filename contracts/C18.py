"""C18 - sift configurations are faithful, addressable and persistable.

Functions under contract (emd/sift.py), executed from the real source:
  SiftConfig.__keytransform__/__getitem__/__setitem__/__delitem__ : a key path 'a[/b[/c]]' reads / writes / deletes exactly
        store[a][b][c] and leaves every other entry alone; more than three levels raise ValueError
        (case analysis over the nesting depth 1..4; component names and stored values are opaque tokens; str.split assumed)
  _array_or_tuple_to_list : same keys; arrays and tuples become equal lists; nested dicts handled by the recursive call
        (the recursive call is replaced by its own contract: structural induction step)
  to_yaml_file/from_yaml_file and to_yaml_text/from_yaml_stream : under the assumed PyYAML contract (loading what was dumped
        yields equal plain data, document by document) the round trip preserves sift_type and the options
  get_func : functools.partial(emd.sift.<sift_type>, **store)
  get_config : for sift, mask_sift, ensemble_sift, complete_ensemble_sift the configuration unpacked into the variant
        reaches get_next_imf with the same effective arguments as a call with no options (recorder stubs of C06),
        and every entry equals the default in the live signature it was harvested from.
"""
import copy
import functools
import inspect
import os
import tempfile
import numpy as np
import z3
from contracts.common import *
from contracts import C06
from pyvc.verify import Unit

PROPERTY = 'C18'
LEVEL = 'proof'
SIFT = 'emd/sift.py'
FUNCTIONS = ['emd.sift.SiftConfig.' + f for f in ('__keytransform__', '__getitem__', '__setitem__', '__delitem__', '_get_yamlsafe_dict', 'to_yaml_text', 'to_yaml_file',
                                                  'from_yaml_file', 'from_yaml_stream', 'get_func')] + ['emd.sift._array_or_tuple_to_list', 'emd.sift.get_config', 'emd.sift._get_function_opts']
ASSUMPTIONS = [
    "assumed stdlib contract: str.split('/') returns the '/'-separated components (key paths are enumerated by nesting depth 1..4 with opaque component names)",
    'assumed PyYAML contract: load / load_all of what dump / dump_all wrote yields equal plain data (dict, list, str, number, bool, None), one document per dumped document; tuples are not plain data for it',
    'stored option values are opaque tokens; dict semantics are those of CPython (the real code runs on real dicts)',
    'get_config runs natively on the live signatures (inspect.signature is the real one); the variants then run on the stubs of C06',
]
NOT_COVERED = ['behavioural equality of outputs (callable from get_func vs direct call, default config vs no options) - bounded stand-in only (numerical sifts)']


class Tok:
    """opaque stored value"""
    def __init__(self, n):
        self.n = n

    def __repr__(self):
        return 'Tok(%s)' % self.n

    def __eq__(self, o):
        return isinstance(o, Tok) and o.n == self.n

    def __hash__(self):
        return hash(self.n)


def _store():
    return {'a': {'b': {'c': Tok(1), 'c2': Tok(2)}, 'b2': Tok(3)}, 'a2': Tok(4), 'a3': {'b': Tok(5)}}


def _cfg(c):
    import emd.sift as ES
    # built by the real constructor (whatever attributes it creates exist), then given the store of the unit
    cfg = ES.SiftConfig('sift')
    cfg.store = _store()
    cfg.sift_type = 'sift'
    return cfg


def _obl(c, name, ok, note=''):
    c.oblige(name, z3.BoolVal(bool(ok)), 'post', note=note)


KEYS = {1: ('a2', lambda s: s, 'a2'), 2: ('a/b2', lambda s: s['a'], 'b2'), 3: ('a/b/c', lambda s: s['a']['b'], 'c'), 4: ('a/b/c/d', None, None)}


def units(tier):
    import emd.sift as ES
    U = []
    inl = [(SIFT, 'SiftConfig.__keytransform__', {})]

    def method_unit(name, qual, mk, post, raises=None, extra_inline=(), ns=None):
        def call(f, c, a, kw):
            # methods are rebuilt as plain functions: bind the transformed helper the class would dispatch to
            cfgo = a[0]
            cls_ns = f.__globals__
            if '__keytransform__' in cls_ns:
                kt = cls_ns['__keytransform__']
                type(cfgo).__keytransform__ = lambda self, key: kt(self, key)
            try:
                return f(*a, **kw)
            finally:
                if '__keytransform__' in cls_ns:
                    type(cfgo).__keytransform__ = ES.SiftConfig.__dict__['__keytransform__'] if False else type(cfgo).__keytransform__
        u = Unit(name, SIFT, qual, mk, post, module=ES, inline=list(inl) + list(extra_inline), wrap_call=call, raises=raises or {}, ns=ns or {})
        U.append(u)

    for depth, (key, parent, leaf) in KEYS.items():
        # ---- get
        def mk_get(c, key=key):
            cfg = _cfg(c)
            c.ghost['cfg'] = cfg
            c.ghost['before'] = copy.deepcopy(cfg.store)
            return (cfg, key), {}

        def post_get(c, a, kw, r, parent=parent, leaf=leaf, depth=depth):
            cfg = c.ghost['cfg']
            _obl(c, 'post:too-deep-must-raise', depth <= 3)
            if depth <= 3:
                _obl(c, 'post:reads-exactly-the-nested-entry', r is parent(cfg.store)[leaf] or r == parent(c.ghost['before'])[leaf])
            _obl(c, 'post:frame-store-unchanged', cfg.store == c.ghost['before'])

        def exc_deep(c, a, kw, ex, depth=depth):
            _obl(c, 'exc:ValueError-only-beyond-three-levels', depth > 3 and isinstance(ex, ValueError), '%s: %s' % (type(ex).__name__, ex))
        method_unit('keypath:get[depth=%d]' % depth, 'SiftConfig.__getitem__', mk_get, post_get, raises={Exception: exc_deep})

        # ---- set
        def mk_set(c, key=key):
            cfg = _cfg(c)
            c.ghost['cfg'] = cfg
            c.ghost['before'] = copy.deepcopy(cfg.store)
            return (cfg, key, Tok('new')), {}

        def post_set(c, a, kw, r, parent=parent, leaf=leaf, depth=depth):
            cfg = c.ghost['cfg']
            _obl(c, 'post:too-deep-must-raise', depth <= 3)
            if depth <= 3:
                exp = copy.deepcopy(c.ghost['before'])
                parent(exp)[leaf] = Tok('new')
                _obl(c, 'post:writes-exactly-the-nested-entry', cfg.store == exp, 'store=%r' % (cfg.store,))
        method_unit('keypath:set[depth=%d]' % depth, 'SiftConfig.__setitem__', mk_set, post_set, raises={Exception: exc_deep})

        # ---- del
        def post_del(c, a, kw, r, parent=parent, leaf=leaf, depth=depth):
            cfg = c.ghost['cfg']
            _obl(c, 'post:too-deep-must-raise', depth <= 3)
            if depth <= 3:
                exp = copy.deepcopy(c.ghost['before'])
                del parent(exp)[leaf]
                _obl(c, 'post:deletes-exactly-the-nested-entry', cfg.store == exp, 'store=%r' % (cfg.store,))
        method_unit('keypath:del[depth=%d]' % depth, 'SiftConfig.__delitem__', mk_get, post_del, raises={Exception: exc_deep})

    # ---- absent entries: a key path reads / deletes what nested indexing does - for an absent entry that is a KeyError at every depth
    for akey in ('zz', 'a/zz', 'a/b/zz', 'zz/b', 'a/zz/c'):
        def mk_abs(c, akey=akey):
            cfg = _cfg(c)
            c.ghost['cfg'] = cfg
            c.ghost['before'] = copy.deepcopy(cfg.store)
            return (cfg, akey), {}

        def post_abs(c, a, kw, r, akey=akey):
            _obl(c, 'post:absent-entry-must-raise-like-nested-indexing', False, 'returned %r' % (r,))

        def exc_abs(c, a, kw, ex, akey=akey):
            _obl(c, 'exc:KeyError-like-nested-indexing', isinstance(ex, KeyError), '%s: %s' % (type(ex).__name__, ex))
            _obl(c, 'exc:frame-store-unchanged', c.ghost['cfg'].store == c.ghost['before'])
        method_unit('keypath:get-absent[%s]' % akey, 'SiftConfig.__getitem__', mk_abs, post_abs, raises={Exception: exc_abs})
        method_unit('keypath:del-absent[%s]' % akey, 'SiftConfig.__delitem__', mk_abs, post_abs, raises={Exception: exc_abs})

    # ---- new top-level / nested key creation through set
    def mk_setnew(c):
        cfg = _cfg(c)
        c.ghost['cfg'] = cfg
        c.ghost['before'] = copy.deepcopy(cfg.store)
        return (cfg, 'a3/new', Tok('new')), {}

    def post_setnew(c, a, kw, r):
        exp = copy.deepcopy(c.ghost['before'])
        exp['a3']['new'] = Tok('new')
        _obl(c, 'post:creates-the-nested-entry', c.ghost['cfg'].store == exp)
    method_unit('keypath:set-new-entry', 'SiftConfig.__setitem__', mk_setnew, post_setnew)

    # ---- _array_or_tuple_to_list (recursive call by contract)
    def mk_atl(c):
        inner = {'arr': np.array([1.5, 2.5]), 't': (1, 2)}
        conf = {'arr': np.array([[1, 2], [3, 4]]), 'tup': (0.05, 0.5, 0.05), 'sub': inner, 'num': 3, 'none': None, 'lst': [1, 2], 's': 'x'}
        c.ghost['conf0'] = copy.deepcopy(conf)
        c.ghost['inner'] = inner
        return (conf,), {}

    def call_atl(f, c, a, kw):
        real = f

        def rec(d):
            # contract of the recursive call: same keys, arrays/tuples -> equal lists (one level shown; induction hypothesis)
            if d is not c.ghost['inner']:
                return real(d)
            c.ghost['rec_called'] = c.ghost.get('rec_called', 0) + 1
            return {k: (v.tolist() if isinstance(v, np.ndarray) else list(v) if isinstance(v, tuple) else v) for k, v in d.items()}
        f.__globals__['_array_or_tuple_to_list'] = rec
        f.__globals__['np'] = np
        f.__globals__['isinstance'] = isinstance
        return f(*a, **kw)

    def post_atl(c, a, kw, r):
        c0 = c.ghost['conf0']
        _obl(c, 'post:same-keys', list(r.keys()) == list(c0.keys()))
        _obl(c, 'post:array-becomes-equal-list', isinstance(r['arr'], list) and r['arr'] == c0['arr'].tolist())
        _obl(c, 'post:tuple-becomes-equal-list', isinstance(r['tup'], list) and r['tup'] == list(c0['tup']))
        _obl(c, 'post:nested-dict-converted-by-recursive-call', c.ghost.get('rec_called') == 1 and r['sub'] == {'arr': [1.5, 2.5], 't': [1, 2]})
        _obl(c, 'post:plain-values-untouched', r['num'] == 3 and r['none'] is None and r['lst'] == [1, 2] and r['s'] == 'x')
    U.append(Unit('_array_or_tuple_to_list', SIFT, '_array_or_tuple_to_list', mk_atl, post_atl, module=ES, wrap_call=call_atl))

    # ---- YAML round trips under the assumed PyYAML contract
    class YamlShim:
        """ASSUMED: dumping then loading yields equal plain data, document by document; tuples are rejected as non-plain"""
        FullLoader = object()

        def __init__(self):
            self.texts = {}
            self.n = 0

        def _plain(self, o):
            if isinstance(o, dict):
                return all(isinstance(k, str) and self._plain(v) for k, v in o.items())
            if isinstance(o, list):
                return all(self._plain(v) for v in o)
            return o is None or isinstance(o, (str, int, float, bool))

        def _tok(self, docs):
            self.n += 1
            t = '<yaml:%d>' % self.n
            self.texts[t] = copy.deepcopy(docs)
            return t

        def dump(self, obj, stream=None, sort_keys=True):
            core.C().ghost['yaml_plain'] = core.C().ghost.get('yaml_plain', True) and self._plain(obj)
            t = self._tok([obj])
            if stream is not None:
                stream.write(t)
                return None
            return t

        def dump_all(self, docs, stream=None, sort_keys=True):
            docs = list(docs)
            core.C().ghost['yaml_plain'] = core.C().ghost.get('yaml_plain', True) and all(self._plain(d) for d in docs)
            t = self._tok(docs)
            if stream is not None:
                stream.write(t)
                return None
            return t

        def _read(self, stream):
            return stream if isinstance(stream, str) else stream.read()

        def load(self, stream, Loader=None):
            docs = self.texts[self._read(stream)]
            if len(docs) != 1:
                raise core.ModelledError('yaml.load on a multi-document stream (ComposerError)')
            return copy.deepcopy(docs[0])

        def load_all(self, stream, Loader=None):
            return iter(copy.deepcopy(self.texts[self._read(stream)]))

        # (ASSUMED: on PLAIN data - the only data this contract speaks about - the safe loaders read what the full loader reads; what they
        #  do with python-specific tags such as nested tuples is outside the contract and left to the bounded stand-in)
        def safe_load(self, stream):
            return self.load(stream)

        def safe_load_all(self, stream):
            return self.load_all(stream)

    def mk_yaml(route, empty=False):
        def mk(c):
            cfg = ES.SiftConfig.__new__(ES.SiftConfig)
            cfg.sift_type = 'mask_sift'
            cfg.store = {} if empty else {'max_imfs': 4, 'mask_amp': np.array([1.0, 0.5]), 'imf_opts': {'rilling_thresh': (0.05, 0.5, 0.05), 'stop_method': 'rilling'},
                                          'extrema_opts': {'pad_width': 3, 'loc_pad_opts': {'mode': 'reflect', 'reflect_type': 'odd'}}, 'verbose': None}
            c.ghost['cfg'] = cfg
            c.ghost['before'] = copy.deepcopy(cfg.store)
            return (cfg,), {}
        return mk

    def call_yaml(route):
        def call(f, c, a, kw):
            cfg = a[0]
            y = YamlShim()
            g = f.__globals__
            g['yaml'] = y
            g['np'] = np
            g['isinstance'] = isinstance
            g['open'] = open
            # the methods are rebuilt as plain functions in g; emulate the class dispatch
            class Cfg:
                def __init__(self):
                    self.store = dict()
                    self.sift_type = 'sift'

                def __str__(self):
                    return '<cfg>'
            Cfg._get_yamlsafe_dict = lambda self: g['_get_yamlsafe_dict'](self)
            src = Cfg()
            src.store, src.sift_type = cfg.store, cfg.sift_type
            if route == 'text':
                text = g['to_yaml_text'](src)
                back = g['from_yaml_stream'](Cfg, text)
            else:
                fd_, name = tempfile.mkstemp(suffix='.yml')
                os.close(fd_)
                try:
                    g['to_yaml_file'](src, name)
                    back = g['from_yaml_file'](Cfg, name)
                finally:
                    os.unlink(name)
            c.ghost['src'] = src
            return back
        return call

    def post_yaml(c, a, kw, back):
        src = c.ghost['src']

        def norm(o):
            if isinstance(o, np.ndarray):
                return o.tolist()
            if isinstance(o, tuple):
                return [norm(v) for v in o]
            if isinstance(o, dict):
                return {k: norm(v) for k, v in o.items()}
            if isinstance(o, list):
                return [norm(v) for v in o]
            return o
        _obl(c, 'post:only-plain-data-handed-to-yaml', c.ghost.get('yaml_plain', False))
        _obl(c, 'post:sift_type-preserved', getattr(back, 'sift_type', None) == 'mask_sift', 'got %r' % (getattr(back, 'sift_type', None),))
        _obl(c, 'post:options-preserved', isinstance(getattr(back, 'store', None), dict) and back.store == norm(c.ghost['before']), 'got %r' % (getattr(back, 'store', None),))
        _obl(c, 'post:source-config-not-modified', set(src.store.keys()) == set(c.ghost['before'].keys()))
    for route in ('file', 'text'):
        quals = ['SiftConfig._get_yamlsafe_dict', 'SiftConfig.to_yaml_text', 'SiftConfig.to_yaml_file', 'SiftConfig.from_yaml_file', 'SiftConfig.from_yaml_stream']
        for empty in (False, True):        # (a configuration without any option is a valid configuration)
            u = Unit('yaml-roundtrip[%s%s]' % (route, ',no options' if empty else ''), SIFT, '_array_or_tuple_to_list', mk_yaml(route, empty), post_yaml, module=ES,
                     inline=[(SIFT, q, {}) for q in quals], wrap_call=call_yaml(route))
            U.append(u)

    # ---- get_func
    def mk_gf(c):
        cfg = _cfg(c)
        cfg.sift_type = 'mask_sift'
        cfg.store = {'max_imfs': 3, 'imf_opts': {'env_step_size': 0.5}}
        c.ghost['cfg'] = cfg
        return (cfg,), {}

    def call_gf(f, c, a, kw):
        import sys
        f.__globals__['sys'] = sys
        f.__globals__['functools'] = functools
        f.__globals__['__name__'] = 'emd.sift'
        return f(*a, **kw)

    def post_gf(c, a, kw, r):
        _obl(c, 'post:partial-of-the-named-variant', isinstance(r, functools.partial) and r.func is ES.mask_sift and r.args == ())
        _obl(c, 'post:all-options-bound', dict(r.keywords) == c.ghost['cfg'].store)
    U.append(Unit('get_func', SIFT, 'SiftConfig.get_func', mk_gf, post_gf, module=ES, wrap_call=call_gf))

    # ---- get_func in a history: a callable is obtained, an option dictionary is then replaced wholesale and a scalar option is set, and a
    # callable is obtained again - it binds the options as they are NOW
    def call_gf2(f, c, a, kw):
        import sys
        f.__globals__['sys'] = sys
        f.__globals__['functools'] = functools
        f.__globals__['__name__'] = 'emd.sift'
        cfg = a[0]
        first = f(cfg)
        c.ghost['first'] = (first.func, dict(first.keywords))
        cfg.store['imf_opts'] = {'stop_method': 'rilling'}
        cfg.store['max_imfs'] = 5
        return f(cfg)

    def post_gf2(c, a, kw, r):
        _obl(c, 'post:partial-of-the-named-variant', isinstance(r, functools.partial) and r.func is ES.mask_sift and r.args == ())
        _obl(c, 'post:binds-the-options-as-they-are-now', dict(r.keywords) == {'max_imfs': 5, 'imf_opts': {'stop_method': 'rilling'}}, 'bound %r' % (dict(r.keywords),))
        _obl(c, 'post:the-first-callable-bound-the-options-of-its-time', c.ghost['first'] == (ES.mask_sift, {'max_imfs': 3, 'imf_opts': {'env_step_size': 0.5}}))
    U.append(Unit('get_func[second callable after the options were replaced]', SIFT, 'SiftConfig.get_func', mk_gf, post_gf2, module=ES, wrap_call=call_gf2))

    # ---- get_config: defaults are those of the live signatures, and unpacking reaches the stage with the same effective arguments
    for variant in ('sift', 'mask_sift', 'ensemble_sift', 'complete_ensemble_sift'):
        def mk_gc(c, variant=variant):
            c.ghost['tok'] = C06.tokens()
            X = C06._sig(c)
            return (X,), {}

        def call_gc(f, c, a, kw, variant=variant):
            # 1. the real get_config, natively
            cfg = ES.get_config(variant)
            c.ghost['cfgobj'] = cfg
            conf = dict(cfg)
            dfl_v = real_defaults(SIFT, variant, ES)
            for k, v in conf.items():
                if k in ('imf_opts', 'envelope_opts', 'extrema_opts'):
                    continue
                _obl(c, 'get_config:%s-is-the-signature-default' % k, k in dfl_v and (dfl_v[k] is v or dfl_v[k] == v), 'config %r signature %r' % (v, dfl_v.get(k)))
            for grp, fn, ign in (('imf_opts', 'get_next_imf', ()), ('envelope_opts', 'interp_envelope', ()), ('extrema_opts', 'get_padded_extrema', ('mag_pad_opts', 'loc_pad_opts'))):
                dfl = real_defaults(SIFT, fn, ES)
                for k, v in conf[grp].items():
                    if k in ign:
                        continue
                    _obl(c, 'get_config:%s[%s]-is-the-signature-default' % (grp, k), k in dfl and (dfl[k] is v or dfl[k] == v), 'config %r signature %r' % (v, dfl.get(k)))
            # 2. run the variant twice on the recording stubs: no options / **config
            seen = {}

            stage = 'sift' if 'ensemble' in variant else 'get_next_imf'
            c.ghost['stage'] = stage

            def recorder(tag):
                def handler(b):
                    eff = {k: v for k, v in b.items() if k != 'X'}
                    seen.setdefault(tag, []).append(eff)
                    c2 = core.C()
                    n = b['X'].shape_e[0]
                    if stage == 'sift':
                        return C06._fresh_cols('imfs', n, b['max_imfs'] if isinstance(b['max_imfs'], int) else 2)
                    fimf = c2.fresh_fun('imf', I, R)
                    return SArr((n, 1), lambda i, j: fimf(i), 'f'), False
                return sig_stub(SIFT, stage, handler, ES)
            g = f.__globals__
            g['mp'] = MPShim
            g['functools'] = functools

            def fe(x, **kw2):
                return npshim.array([1, 2, 3]), npshim.array([1.0, 2.0, 3.0])
            g['_find_extrema'] = fe
            g['zero_crossing_count'] = lambda x: npshim.array([[6]])
            out = []
            for tag, opts in (('plain', {}), ('config', conf)):
                g[stage] = recorder(tag)
                o = copy.deepcopy(opts)
                if variant in ('ensemble_sift', 'complete_ensemble_sift'):
                    o['nensembles'] = 2
                o['max_imfs'] = 2
                out.append(g[variant](a[0], **o))
            c.ghost['seen'] = seen
            return out

        def post_gc(c, a, kw, r):
            seen = c.ghost['seen']
            _obl(c, 'post:stage-reached-on-both-routes', bool(seen.get('plain')) and bool(seen.get('config')))

            def eff_extrema(e):
                e = dict(e)
                if c.ghost['stage'] == 'sift':
                    # what sift hands to get_next_imf: its documented default when imf_opts is empty, over the signature defaults
                    imf = real_defaults(SIFT, 'get_next_imf', ES)
                    imf.pop('envelope_opts', None)
                    imf.pop('extrema_opts', None)
                    imf.update(e.get('imf_opts') or {'env_step_size': 1, 'sd_thresh': .1})
                    e['imf_opts'] = imf
                    e.pop('verbose', None)
                ex = e.get('extrema_opts')
                dfl = real_defaults(SIFT, 'get_padded_extrema', ES)
                ex = dict(ex) if ex else {}
                merged = {k: ex.get(k, dfl.get(k)) for k in ('pad_width', 'parabolic_extrema', 'loc_pad_opts', 'mag_pad_opts')}
                # get_padded_extrema's documented defaults for empty pad option dicts
                if not merged['loc_pad_opts']:
                    merged['loc_pad_opts'] = {'mode': 'reflect', 'reflect_type': 'odd'}
                if not merged['mag_pad_opts']:
                    merged['mag_pad_opts'] = {'mode': 'median', 'stat_length': 1}
                e['extrema_opts'] = merged
                env = dict(e.get('envelope_opts') or {})
                dfe = real_defaults(SIFT, 'interp_envelope', ES)
                e['envelope_opts'] = {'interp_method': env.get('interp_method', dfe['interp_method'])}
                return e
            p = [eff_extrema(x) for x in seen.get('plain', [])]
            q = [eff_extrema(x) for x in seen.get('config', [])]
            _obl(c, 'post:default-config-gives-the-same-effective-stage-arguments', set(repr(x) for x in p) == set(repr(y) for y in q),      # (the two runs may take different numbers of loop iterations)
                 'plain %r config %r' % (p[:1], q[:1]))
        inl2 = [('emd/support.py', 'ensure_1d_with_singleton', {}), (SIFT, '_nsamples_warn', {}), (SIFT, 'get_mask_freqs', {}), (SIFT, 'get_next_imf_mask', {}),
                (SIFT, '_sift_with_noise', {}), (SIFT, 'sift', {}), (SIFT, 'mask_sift', {}), (SIFT, 'ensemble_sift', {}), (SIFT, 'complete_ensemble_sift', {})]
        U.append(Unit('get_config[%s]' % variant, SIFT, '_nsamples_warn', mk_gc, post_gc, module=ES, inline=inl2, wrap_call=call_gc))
    return U


def model_witness(unit_name, model):
    if unit_name.startswith('yaml-roundtrip'):
        return {'kind': 'yaml', 'route': unit_name.split('[')[1].rstrip(']'), 'variant': 'mask_sift', 'edits': [['max_imfs', 4], ['imf_opts/rilling_thresh', [0.05, 0.5, 0.05]]]}
    return None


# ----------------------------------------------------------------------------- native contract

def _x(n=256):
    return C06._x(n)


def _norm(o):
    if isinstance(o, np.ndarray):
        return o.tolist()
    if isinstance(o, (tuple, list)):
        return [_norm(v) for v in o]
    if isinstance(o, dict):
        return {k: _norm(v) for k, v in o.items()}
    return o


def _apply_edits(cfg, edits):
    ref = copy.deepcopy(dict(cfg))
    for key, val in edits:
        parts = key.split('/')
        v = tuple(val) if isinstance(val, list) and key.endswith('rilling_thresh') else val
        if isinstance(val, dict) and val.get('__array__'):
            v = np.array(val['__array__'])
        if isinstance(val, dict) and '__tuple__' in val:          # a tuple, nested tuples included: [[2, 3]] stands for ((2, 3),)
            def _tup(o):
                return tuple(_tup(q) for q in o) if isinstance(o, list) else o
            v = _tup(val['__tuple__'])
        cfg[key] = v
        d = ref
        for p in parts[:-1]:
            d = d[p]
        d[parts[-1]] = v
    return ref


def replay(w):
    import emd
    import warnings
    S = emd.sift
    with warnings.catch_warnings():
        warnings.simplefilter('ignore')
        if w.get('kind') == 'yaml':
            if w.get('start') == 'bare':            # a configuration holding no options at all: valid, runs the sift on its own defaults
                cfg = S.SiftConfig(w['variant'])
            else:
                cfg = S.get_config(w['variant'])
            if w.get('start') == 'emptied':
                for k in list(cfg.keys()):
                    del cfg[k]
            ref = _apply_edits(cfg, w['edits'])
            try:
                if w['route'] == 'file':
                    fd_, name = tempfile.mkstemp(suffix='.yml')
                    os.close(fd_)
                    try:
                        cfg.to_yaml_file(name)
                        back = S.SiftConfig.from_yaml_file(name)
                    finally:
                        os.unlink(name)
                else:
                    back = S.SiftConfig.from_yaml_stream(cfg.to_yaml_text())
            except Exception as ex:
                return True, 'YAML %s route raised %s: %s' % (w['route'], type(ex).__name__, str(ex)[:200])
            if back.sift_type != w['variant']:
                return True, "YAML %s route: sift type %r read back as %r" % (w['route'], w['variant'], back.sift_type)
            if not isinstance(back.store, dict) or _norm(dict(back.store)) != _norm(ref):
                return True, 'YAML %s route: options read back differ: %r' % (w['route'], type(back.store).__name__ if not isinstance(back.store, dict) else
                                                                            {k: (back.store.get(k), _norm(ref).get(k)) for k in _norm(ref) if _norm(back.store.get(k)) != _norm(ref).get(k)})
            if w.get('behaviour'):
                x = _x()
                a = cfg.get_func()(x)
                try:
                    b = back.get_func()(x)
                except Exception as ex:
                    return True, 'callable of the %s configuration read back from YAML (%s) raised %s: %s' % (w['variant'], w['route'], type(ex).__name__, str(ex)[:150])
                a = a[0] if isinstance(a, tuple) else a
                b = b[0] if isinstance(b, tuple) else b
                if a.shape != b.shape or not np.array_equal(a, b):
                    return True, 'callable of the configuration read back from YAML (%s) behaves differently from the original' % w['route']
            return False, 'ok'
        if w.get('kind') == 'yaml_reload':
            # a history on ONE path: save A, load, save B over it, load again (must be B); load twice and edit the first (the second is untouched)
            fd_, name = tempfile.mkstemp(suffix='.yml')
            os.close(fd_)
            try:
                cfa = S.get_config(w['variant'])
                _apply_edits(cfa, w['edits'])
                cfa.to_yaml_file(name)
                first = S.SiftConfig.from_yaml_file(name)
                cfb = S.get_config(w['variant2'])
                refb = _apply_edits(cfb, w['edits2'])
                cfb.to_yaml_file(name)
                second = S.SiftConfig.from_yaml_file(name)
                if second.sift_type != w['variant2'] or _norm(dict(second.store)) != _norm(refb):
                    return True, 'a file rewritten with a %s configuration %s is read back as %s %s (the configuration saved there BEFORE)' % (
                        w['variant2'], w['edits2'], second.sift_type, {k: second.store.get(k) for k, _ in w['edits2'] if '/' not in k})
                second['max_imfs'] = 11
                third = S.SiftConfig.from_yaml_file(name)
                if _norm(dict(third.store)) != _norm(refb):
                    return True, 'editing a configuration loaded from a file changed what a later load of the same file returns'
                if first.sift_type != w['variant']:
                    return True, 'the configuration loaded first changed its sift type after the file was rewritten'
            except Exception as ex:
                return True, 'save / load history on one path raised %s: %s' % (type(ex).__name__, str(ex)[:160])
            finally:
                os.unlink(name)
            return False, 'ok'
        if w.get('kind') == 'keypath':
            cfg = S.get_config(w['variant'])
            try:
                ref = _apply_edits(cfg, w['edits'])
            except Exception as ex:
                return True, 'edit sequence %s raised %s: %s' % (w['edits'], type(ex).__name__, ex)
            for key, val in w['edits']:
                parts = key.split('/')
                d = cfg.store
                for p in parts:
                    d = d[p]
                got = cfg[key]
                if _norm(got) != _norm(d):
                    return True, 'cfg[%r] = %r but nested indexing gives %r' % (key, got, d)
            if _norm(dict(cfg)) != _norm(ref):
                return True, 'after edits %s the store is %r, expected %r' % (w['edits'], _norm(dict(cfg)), _norm(ref))
            if w.get('delete'):
                key = w['delete']
                del cfg[key]
                parts = key.split('/')
                d = ref
                for p in parts[:-1]:
                    d = d[p]
                del d[parts[-1]]
                if _norm(dict(cfg)) != _norm(ref):
                    return True, 'del cfg[%r] removed something else' % key
                # the deleted path, and a sibling path that never existed, are ABSENT: reading them by key path must do what nested indexing
                # does (raise KeyError), and the mapping interface built on it (in / get / setdefault / pop) must follow
                def nested(store, pp):
                    d_ = store
                    for q in pp:
                        d_ = d_[q]
                    return d_

                def outcome(f):
                    try:
                        return ('ok', _norm(f()))
                    except Exception as ex:
                        return ('raises', type(ex).__name__)
                for akey in (key, '/'.join(parts[:-1] + ['no_such_option'])):
                    ap = akey.split('/')
                    a, b = outcome(lambda: cfg[akey]), outcome(lambda: nested(cfg.store, ap))
                    if a != b:
                        return True, 'reading the absent entry cfg[%r] %s, nested indexing %s' % (akey, a, b)
                    if (akey in cfg) != (b[0] == 'ok'):
                        return True, '%r in cfg is %s although nested indexing %s' % (akey, akey in cfg, b)
                    g = outcome(lambda: cfg.get(akey, 'the-default'))
                    if g != ('ok', 'the-default'):
                        return True, 'cfg.get(%r, default) on an absent entry %s' % (akey, g)
                    pz = outcome(lambda: cfg.pop(akey, 'the-default'))
                    if pz != ('ok', 'the-default'):
                        return True, 'cfg.pop(%r, default) on an absent entry %s' % (akey, pz)
                sd = outcome(lambda: cfg.setdefault(key, 7))
                rd = outcome(lambda: nested(cfg.store, parts))
                if sd != ('ok', 7) or rd != ('ok', 7):
                    return True, 'cfg.setdefault(%r, 7) on the deleted entry %s and nested indexing then %s' % (key, sd, rd)
            return False, 'ok'
        if w.get('kind') == 'deep':
            cfg = S.get_config(w['variant'])
            for how in ('set', 'get', 'del'):
                try:
                    if how == 'set':
                        cfg[w['key']] = 1
                    elif how == 'get':
                        cfg[w['key']]
                    else:
                        del cfg[w['key']]
                    return True, 'a 4-level key path was accepted by %s' % how
                except ValueError:
                    pass
                except Exception as ex:
                    return True, 'a 4-level key path (%s) raised %s instead of ValueError' % (how, type(ex).__name__)
            return False, 'ok'
        if w.get('kind') == 'defaults':
            v = w['variant']
            x = _x()
            kw = {'nensembles': 2, 'ensemble_noise': 0} if 'ensemble' in v and v != 'complete_ensemble_sift' else {}
            if v == 'complete_ensemble_sift':
                return False, 'n/a (random noise)'
            cfg = S.get_config(v)
            for k, val in kw.items():
                cfg[k] = val
            a = getattr(S, v)(x, **kw)
            try:
                b = getattr(S, v)(x, **cfg)
                f = cfg.get_func()(x)
            except Exception as ex:
                return True, 'the default configuration of %s cannot be used for the call it configures: %s: %s' % (v, type(ex).__name__, str(ex)[:150])
            a, b, f = [r[0] if isinstance(r, tuple) else r for r in (a, b, f)]
            if a.shape != b.shape or not np.array_equal(a, b):
                return True, '%s(x, **get_config(%r)) differs from %s(x)' % (v, v, v)
            if a.shape != f.shape or not np.array_equal(a, f):
                return True, 'get_config(%r).get_func()(x) differs from %s(x)' % (v, v)
            return False, 'ok'
    return False, 'unknown witness kind'


EDITS = [
    [['max_imfs', 3]],
    [['imf_opts/stop_method', 'rilling'], ['imf_opts/rilling_thresh', [0.06, 0.6, 0.06]]],
    [['extrema_opts/pad_width', 4], ['extrema_opts/mag_pad_opts/stat_length', 2]],
    [['envelope_opts/interp_method', 'mono_pchip'], ['imf_opts/energy_thresh', None], ['sift_thresh', 1e-6]],
    [['imf_opts/sd_thresh', 0.05], ['extrema_opts/loc_pad_opts/reflect_type', 'odd'], ['extrema_opts/parabolic_extrema', True]],
    # numpy.pad options in their documented per-axis form: a tuple inside a tuple, ((before, after),)
    [['extrema_opts/mag_pad_opts/stat_length', {'__tuple__': [[2, 3]]}], ['imf_opts/rilling_thresh', [0.05, 0.5, 0.05]]],
]


def refute(tier, seed, emit):
    variants = ['sift', 'mask_sift', 'ensemble_sift', 'complete_ensemble_sift']
    emit.scope('%d variants x %d edit sequences (scalars, None, tuples, arrays; nesting depth 1..3) x {key-path get/set/del vs nested indexing, YAML file route, YAML text route, behaviour of the reloaded callable}; default configuration vs call without options' % (len(variants), len(EDITS) + 1), exhaustive=True)
    for v in variants:
        emit.case((v, 'defaults'), contract='get_config')
        ok, msg = replay({'kind': 'defaults', 'variant': v})
        if ok:
            emit.violation('default-config-reproduces-plain-call:%s' % v, {'kind': 'defaults', 'variant': v}, msg)
        eds = list(EDITS)
        if v == 'mask_sift':
            eds.append([['mask_amp', {'__array__': [1.0, 0.5, 0.25]}], ['mask_freqs', 0.1]])
        for ei, ed in enumerate(eds):
            emit.case((v, ei, 'keypath'), contract='SiftConfig')
            w = {'kind': 'keypath', 'variant': v, 'edits': ed, 'delete': ed[-1][0]}
            ok, msg = replay(w)
            if ok:
                emit.violation('key-path-equals-nested-indexing', w, msg)
            for route in ('file', 'text'):
                emit.case((v, ei, route), contract='SiftConfig.yaml')
                beh = (v in ('sift', 'mask_sift')) and ei in (1, 2) and not any(isinstance(x[1], dict) for x in ed)
                w = {'kind': 'yaml', 'variant': v, 'route': route, 'edits': ed, 'behaviour': beh}
                ok, msg = replay(w)
                if ok:
                    emit.violation('yaml-roundtrip:%s' % route, w, msg)
        if emit.full:
            return
    emit.scope('configurations with NO options (a bare SiftConfig(variant), and a default one emptied key by key), and with a single option: YAML file / text round trip keeps the sift type and the (empty) option set; the reloaded callable behaves like the variant called without options')
    for v in variants:
        for start in ('bare', 'emptied'):
            for ed in [[], [['max_imfs', 2]]] + ([[['nensembles', 2], ['ensemble_noise', 0]]] if v == 'ensemble_sift' else []):
                for route in ('file', 'text'):
                    emit.case((v, start, len(ed), route), nontrivial=not ed, contract='SiftConfig.yaml')
                    # (ensemble_sift with zero noise is deterministic: its reloaded callable can be compared too)
                    w = {'kind': 'yaml', 'variant': v, 'route': route, 'edits': ed, 'behaviour': v in ('sift', 'mask_sift') or len(ed) == 2, 'start': start}
                    ok, msg = replay(w)
                    if ok:
                        emit.violation('yaml-roundtrip:%s:empty-configuration' % route, w, msg)
    # histories on one file path: the loader must read the file as it is NOW, and hand out independent objects
    emit.scope('save / load histories on ONE path: save configuration A, load, save configuration B (other options, other variant) over it, load: B; edit a loaded configuration, load again: unchanged - %d pairs of variants x edit sequences' % (len(variants) * 3))
    for vi, v in enumerate(variants):
        for ei in range(3):
            v2 = variants[(vi + 1 + ei) % len(variants)] if ei else v
            emit.case(('reload', v, v2, ei), nontrivial=True, contract='SiftConfig.yaml')
            w = {'kind': 'yaml_reload', 'variant': v, 'edits': EDITS[ei], 'variant2': v2, 'edits2': EDITS[(ei + 1) % len(EDITS)]}
            ok, msg = replay(w)
            if ok:
                emit.violation('yaml-roundtrip:file:reload-of-a-rewritten-path', w, msg)
    # seeded random edit sequences over the configuration's own key paths (every depth), values of every kind
    import emd
    r = rng(seed, 18)
    nrand = 40 if tier == 'quick' else 10000
    emit.scope('%d seeded random edit sequences (1..6 edits over the key paths of the variant\'s own default configuration at depth 1..3; values: int, float, bool, None, str, tuple, list, numpy array) x {key-path vs nested indexing with a deletion, YAML file route, YAML text route}' % nrand)

    def paths(d, pre=''):
        out = []
        for k, val in d.items():
            if isinstance(val, dict):
                out += paths(val, pre + k + '/')
            else:
                out.append(pre + k)
        return out

    def value(rr):
        kind = rr.randint(0, 8)
        if kind == 0:
            return int(rr.randint(-3, 50))
        if kind == 1:
            return float(np.round(rr.randn() * 10 ** rr.randint(-6, 3), 9))
        if kind == 2:
            return bool(rr.randint(0, 2))
        if kind == 3:
            return None
        if kind == 4:
            return ['splrep', 'rilling', 'odd', 'even', 'x y', ''][rr.randint(0, 6)]
        if kind == 5:
            return [float(v) for v in np.round(rr.rand(3), 6)]
        if kind == 6:
            return {'__array__': [float(v) for v in np.round(rr.rand(int(rr.randint(1, 4))), 6)]}
        return {'__tuple__': [float(v) for v in np.round(rr.rand(3), 6)]} if False else [int(v) for v in rr.randint(0, 9, size=2)]
    for q in range(nrand):
        v = variants[q % len(variants)]
        keys = paths(dict(emd.sift.get_config(v)))
        ed = [[keys[int(r.randint(0, len(keys)))], value(r)] for _ in range(int(r.randint(1, 7)))]
        emit.case(('rand', q, 'keypath'), contract='SiftConfig')
        w = {'kind': 'keypath', 'variant': v, 'edits': ed, 'delete': ed[-1][0]}
        ok, msg = replay(w)
        if ok:
            emit.violation('key-path-equals-nested-indexing', w, msg)
        route = ('file', 'text')[q % 2]
        emit.case(('rand', q, route), contract='SiftConfig.yaml')
        w = {'kind': 'yaml', 'variant': v, 'route': route, 'edits': ed, 'behaviour': False}
        ok, msg = replay(w)
        if ok:
            emit.violation('yaml-roundtrip:%s' % route, w, msg)
        if emit.full:
            return
    # too deep
    emit.case(('deep',), contract='SiftConfig')
    w = {'kind': 'deep', 'variant': 'sift', 'key': 'extrema_opts/loc_pad_opts/mode/x'}
    ok, msg = replay(w)
    if ok:
        emit.violation('key-path-too-deep-rejected', w, msg)
