"""C09 - instantaneous phase, frequency and amplitude are consistent and accurate.

Unbounded units (real source):
  freq_from_phase   : IF = np.gradient(phase, axis 0) * sample_rate / (2 pi)        (central differences inside, one-sided at the ends)
  phase_from_freq   : phase = phase_start + cumsum(2 pi f / sample_rate)
  round trip        : freq_from_phase(phase_from_freq(f))[i] = (f[i] + f[i+1]) / 2 for interior i (the two-sample averaging inherent in
                      central differences) and = f everywhere where the profile is constant
  wrap_phase        : result in [0, 2 pi) and congruent to its argument modulo 2 pi (assumed contract of the real % operator)
  frequency_transform[hilbert] : the SAME unwrapped phase array feeds the frequency (its scaled derivative) and the returned phase
                      (its wrap); all three outputs have the shape of the (2-d) input; amplitude = |analytic signal|
  amplitude_normalise : column c of the result is NY(c, NK(c)) - the first iterate of  y -> y / envelope(y)  of THAT column at which the
                      column's own budget of max_iters is used up, the envelope vanishes or |sum(envelope) - T| < thresh (so the columns of
                      a set are normalised independently, which nht / quad rely on)
  scale laws (lemmas over the assumed contracts): for c > 0 the analytic signal scales with c, so its angle (hence phase and
                      frequency) is unchanged and its modulus (amplitude) scales with c.
NOT decidable in this family: the accuracy clause for pure sinusoids (numerical accuracy of an FFT-based Hilbert transform and of spline
envelopes in floating point) - bounded stand-in with calibrated two-sided tolerances.
"""
import numpy as np
import z3
from contracts.common import *
from pyvc.verify import Unit

PROPERTY = 'C09'
LEVEL = 'proof'
SP = 'emd/spectra.py'
FUNCTIONS = ['emd.spectra.freq_from_phase', 'emd.spectra.phase_from_freq', 'emd.utils.wrap_phase', 'emd.spectra.frequency_transform (hilbert branch; phase_from_complex_signal by contract)',
             'emd.utils.amplitude_normalise (2-d input; interp_envelope by contract)']
ASSUMPTIONS = [
    'assumed scipy contracts for the transform length: signal.hilbert(x, N) returns N samples (obligation at the call: N is None or the record length); scipy.fft.next_fast_len(n) is SOME length >= n',
    'floats are mathematical reals; pi is a real constant in (3.14159, 3.1416)',
    'assumed numpy contracts: gradient (unit spacing), cumsum (spec function sumR), real % (result in [0, m), congruent mod m - IEEE fmod can return m itself for tiny negative arguments: not modelled)',
    'assumed scipy / numpy contracts: signal.hilbert is linear, np.angle(c z) = np.angle(z) and |c z| = c |z| for c > 0 (scale lemmas); phase_from_complex_signal is a function of the analytic signal',
    'amplitude_normalise unit: the combined envelope is a pure function of the column handed to interp_envelope (NHAS / NENV / NSUM uninterpreted; C05, C19); float division is total (a zero envelope sample gives inf / nan in numpy, not an exception: the division-by-nonzero obligation is dropped for this unit); number of columns, samples, max_iters and thresh symbolic; both the column loop and the while loop are cut',
    'the accuracy clause (pure sinusoid recovers frequency / amplitude / phase within a small tolerance) cannot be expressed over uninterpreted hilbert / angle / unwrap: bounded stand-in only',
]
NOT_COVERED = ['accuracy on sinusoids for the three methods: bounded stand-in (methods x sample rates x frequencies x 3 amplitude decades x 8 phases) with calibrated tolerances',
               'nht / quad branches of frequency_transform, amplitude_normalise scale invariance (needs homogeneity of the envelope + induction over the iterates) and its 3-d / clip paths: bounded stand-in']

N = z3.Int('N')
SR = z3.Real('sample_rate')
P0 = z3.Real('phase_start')
SUMR = npshim.SUMR


def _ax(c):
    for ax in npshim.pi_axioms() + npshim.sum_axioms():
        c.assume(ax)
    c.assume(z3.And(N >= 3, SR > 0))


def _mk_ffp(c):
    _ax(c)
    ph, PH = mat('iphase', N, 2)
    c.ghost['PH'] = PH
    return (ph, SReal(SR)), {}


def _post_ffp(c, a, kw, r):
    PH = c.ghost['PH']
    i, j = z3.Ints('pi pj')
    k = SR / (2 * PI)
    rng = z3.And(0 <= j, j < 2)
    c.oblige('post:shape', z3.And(r.shape_e[0] == N, r.shape_e[1] == 2), 'post')
    c.oblige('post:interior-central-difference', z3.Implies(z3.And(rng, 1 <= i, i <= N - 2), r.elem(i, j) == (PH(i + 1, j) - PH(i - 1, j)) / 2 * k), 'post')
    c.oblige('post:first-sample-forward-difference', z3.Implies(rng, r.elem(z3.IntVal(0), j) == (PH(1, j) - PH(0, j)) * k), 'post')
    c.oblige('post:last-sample-backward-difference', z3.Implies(rng, r.elem(N - 1, j) == (PH(N - 1, j) - PH(N - 2, j)) * k), 'post')


def _mk_pff(c):
    _ax(c)
    f, F = mat('ifrequency', N, 2)           # a [samples x imfs] profile: every column accumulates on its own
    c.ghost['F'] = F
    return (f, SReal(SR)), dict(phase_start=SReal(P0))


def _post_pff(c, a, kw, r):
    F = c.ghost['F']
    i = z3.Int('pi')
    c.oblige('post:phase-has-the-shape-of-the-profile', z3.And(z3.BoolVal(r.ndim == 2), r.shape_e[0] == N, r.shape_e[1] == 2) if r.ndim == 2 else z3.BoolVal(False), 'post')
    if r.ndim != 2:
        return
    for j in (0, 1):
        acc = SUMR(npshim.reify1(lambda t, j=j: F(t, j) / SR * (2 * PI), 'f'), i + 1)
        c.oblige('post:phase-is-start-plus-running-sum-of-its-own-column', z3.Implies(z3.And(0 <= i, i < N), r.elem(i, z3.IntVal(j)) == P0 + acc), 'post')


def _mk_rt(const):
    def mk(c):
        _ax(c)
        f, F = mat('ifrequency', N, 1)
        c.ghost['F'] = F
        if const:
            t = z3.Int('ct')
            f0 = z3.Real('f0')
            c.assume(z3.ForAll([t], F(t, 0) == f0, patterns=[F(t, 0)]))
            c.ghost['f0'] = f0
        return (f, SReal(SR)), dict(phase_start=SReal(P0))
    return mk


def _call_rt(f, c, a, kw):
    ph = f(*a, **kw)
    return f.__globals__['freq_from_phase'](ph, a[1])


def _post_rt(const):
    def post(c, a, kw, r):
        F = c.ghost['F']
        i = z3.Int('pi')
        c.oblige('post:interior-is-two-sample-average', z3.Implies(z3.And(1 <= i, i <= N - 2), r.elem(i, z3.IntVal(0)) == (F(i, 0) + F(i + 1, 0)) / 2), 'post')
        if const:
            c.oblige('post:constant-profile-reproduced-exactly-everywhere', z3.Implies(z3.And(0 <= i, i < N), r.elem(i, z3.IntVal(0)) == c.ghost['f0']), 'post')
    return post


def _mk_wrap(c):
    _ax(c)
    ph, PH = mat('IP', N, 1)
    c.ghost['PH'] = PH
    return (ph,), {}


def _post_wrap(c, a, kw, r):
    PH = c.ghost['PH']
    i = z3.Int('pi')
    q = z3.Int('wit_q')
    rng = z3.And(0 <= i, i < N)
    c.oblige('post:phase-in-[0,2pi)', z3.Implies(rng, z3.And(r.elem(i, z3.IntVal(0)) >= 0, r.elem(i, z3.IntVal(0)) < 2 * PI)), 'post')
    c.oblige('post:congruent-to-the-argument-mod-2pi', z3.Implies(rng, z3.Exists([q], r.elem(i, z3.IntVal(0)) == PH(i, 0) - z3.ToReal(q) * (2 * PI))), 'post')


# ---- frequency_transform, hilbert branch
UNW = z3.Function('UNWRAPPED', I, I, R)       # unwrapped phase of the analytic signal (function of the input, assumed)
HAMP = z3.Function('HILBERT_AMP', I, I, R)


class CArr:
    """opaque complex analytic signal"""
    def __init__(self, src):
        self.src = src
        self.shape = src.shape
        self.ndim = src.ndim


def _hilbert_length(x, N):
    """scipy.signal.hilbert(x, N) returns N samples (zero-padded or cropped): the analytic signal has one value per input sample only when the
    transform length is the record length"""
    core.C().oblige('hilbert:transform-length-is-the-record-length', z3.BoolVal(True) if N is None else (lift(N) == x.shape_e[0]), 'pre')


class FFTShim:
    """scipy.fft.next_fast_len by contract: SOME length that is not shorter than its argument"""
    @staticmethod
    def next_fast_len(n, *a, **k):
        c = core.C()
        m = c.fresh('fast_len', I)
        c.assume(m >= lift(n))
        return SInt(m)


def _mk_ft(c):
    _ax(c)
    x, X = mat('imf', N, 2)
    return (x, SReal(SR), 'hilbert'), {}


def _call_ft(f, c, a, kw):
    g = f.__globals__

    class Sig:
        @staticmethod
        def hilbert(x, N=None, axis=0):
            core.C().oblige('hilbert-along-time-axis', z3.BoolVal(axis == 0), 'post')
            _hilbert_length(x, N)
            return CArr(x)

    class NPx:
        def __getattr__(self, k):
            return getattr(npshim, k)

        @staticmethod
        def abs(v):
            if isinstance(v, CArr):
                return SArr(v.src.shape_e, lambda i, j: HAMP(i, j), 'f')
            return npshim.abs_(v)

    def pfcs(sig, smoothing=None, ret_phase='wrapped', phase_jump='ascending'):
        c2 = core.C()
        c2.oblige('phase_from_complex_signal:unwrapped-phase-requested-for-the-frequency', z3.BoolVal(ret_phase == 'unwrapped' and isinstance(sig, CArr)), 'post')
        c2.ghost['smoothing'] = smoothing
        return SArr(sig.src.shape_e, lambda i, j: UNW(i, j), 'f')
    g['signal'] = Sig
    g['fft'] = FFTShim
    g['np'] = NPx()
    g['phase_from_complex_signal'] = pfcs

    class Utils:
        wrap_phase = staticmethod(g['wrap_phase'])
    g['utils'] = Utils
    return f(*a, **kw)


def _post_ft(c, a, kw, r):
    ip, ifr, ia = r
    i, j = z3.Ints('pi pj')
    q = z3.Int('wit_q')
    rng = z3.And(0 <= i, i < N, 0 <= j, j < 2)
    for nm, arr in (('phase', ip), ('frequency', ifr), ('amplitude', ia)):
        c.oblige('post:%s-has-the-shape-of-the-input' % nm, z3.And(z3.BoolVal(arr.ndim == 2), arr.shape_e[0] == N, arr.shape_e[1] == 2), 'post')
    k = SR / (2 * PI)
    c.oblige('post:frequency-is-scaled-derivative-of-the-unwrapped-phase', z3.Implies(z3.And(rng, 1 <= i, i <= N - 2), ifr.elem(i, j) == (UNW(i + 1, j) - UNW(i - 1, j)) / 2 * k), 'post')
    c.oblige('post:phase-is-the-wrap-of-the-same-unwrapped-phase', z3.Implies(rng, z3.And(ip.elem(i, j) >= 0, ip.elem(i, j) < 2 * PI,
                                                                                     z3.Exists([q], ip.elem(i, j) == UNW(i, j) - z3.ToReal(q) * (2 * PI)))), 'post')
    c.oblige('post:amplitude-is-modulus-of-the-analytic-signal', z3.Implies(rng, ia.elem(i, j) == HAMP(i, j)), 'post')


# ----------------------------------------------------------------------------- frequency_transform, nht and quad branches
#
# The analytic signal is taken from the right array (nht: the amplitude-NORMALISED IMFs, quad: the quadrature transform of the IMFs), the
# same unwrapped phase feeds phase and frequency as in the hilbert branch, and the amplitude of column j is the UPPER envelope of column j
# of the original IMFs.   amplitude_normalise, quadrature_transform, interp_envelope, signal.hilbert and phase_from_complex_signal are
# contract stubs (amplitude_normalise has its own unit above).
ENVUP = z3.Function('ENV_UPPER', I, I, R)      # upper envelope of column j at sample i (function of the input, assumed: C05)
NORMED = z3.Function('NORMALISED', I, I, R)


def _mk_ft2(method):
    def mk(c):
        _ax(c)
        x, X = mat('imf', N, 2)
        c.ghost['imf'] = x
        c.ghost['IMF'] = X
        return (x, SReal(SR), method), {}
    return mk


def _call_ft2(f, c, a, kw):
    g = f.__globals__
    imf0 = c.ghost['imf']
    X = c.ghost['IMF']
    c.ghost['src'] = None
    c.ghost['env_calls'] = []

    def is_col_of_input(v, j):
        t = z3.Int('ect')
        return z3.ForAll([t], z3.Implies(z3.And(0 <= t, t < N), v.elem(t) == X(t, j)))

    class Sig:
        @staticmethod
        def hilbert(x, N=None, axis=0):
            core.C().oblige('hilbert-along-time-axis', z3.BoolVal(axis == 0), 'post')
            _hilbert_length(x, N)
            r = CArr(x)
            r.tag = 'hilbert-of-normalised' if getattr(x, 'tag', None) == 'normalised' else 'hilbert-of-something-else'
            return r

    def quadrature_transform(x):
        c2 = core.C()
        c2.oblige('quadrature_transform:applied-to-the-input-imfs', z3.BoolVal(x is imf0 or getattr(x, 'buf', None) == imf0.buf), 'post')
        r = CArr(x)
        r.tag = 'quadrature-of-input'
        return r

    def pfcs(sig, smoothing=None, ret_phase='wrapped', phase_jump='ascending'):
        c2 = core.C()
        c2.oblige('phase_from_complex_signal:unwrapped-phase-requested-for-the-frequency', z3.BoolVal(ret_phase == 'unwrapped' and isinstance(sig, CArr)), 'post')
        c2.ghost['src'] = getattr(sig, 'tag', None)
        return SArr(sig.src.shape_e, lambda i, j: UNW(i, j), 'f')

    class Utils:
        wrap_phase = staticmethod(g['wrap_phase'])

        @staticmethod
        def amplitude_normalise(x, **kw2):
            c2 = core.C()
            c2.oblige('amplitude_normalise:applied-to-the-input-imfs-with-default-options', z3.BoolVal((x is imf0 or getattr(x, 'buf', None) == imf0.buf) and not kw2), 'post')
            r = SArr(x.shape_e, lambda i, j: NORMED(i, j), 'f')
            r.tag = 'normalised'
            return r

        @staticmethod
        def interp_envelope(v, mode='upper', **kw2):
            c2 = core.C()
            j = len(c2.ghost['env_calls'])
            c2.ghost['env_calls'].append(mode)
            c2.oblige('interp_envelope:upper-envelope-with-default-options', z3.BoolVal(mode == 'upper' and not kw2 and v.ndim == 1), 'post')
            if v.ndim == 1:
                c2.oblige('interp_envelope:column-%d-of-the-ORIGINAL-imfs' % j, is_col_of_input(v, z3.IntVal(j)), 'post')
            # unit precondition: every column is an IMF with an upper envelope (a column without one gives a NaN amplitude column)
            return SArr((N,), lambda t, j=j: ENVUP(t, z3.IntVal(j)), 'f')
    g['signal'] = Sig
    g['fft'] = FFTShim
    g['phase_from_complex_signal'] = pfcs
    g['quadrature_transform'] = quadrature_transform
    g['utils'] = Utils
    return f(*a, **kw)


def _post_ft2(method):
    def post(c, a, kw, r):
        ip, ifr, ia = r
        i, j = z3.Ints('pi pj')
        q = z3.Int('wit_q')
        rng = z3.And(0 <= i, i < N, 0 <= j, j < 2)
        for nm, arr in (('phase', ip), ('frequency', ifr), ('amplitude', ia)):
            c.oblige('post:%s-has-the-shape-of-the-input' % nm, z3.And(z3.BoolVal(arr.ndim == 2), arr.shape_e[0] == N, arr.shape_e[1] == 2) if arr.ndim == 2 else z3.BoolVal(False), 'post')
        k = SR / (2 * PI)
        want = {'nht': 'hilbert-of-normalised', 'quad': 'quadrature-of-input'}[method]
        c.oblige('post:phase-comes-from-the-%s' % want, z3.BoolVal(c.ghost.get('src') == want), 'post')
        c.oblige('post:frequency-is-scaled-derivative-of-the-unwrapped-phase', z3.Implies(z3.And(rng, 1 <= i, i <= N - 2), ifr.elem(i, j) == (UNW(i + 1, j) - UNW(i - 1, j)) / 2 * k), 'post')
        c.oblige('post:phase-is-the-wrap-of-the-same-unwrapped-phase', z3.Implies(rng, z3.And(ip.elem(i, j) >= 0, ip.elem(i, j) < 2 * PI,
                                                                                         z3.Exists([q], ip.elem(i, j) == UNW(i, j) - z3.ToReal(q) * (2 * PI)))), 'post')
        if ia.ndim == 2:
            c.oblige('post:amplitude-of-column-j-is-the-upper-envelope-of-column-j', z3.Implies(rng, ia.elem(i, j) == ENVUP(i, j)), 'post')
        c.oblige('post:one-envelope-per-column', z3.BoolVal(len(c.ghost['env_calls']) == 2), 'post')
    return post


# ----------------------------------------------------------------------------- amplitude_normalise: per-column iteration
#
# Spec vocabulary (interp_envelope(mode='combined') is modular: a pure function of the column it is given, C05 / C19):
#   NHAS(v)  the combined envelope of the vector v exists;   NENV(v)  that envelope;   NSUM(v)  the sum of its samples
#   NY(c, k) k-th normalisation iterate of COLUMN c of the input:  NY(c,0) = X[:, c],  NY(c,k+1) = NY(c,k) / NENV(NY(c,k))
#   STOP(c, k)  <=>  k >= max_iters  or  not NHAS(NY(c,k))  or  (k >= 1 and |NSUM(NY(c,k)) - T| < thresh)
#   NK(c)    the first k with STOP(c, k)            (exists: STOP(c, max_iters))
# Contract:  amplitude_normalise(X)[:, c] = NY(c, NK(c))  for every column c - a function of that column alone, each column with its
#            own budget of max_iters iterations.
VV = z3.ArraySort(I, R)
NHAS = z3.Function('NHAS', VV, B)
NENV = z3.Function('NENV', VV, VV)
NSUM = z3.Function('NSUM', VV, R)
NY = z3.Function('NY', I, I, VV)
NK = z3.Function('NK', I, I)
TT, MM, MAXI = z3.Ints('T M max_iters')
THR = z3.Real('thresh')
XAN = z3.Function('Xan', I, I, R)


def _absr(x):
    return z3.If(x >= 0, x, -x)


def _stop(c_, k):
    w = NY(c_, k)
    return z3.Or(k >= MAXI, z3.Not(NHAS(w)), z3.And(k >= 1, _absr(NSUM(w) - z3.ToReal(TT)) < THR))


class EnvArr(SArr):
    """the combined envelope of a column, as returned by the interp_envelope contract stub (its sum is the spec value NSUM)"""

    def sum(self, *a, **k):
        return SReal(NSUM(self.src))


def _env_stub(X, mode='upper', interp_method='splrep', extrema_opts=None, ret_extrema=False):
    from contracts.siftspec import vreify
    c = core.C()
    c.oblige('amplitude_normalise->interp_envelope:combined-envelope-of-one-column', z3.BoolVal(mode == 'combined' and X.ndim == 1), 'pre')
    x = vreify(X)
    if c.branch(NHAS(x)):
        arr = NENV(x)
        r = EnvArr((X.shape_e[0],), lambda t: arr[t], 'f')
        r.as_array = arr
        r.src = x
        return r
    return None


def _mk_an(c):
    c.assume(z3.And(TT >= 4, MM >= 1, MAXI >= 0, THR > 0))
    cq, kq, tq = z3.Ints('nc nk nt')
    inr = z3.And(0 <= tq, tq < TT)
    # definitions
    c.assume(z3.ForAll([cq, tq], NY(cq, 0)[tq] == z3.If(inr, XAN(tq, cq), z3.RealVal(0)), patterns=[NY(cq, 0)[tq]]))
    c.assume(z3.ForAll([cq, kq, tq], z3.Implies(kq >= 0, NY(cq, kq + 1)[tq] == z3.If(inr, NY(cq, kq)[tq] / NENV(NY(cq, kq))[tq], z3.RealVal(0))), patterns=[NY(cq, kq + 1)[tq]]))
    c.assume(z3.ForAll([cq], z3.And(0 <= NK(cq), NK(cq) <= MAXI, _stop(cq, NK(cq))), patterns=[NK(cq)]))
    c.assume(z3.ForAll([cq, kq], z3.Implies(z3.And(0 <= kq, kq < NK(cq)), z3.Not(_stop(cq, kq))), patterns=[z3.MultiPattern(NK(cq), NY(cq, kq))]))
    X = SArr((TT, MM), lambda t, q: XAN(t, q), 'f')
    return (X,), dict(thresh=SReal(THR), max_iters=SInt(MAXI))


def _col(e, c_):
    """z3 array of column c_ of the working array (canonical: zero outside [0, T))"""
    from contracts.siftspec import vreify
    return vreify(e.X[:, c_, e.jimf])


def _an_outer():
    cq, tq = z3.Ints('oc ot')
    return [
        ('shape', lambda e: and_(SBool(e.X.shape_e[0] == TT), SBool(e.X.shape_e[1] == MM), SBool(z3.BoolVal(e.X.ndim == 3)), SBool(e.X.shape_e[2] == 1) if e.X.ndim == 3 else False)),
        ('iimf', lambda e: and_(0 <= e.iimf, e.iimf <= MM)),
        ('done-columns-are-their-own-normalisation', lambda e: SBool(z3.ForAll([cq, tq], z3.Implies(z3.And(0 <= cq, cq < lift(e.iimf), 0 <= tq, tq < TT),
                                                                                                      e.X.elem(tq, cq, z3.IntVal(0)) == NY(cq, NK(cq))[tq])))),
        ('later-columns-untouched', lambda e: SBool(z3.ForAll([cq, tq], z3.Implies(z3.And(lift(e.iimf) <= cq, cq < MM, 0 <= tq, tq < TT),
                                                                                    e.X.elem(tq, cq, z3.IntVal(0)) == XAN(tq, cq))))),
    ]


def _an_inner():
    cq, tq, kq = z3.Ints('ic it ik')

    def cont(e):
        k = lift(e.iters)
        w = NY(lift(e.iimf), k)
        return z3.And(NHAS(w), z3.Or(k == 0, _absr(NSUM(w) - z3.ToReal(TT)) >= THR))
    return [
        ('iters-within-the-budget-of-this-column', lambda e: and_(0 <= e.iters, SBool(z3.Or(lift(e.iters) <= MAXI, lift(e.iters) == 0)))),
        ('column-is-the-iterate', lambda e: SBool(_col(e, e.iimf) == NY(lift(e.iimf), lift(e.iters)))),
        ('continue-flag', lambda e: SBool(lift(e.continue_norm) == cont(e))),
        ('envelope-is-that-of-the-iterate', lambda e: True if e.env is None else SBool(z3.Implies(lift(e.continue_norm), z3.ForAll([tq], z3.Implies(z3.And(0 <= tq, tq < TT), e.env.elem(tq) == NENV(NY(lift(e.iimf), lift(e.iters)))[tq]))))),
        ('no-stop-before', lambda e: SBool(z3.ForAll([kq], z3.Implies(z3.And(0 <= kq, kq < lift(e.iters)), z3.Not(_stop(lift(e.iimf), kq)))))),
        ('other-columns-unchanged', lambda e: SBool(z3.ForAll([cq, tq], z3.Implies(z3.And(0 <= cq, cq < MM, cq != lift(e.iimf), 0 <= tq, tq < TT),
                                                                                   e.X.elem(tq, cq, z3.IntVal(0)) == e.pre.X.elem(tq, cq, z3.IntVal(0)))))),
        ('shape', lambda e: and_(SBool(e.X.shape_e[0] == TT), SBool(e.X.shape_e[1] == MM))),
    ]


def _post_an(c, a, kw, r):
    c0, t0 = z3.Ints('c0 t0')
    c.oblige('post:shape-of-the-input', z3.And(z3.BoolVal(r.ndim == 2), r.shape_e[0] == TT, r.shape_e[1] == MM) if r.ndim == 2 else z3.BoolVal(False), 'post')
    if r.ndim == 2:
        c.oblige('post:each-column-is-its-own-normalisation-with-its-own-iteration-budget',
                 z3.Implies(z3.And(0 <= c0, c0 < MM, 0 <= t0, t0 < TT), r.elem(t0, c0) == NY(c0, NK(c0))[t0]), 'post')


def an_unit():
    import emd.utils as EU

    def call(f, c, a, kw):
        f.__globals__['interp_envelope'] = _env_stub
        return f(*a, **kw)
    u = Unit('amplitude_normalise[per-column iteration]', 'emd/utils.py', 'amplitude_normalise', _mk_an, _post_an, module=EU, wrap_call=call,
             loops={0: {'inv': _an_outer()},
                    2: {'inv': _an_inner(),
                        'decl': {'env': lambda e: SArr((TT,), (lambda g: lambda i: g(i))(core.C().fresh_fun('envh', I, R)), 'f')},
                        'variant': lambda e: wrap(z3.If(lift(e.continue_norm), MAXI - lift(e.iters), z3.IntVal(-1)) + 1)}})
    u.drop_names = ('division-by-nonzero',)
    return u


def units(tier):
    import emd.spectra as ES
    import emd.utils as EU
    U = [Unit('freq_from_phase', SP, 'freq_from_phase', _mk_ffp, _post_ffp, module=ES),
         Unit('phase_from_freq', SP, 'phase_from_freq', _mk_pff, _post_pff, module=ES)]
    for const in (False, True):
        U.append(Unit('roundtrip[%s]' % ('constant profile' if const else 'arbitrary profile'), SP, 'phase_from_freq', _mk_rt(const), _post_rt(const), module=ES,
                      inline=[(SP, 'freq_from_phase', {})], wrap_call=_call_rt))
    U.append(Unit('wrap_phase', 'emd/utils.py', 'wrap_phase', _mk_wrap, _post_wrap, module=EU))
    U.append(Unit('frequency_transform[hilbert]', SP, 'frequency_transform', _mk_ft, _post_ft, module=ES,
                  inline=[('emd/support.py', 'ensure_2d', {}), (SP, 'freq_from_phase', {}), ('emd/utils.py', 'wrap_phase', {})], wrap_call=_call_ft))
    for method in ('nht', 'quad'):
        U.append(Unit('frequency_transform[%s]' % method, SP, 'frequency_transform', _mk_ft2(method), _post_ft2(method), module=ES,
                      inline=[('emd/support.py', 'ensure_2d', {}), (SP, 'freq_from_phase', {}), ('emd/utils.py', 'wrap_phase', {})], wrap_call=_call_ft2))
    U.append(an_unit())
    return U


def lemmas(tier):
    """scale laws over the assumed contracts: z = (re, im) analytic signal, c > 0"""
    re, im, c = z3.Reals('re im c')
    ANG = z3.Function('angle', R, R, R)
    MOD = z3.Function('modulus', R, R, R)
    x, y, k = z3.Reals('ax ay ak')
    ax_angle = z3.ForAll([x, y, k], z3.Implies(k > 0, ANG(k * x, k * y) == ANG(x, y)), patterns=[ANG(k * x, k * y)])
    ax_mod = z3.ForAll([x, y, k], z3.Implies(k > 0, MOD(k * x, k * y) == k * MOD(x, y)), patterns=[MOD(k * x, k * y)])
    return [('positive-rescaling-leaves-the-phase-angle-unchanged', [ax_angle, c > 0], ANG(c * re, c * im) == ANG(re, im)),
            ('positive-rescaling-scales-the-amplitude', [ax_mod, c > 0], MOD(c * re, c * im) == c * MOD(re, im))]


def model_witness(unit_name, model):
    return None


# ----------------------------------------------------------------------------- native contract

TOL = {'hilbert': dict(freq=0.05, amp=0.06, phase=0.06, stat='max'), 'nht': dict(freq=0.05, amp=0.08, phase=0.06, stat='max'),
       'quad': dict(freq=0.09, amp=0.08, phase=0.35, stat='median')}


def replay(w):
    import emd
    import warnings
    kind = w.get('kind')
    SPm = emd.spectra
    with warnings.catch_warnings():
        warnings.simplefilter('ignore')
        if kind == 'sinusoid':
            sr, f, amp, ph0, method, ncol = w['sr'], w['f'], w['amp'], w['ph0'], w['method'], w.get('ncol', 1)
            n = int(w['n'])
            t = np.arange(n) / sr
            x = amp * np.cos(2 * np.pi * f * t + ph0)
            X = np.repeat(x[:, None], ncol, axis=1) * (np.arange(1, ncol + 1)[None, :])
            arg = X if ncol > 1 else x
            dt = w.get('dtype')
            if dt:          # the same IMFs stored as integers (ADC counts) or in single precision
                arg = np.round(arg).astype(dt) if dt.startswith('int') else arg.astype(dt)
            try:
                IP, IF, IA = SPm.frequency_transform(arg, sr, method)
            except Exception as ex:
                return True, 'frequency_transform(%s%s) raised %s: %s' % (method, ', %s input' % dt if dt else '', type(ex).__name__, ex)
            IP, IF, IA = np.asarray(IP, float), np.asarray(IF, float), np.asarray(IA, float)
            single = dt == 'float32'
            if not (IP.shape == IF.shape == IA.shape == (n, ncol)):
                return True, 'output shapes %s %s %s for input [%d x %d]' % (IP.shape, IF.shape, IA.shape, n, ncol)
            if not (np.all(np.isfinite(IP)) and np.all(np.isfinite(IF)) and np.all(np.isfinite(IA))):
                return True, 'non-finite values in the output of frequency_transform(%s): %d in phase, %d in frequency, %d in amplitude' % (method, (~np.isfinite(IP)).sum(), (~np.isfinite(IF)).sum(), (~np.isfinite(IA)).sum())
            if IP.min() < 0 or IP.max() >= 2 * np.pi + (1e-6 if single else 1e-12):
                return True, 'phase outside [0, 2pi): min %.6g max %.6g' % (IP.min(), IP.max())
            un = np.unwrap(IP, axis=0)
            d = np.gradient(un, axis=0) * sr / (2 * np.pi)
            if not np.allclose(d[3:-3], IF[3:-3], rtol=1e-4 if single else 1e-6, atol=(1e-4 if single else 1e-6) * f):
                return True, 'frequency is not the sample-rate-scaled derivative of the unwrapped phase (max diff %.3g, method %s)' % (np.abs(d[3:-3] - IF[3:-3]).max(), method)
            a, b = int(0.2 * n), int(0.8 * n)
            tol = TOL[method]
            stat = np.max if tol['stat'] == 'max' else np.median
            for col in range(ncol):
                A = amp * (col + 1)
                ef = stat(np.abs(IF[a:b, col] - f)) / f if tol['stat'] == 'max' else abs(np.median(IF[a:b, col]) - f) / f
                ea = np.max(np.abs(IA[a:b, col] - A)) / A
                exp = (2 * np.pi * f * t + ph0 + np.pi / 2) % (2 * np.pi)
                ep = stat(np.abs(np.angle(np.exp(1j * (IP[a:b, col] - exp[a:b])))))
                if not (ef <= tol['freq'] and ea <= tol['amp'] and ep <= tol['phase']):
                    return True, 'sinusoid f=%.4g amp=%g phase=%.3g sr=%g (%s): interior errors freq %.3g (tol %.2g) amp %.3g (tol %.2g) phase %.3g rad (tol %.2g)' % (
                        f, A, ph0, sr, method, ef, tol['freq'], ea, tol['amp'], ep, tol['phase'])
            return False, 'ok'
        if kind == 'scale':
            sr, method, c = w['sr'], w['method'], w['c']
            r = np.random.RandomState(w.get('seed', 0))
            n = 512
            t = np.arange(n) / sr
            x = (1 + 0.3 * np.sin(2 * np.pi * 1.5 * t)) * np.cos(2 * np.pi * 11 * t + 0.7) + 0.0 * r.randn(n)
            IP, IF, IA = SPm.frequency_transform(x, sr, method)
            IP2, IF2, IA2 = SPm.frequency_transform(c * x, sr, method)
            dph = np.abs(np.angle(np.exp(1j * (IP - IP2)))).max()
            if not (dph <= 1e-9) or not np.allclose(IF, IF2, rtol=1e-7, atol=1e-7):
                return True, 'rescaling the IMF by %g changes phase / frequency (method %s): max phase diff %.3g, max freq diff %.3g' % (c, method, dph, np.abs(IF - IF2).max())
            if not np.allclose(IA2, c * IA, rtol=1e-9, atol=0):
                return True, 'amplitude does not scale with the IMF (factor %g, method %s): max rel diff %.3g' % (c, method, np.abs(IA2 / (c * IA) - 1).max())
            return False, 'ok'
        if kind == 'wrap':
            vals = np.array(w['vals'], float)
            wv = emd.utils.wrap_phase(vals.copy())
            kq = (vals - wv) / (2 * np.pi)
            if wv.min() < 0 or wv.max() >= 2 * np.pi or not np.allclose(kq, np.round(kq), atol=1e-9):
                return True, 'wrap_phase(%s) = %s: not in [0, 2pi) / not congruent to the argument' % (vals.tolist(), wv.tolist())
            return False, 'ok'
        if kind == 'set':
            # a set of IMFs: strongly amplitude-modulated carriers followed by pure sinusoids.  Each column's estimates are those of the
            # column transformed on its own, and rescaling one column leaves every column's phase / frequency unchanged.
            sr, method, ncol = w['sr'], w['method'], w['ncol']
            n = 1024
            t = np.arange(n) / sr
            cols = []
            for q in range(ncol):
                fc = [11.0, 37.0, 83.0, 23.0][q % 4] * sr / 1000.0
                depth = w['depth'] if q < w['n_am'] else 0.0
                cols.append((1 + depth * np.sin(2 * np.pi * (3.0 * sr / 1000.0) * t)) * np.cos(2 * np.pi * fc * t + 0.3 * q))
            X = np.array(cols).T
            IP, IF, IA = SPm.frequency_transform(X.copy(), sr, method)
            for q in range(ncol):
                ip1, if1, ia1 = SPm.frequency_transform(X[:, q].copy(), sr, method)
                dph = np.abs(np.angle(np.exp(1j * (IP[:, q] - ip1[:, 0])))).max()
                if not (dph <= 1e-9) or not np.allclose(IF[:, q], if1[:, 0], rtol=1e-7, atol=1e-7) or not np.allclose(IA[:, q], ia1[:, 0], rtol=1e-9, atol=1e-12):
                    return True, 'column %d of a %d-column set (method %s, %d amplitude-modulated columns of depth %g first) differs from the same IMF transformed alone: max phase diff %.3g rad, max freq diff %.3g' % (
                        q, ncol, method, w['n_am'], w['depth'], dph, np.abs(IF[:, q] - if1[:, 0]).max())
            c = w.get('c', 8.0)
            Y = X.copy()
            Y[:, -1] *= c
            IP2, IF2, IA2 = SPm.frequency_transform(Y, sr, method)
            dph = np.abs(np.angle(np.exp(1j * (IP - IP2)))).max()
            if not (dph <= 1e-9) or not np.allclose(IF, IF2, rtol=1e-7, atol=1e-7):
                return True, 'rescaling the last IMF of the set by %g changes phase / frequency (method %s): max phase diff %.3g, max freq diff %.3g' % (c, method, dph, np.abs(IF - IF2).max())
            return False, 'ok'
        if kind == 'roundtrip':
            sr = w['sr']
            f = np.array(w['f'], float)
            ph = SPm.phase_from_freq(f, sr)
            if np.shape(ph) != f.shape:
                return True, 'phase_from_freq changed the shape of the profile: %s -> %s' % (f.shape, np.shape(ph))
            g = SPm.freq_from_phase(ph, sr)
            if np.shape(g) != f.shape:
                return True, 'freq_from_phase changed the shape: %s -> %s' % (f.shape, np.shape(g))
            exp = (f[1:-1] + f[2:]) / 2
            if not np.allclose(g[1:-1], exp, rtol=1e-9, atol=1e-9):
                return True, 'freq -> phase -> freq is not the two-sample average (max diff %.3g)' % np.abs(g[1:-1] - exp).max()
            if np.all(f == f[:1]) and not np.allclose(g, f, rtol=1e-10, atol=1e-10):
                return True, 'constant frequency profile not reproduced exactly'
            return False, 'ok'
        if kind == 'normalise':
            n = 512
            t = np.linspace(0, 4, n)
            x = (1 + 0.5 * np.sin(2 * np.pi * 0.5 * t)) * np.cos(2 * np.pi * 9 * t)
            if w.get('dtype'):       # integer-typed IMF (counts): the normalised wave is that of the same values held as floats
                xi = np.round(1e6 * x).astype(w['dtype'])
                ref = emd.utils.amplitude_normalise(xi.astype(float)[:, None])
                got = emd.utils.amplitude_normalise(xi[:, None].copy())
                if not np.allclose(got, ref, rtol=1e-9, atol=1e-9):
                    return True, 'amplitude_normalise of an %s-typed IMF differs from that of the same values as floats (max diff %.3g, result dtype %s)' % (w['dtype'], np.abs(got - ref).max(), got.dtype)
                x = xi.astype(float)
                a = emd.utils.amplitude_normalise(xi[:, None].copy())
                b = emd.utils.amplitude_normalise((int(w['c']) * xi)[:, None].copy())
                if not np.allclose(a, b, rtol=1e-9, atol=1e-9):
                    return True, 'amplitude_normalise (%s input) is not invariant under rescaling by %d (max diff %.3g)' % (w['dtype'], int(w['c']), np.abs(a - b).max())
                return False, 'ok'
            a = emd.utils.amplitude_normalise(x[:, None].copy())
            b = emd.utils.amplitude_normalise((w['c'] * x)[:, None].copy())
            if not np.allclose(a, b, rtol=1e-9, atol=1e-9):
                return True, 'amplitude_normalise is not invariant under positive rescaling by %g (max diff %.3g)' % (w['c'], np.abs(a - b).max())
            if np.any(np.sign(a[np.abs(x) > 0.3, 0]) != np.sign(x[np.abs(x) > 0.3])):
                return True, 'amplitude_normalise is not sign preserving'
            return False, 'ok'
    return False, 'unknown witness kind'


def refute(tier, seed, emit):
    srs = (128, 1000) if tier == 'quick' else (128, 500, 1000)
    amps = (0.1, 10.0) if tier == 'quick' else (0.1, 1.0, 10.0)
    phs = np.linspace(0, 2 * np.pi, 4 if tier == 'quick' else 8, endpoint=False)
    emit.scope('pure sinusoids: methods {hilbert, nht, quad} x sample rates %s x frequencies {5, 11, 23 cycles per record, sr/25, sr/12} x amplitudes %s x %d starting phases x 1-3 IMF columns: shapes, phase range, frequency = scaled derivative of unwrapped phase, interior accuracy within calibrated tolerances %s' % (list(srs), list(amps), len(phs), TOL), exhaustive=True)
    for method in ('hilbert', 'nht', 'quad'):
        for sr in srs:
            n = sr * 2 if sr < 1000 else sr
            secs = n / sr
            for f in (5 / secs, 11 / secs, 23 / secs, sr / 25.0, sr / 12.0):
                for ai, amp in enumerate(amps):
                    for pi_, ph0 in enumerate(phs):
                        ncol = 1 + (ai + pi_) % 3 if (ai + pi_) % 4 == 0 else 1
                        emit.case((method, sr, f, amp, ph0), contract='frequency_transform')
                        w = {'kind': 'sinusoid', 'method': method, 'sr': sr, 'n': n, 'f': float(f), 'amp': amp, 'ph0': float(ph0), 'ncol': ncol}
                        ok, msg = replay(w)
                        if ok:
                            cl = 'accuracy-on-sinusoids' if 'interior errors' in msg else 'frequency-is-derivative-of-unwrapped-phase' if 'derivative' in msg else 'shapes-and-phase-range'
                            emit.violation('%s:%s' % (cl, method), w, msg)
        if emit.full:
            return
    # the same sinusoids stored as integers (ADC counts, amplitude 1e6) or in single precision.  nht / quad go through amplitude_normalise,
    # which must not normalise into an integer-typed buffer; frequencies whose period is a whole number of samples are left to the float64
    # scope (two equal samples straddling each peak are not a strict extremum: see DESIGN 10.4)
    emit.scope('the sinusoid cases with 5, 11, 23 cycles per record stored as int64 (amplitude 1e6, all three methods) and as float32 (hilbert): same shape / range / derivative / accuracy clauses')
    for method in ('hilbert', 'nht', 'quad'):
        for dt in ('int64', 'float32'):
            if dt == 'float32' and method != 'hilbert':
                continue
            for sr in srs[:2]:
                n = sr * 2 if sr < 1000 else sr
                secs = n / sr
                for f in (5 / secs, 11 / secs, 23 / secs):
                    for pi_, ph0 in enumerate(phs[::2]):
                        emit.case((method, sr, f, dt, ph0), contract='frequency_transform')
                        w = {'kind': 'sinusoid', 'method': method, 'sr': sr, 'n': n, 'f': float(f), 'amp': 1e6 if dt == 'int64' else 10.0, 'ph0': float(ph0), 'ncol': 1 + pi_ % 2, 'dtype': dt}
                        ok, msg = replay(w)
                        if ok:
                            cl = 'accuracy-on-sinusoids' if 'interior errors' in msg else 'frequency-is-derivative-of-unwrapped-phase' if 'derivative' in msg else 'shapes-and-phase-range'
                            emit.violation('%s:%s:%s-input' % (cl, method, dt), w, msg)
    # record lengths that are not FFT-friendly (primes, twice a prime): the outputs keep the input's shape whatever the transform length
    emit.scope('sinusoids of 997, 1009, 2039 and 2 x 509 samples (prime / twice-prime record lengths) x {hilbert, nht, quad} x 1-2 columns: shapes, range, derivative and accuracy clauses')
    for method in ('hilbert', 'nht', 'quad'):
        for n in (997, 1009, 2039, 1018):
            sr = 1000
            emit.case((method, 'length', n), contract='frequency_transform')
            w = {'kind': 'sinusoid', 'method': method, 'sr': sr, 'n': n, 'f': 11.3, 'amp': 1.0, 'ph0': 0.4, 'ncol': 1 + n % 2}
            ok, msg = replay(w)
            if ok:
                cl = 'accuracy-on-sinusoids' if 'interior errors' in msg else 'frequency-is-derivative-of-unwrapped-phase' if 'derivative' in msg else 'shapes-and-phase-range'
                emit.violation('%s:%s:record-length-%d' % (cl, method, n), w, msg)
    for c in (2.0, 3.0):
        emit.case(('norm-int', c), contract='amplitude_normalise')
        ok, msg = replay({'kind': 'normalise', 'c': c, 'dtype': 'int64'})
        if ok:
            emit.violation('amplitude-normalise-scale-free:int64-input', {'kind': 'normalise', 'c': c, 'dtype': 'int64'}, msg)
    emit.scope('scale factors 2^k (k in -6..6), 3.7, 2^-40, 2^30 and 1e-13: phase and frequency unchanged, amplitude scales, for the three methods; sets of 2-4 IMFs (amplitude-modulated carriers first, then sinusoids): every column as when transformed alone, rescaling one column changes no phase / frequency; amplitude_normalise invariant')
    for method in ('hilbert', 'nht', 'quad'):
        for c in [2.0 ** k for k in (-6, -1, 1, 6)] + [3.7, 2.0 ** -40, 2.0 ** 30, 1e-13]:       # (also recordings in SI units: Tesla, Volt)
            emit.case(('scale', method, c), contract='frequency_transform')
            w = {'kind': 'scale', 'method': method, 'sr': 256, 'c': c}
            ok, msg = replay(w)
            if ok:
                emit.violation('positive-rescaling:%s' % method, w, msg)
    for method in ('hilbert', 'nht', 'quad'):
        for ncol in (2, 3, 4):
            for n_am, depth in ((1, 0.8), (2, 0.5), (0, 0.0)):
                if n_am >= ncol:
                    continue
                emit.case(('set', method, ncol, n_am), contract='frequency_transform')
                w = {'kind': 'set', 'method': method, 'sr': 1000, 'ncol': ncol, 'n_am': n_am, 'depth': depth}
                ok, msg = replay(w)
                if ok:
                    emit.violation('columns-of-a-set-are-transformed-independently:%s' % method, w, msg)
    for c in (0.25, 2.0, 37.5, 2.0 ** -40, 1e-13, 2.0 ** 30):
        emit.case(('norm', c), contract='amplitude_normalise')
        ok, msg = replay({'kind': 'normalise', 'c': c})
        if ok:
            emit.violation('amplitude-normalise-scale-free', {'kind': 'normalise', 'c': c}, msg)
    emit.scope('wrap_phase on negative, zero, multiple-of-2pi and large phases: result in [0, 2pi) and congruent to the argument')
    import emd
    vals = np.array([-7.5, -2 * np.pi, -1e-9, -0.3, 0.0, 1.0, 2 * np.pi - 1e-9, 2 * np.pi, 6.5, 40.0, -40.0])
    emit.case(('wrap',), contract='wrap_phase')
    w = {'kind': 'wrap', 'vals': vals.tolist()}
    ok, msg = replay(w)
    if ok:
        emit.violation('wrap-phase-range-and-congruence', w, msg)
    r = rng(seed, 9)
    nrt = 20 if tier == 'quick' else 200
    emit.scope('%d smooth random frequency profiles + constant profiles, a quarter of them with 2-3 columns: freq -> phase -> freq (shape kept, columns independent)' % nrt)
    for k in range(nrt):
        n = int(r.randint(20, 400))
        f = np.full(n, 7.5) if k % 5 == 0 else 10 + 3 * np.sin(np.linspace(0, r.uniform(1, 9), n)) + np.cumsum(r.randn(n)) * 0.01
        emit.case(('rt', k), contract='phase_from_freq')
        if k % 4 == 1:        # a [samples x imfs] profile: the columns must not mix
            f = np.c_[f, 2 * f[::-1], np.full(n, 3.0)][:, :2 + k % 2]
        w = {'kind': 'roundtrip', 'sr': float(r.choice([128, 512, 1000])), 'f': f.tolist()}
        ok, msg = replay(w)
        if ok:
            emit.violation('freq-phase-freq-roundtrip', w, msg)
