"""C11 - the holospectrum bins energy jointly by carrier and amplitude-modulation frequency.

Function under contract: emd.spectra.holospectrum (ensure_2d / ensure_equal_dims rebuilt from source, verified inline).
  * contract on the triples handed to scipy.sparse.coo_matrix: sample (t,m,k) -> row t, column i + a*F1 with
    i = digitize(f1[t,m], E1), a = digitize(f2[t,m,k], E2), F1 = len(E1)+1, data = amp^(2|1); shape (T, F1*F2);
  * fold/unfold lemma (non-linear integers): 0<=i<F1, 0<=a<F2  =>  (i + a*F1) div F1 = a and mod F1 = i, and folding is injective;
  * output: full[t,a',i'] = dense[t, (a'+1)*F1 + (i'+1)] with shape (T, len(E2)-1, len(E1)-1), i.e. exactly the margins a in {0,len(E2)},
    i in {0,len(E1)} (= out of range) are trimmed; 'sum' / 'mean' are the column sums / means of the same sparse matrix.
M (first-level IMFs) and K (second-level IMFs) are enumerated concretely; T and both bin counts are symbolic.
"""
import itertools
import numpy as np
import z3
from contracts.common import *
from pyvc.verify import Unit

PROPERTY = 'C11'
LEVEL = 'proof'
FUNCTIONS = ['emd.spectra.holospectrum', 'emd.support.ensure_2d (inlined)', 'emd.support.ensure_equal_dims (inlined)']
ASSUMPTIONS = [
    'floats are mathematical reals; numpy ints unbounded',
    'assumed numpy contracts (cross-checked natively, not proved): digitize (increasing bins), broadcast_to, arange, reshape in C order, slicing',
    'arrays are mathematical maps from indices to values: memory layout (C / Fortran / views) is not modelled - bounded stand-in only',
    'assumed scipy contract: coo_matrix sums duplicates; toarray() / sum(axis=0) / mean(axis=0) are the dense form / column sums / column means of that matrix (modelled by uninterpreted DENSE, COLSUM with mean = COLSUM/T)',
    'M and K enumerated concretely (1..2); T and the numbers of bins symbolic',
]
NOT_COVERED = ['that the time-squashed outputs equal the sum/mean over time of the full output is the assumed scipy contract (checked by the bounded stand-in)']

T = z3.Int('T')
NE1 = z3.Int('NE1')
NE2 = z3.Int('NE2')
DENSE = z3.Function('DENSE', I, I, R)
COLSUM = z3.Function('COLSUM', I, R)


class CooStub:
    def __init__(self, data, rows, cols, shape):
        self.data, self.rows, self.cols, self.shape = data, rows, cols, shape

    def toarray(self):
        return SArr((lift(self.shape[0]), lift(self.shape[1])), lambda r, c_: DENSE(r, c_), 'f')

    def sum(self, axis=None):
        if axis != 0:
            raise core.Unsupported('sparse sum axis')
        return SArr((1, lift(self.shape[1])), lambda r, c_: COLSUM(c_), 'f')

    def mean(self, axis=None):
        if axis != 0:
            raise core.Unsupported('sparse mean axis')
        n = z3.ToReal(lift(self.shape[0]))
        return SArr((1, lift(self.shape[1])), lambda r, c_: COLSUM(c_) / n, 'f')


class SparseShim:
    @staticmethod
    def coo_matrix(arg, shape=None):
        data, (rows, cols) = arg
        st = CooStub(data, rows, cols, shape)
        core.C().ghost.setdefault('coo', []).append(st)
        return st


def _incr(c, E, n):
    i, j = z3.Ints('ei ej')
    c.assume(z3.ForAll([i, j], z3.Implies(z3.And(0 <= i, i < j, j < n), E(i) < E(j)), patterns=[z3.MultiPattern(E(i), E(j))]))


def _mk(M, K, mode, squash):
    def mk(c):
        f1, F1f = mat('infr', T, M)
        F2f = z3.Function('infr2', I, I, I, R)
        A2f = z3.Function('inam2', I, I, I, R)
        f2 = SArr((T, M, K), lambda t, m, k: F2f(t, m, k), 'f')
        a2 = SArr((T, M, K), lambda t, m, k: A2f(t, m, k), 'f')
        e1, E1 = vec('edges1', NE1)
        e2, E2 = vec('edges2', NE2)
        c.assume(z3.And(T >= 1, NE1 >= 2, NE2 >= 2))
        _incr(c, E1, NE1)
        _incr(c, E2, NE2)
        c.ghost['in'] = (f1, f2, a2, e1, e2)
        return (f1, f2, a2, e1, e2), dict(mode=mode, squash_time=squash)
    return mk


def _post(M, K, mode, squash):
    def post(c, args, kw, ret):
        f1, f2, a2, e1, e2 = c.ghost['in']
        calls = c.ghost.get('coo', [])
        c.oblige('post:one-coo_matrix-call', z3.BoolVal(len(calls) == 1), 'post')
        c.oblige('post:no-write-reached-the-callers-arrays', z3.BoolVal(c.ghost.get('frame_writes', 0) == 0), 'post')
        if len(calls) != 1:
            return
        st = calls[0]
        F1, F2 = NE1 + 1, NE2 + 1
        c.oblige('post:sparse-shape', z3.And(lift(st.shape[0]) == T, lift(st.shape[1]) == F1 * F2), 'post')
        with core.SpecMode():
            D1 = npshim.digitize(f1, e1)
            D2 = npshim.digitize(f2, e2)
        p = z3.Int('p')
        t, m, k = p / (M * K), (p / K) % M, p % K
        rng = z3.And(0 <= p, p < T * M * K)
        i_, a_ = D1.elem(t, m), D2.elem(t, m, k)
        amp = a2.elem(t, m, k)
        val = amp * amp if mode == 'energy' else amp
        for arr in (st.data, st.rows, st.cols):
            c.oblige('post:triples-cover-every-sample', arr.shape_e[0] == T * M * K, 'post')
        c.oblige('post:data-is-amplitude', z3.Implies(rng, st.data.elem(p) == val), 'post')
        c.oblige('post:row-is-own-time', z3.Implies(rng, st.rows.elem(p) == t), 'post')
        c.oblige('post:col-is-folded-bin-pair', z3.Implies(rng, st.cols.elem(p) == i_ + a_ * F1), 'post')
        c.oblige('post:col-in-range', z3.Implies(rng, z3.And(0 <= st.cols.elem(p), st.cols.elem(p) < F1 * F2)), 'post')
        # output cells
        x, y, tt = z3.Ints('ox oy ot')
        if squash is False:
            c.oblige('post:out-shape', z3.And(ret.shape_e[0] == T, ret.shape_e[1] == NE2 - 1, ret.shape_e[2] == NE1 - 1), 'post')
            c.oblige('post:out-cell-is-unfolded-trimmed-cell', z3.Implies(z3.And(0 <= tt, tt < T, 0 <= x, x < NE2 - 1, 0 <= y, y < NE1 - 1),
                                                                           ret.elem(tt, x, y) == DENSE(tt, (x + 1) * F1 + (y + 1))), 'post')
        else:
            c.oblige('post:out-shape', z3.And(ret.shape_e[0] == NE2 - 1, ret.shape_e[1] == NE1 - 1), 'post')
            exp = COLSUM((x + 1) * F1 + (y + 1))
            if squash == 'mean':
                exp = exp / z3.ToReal(T)
            c.oblige('post:out-cell-is-unfolded-trimmed-%s' % squash, z3.Implies(z3.And(0 <= x, x < NE2 - 1, 0 <= y, y < NE1 - 1), ret.elem(x, y) == exp), 'post')
    return post


def units(tier):
    import emd.spectra as ES
    U = []
    inl = [('emd/support.py', 'ensure_2d', {}), ('emd/support.py', 'ensure_equal_dims', {})]
    grid = [(1, 1), (2, 1), (1, 2)] + ([(2, 2)] if tier == 'thorough' else [])
    for (M, K) in grid:
        for mode in ('energy', 'amplitude'):
            for sq in (False, 'sum', 'mean'):
                if mode == 'amplitude' and sq != False and (M, K) != (1, 1):    # noqa: E712
                    continue
                u = Unit('holospectrum[M=%d,K=%d,%s,squash=%s]' % (M, K, mode, sq), 'emd/spectra.py', 'holospectrum', _mk(M, K, mode, sq), _post(M, K, mode, sq),
                         module=ES, ns={'sparse': SparseShim}, inline=inl)
                u.frame = True          # no write may reach the caller's frequency / amplitude / edge arrays
                U.append(u)
    return U


def lemmas(tier):
    i, a, i2, a2_, F1, F2 = z3.Ints('li la li2 la2 lF1 lF2')
    pre = [F1 >= 1, F2 >= 1, 0 <= i, i < F1, 0 <= a, a < F2]
    L = [('fold-unfold:div', pre, (i + a * F1) / F1 == a),
         ('fold-unfold:mod', pre, (i + a * F1) % F1 == i),
         ('fold-in-range', pre, z3.And(0 <= i + a * F1, i + a * F1 < F1 * F2)),
         ('fold-injective', pre + [0 <= i2, i2 < F1, 0 <= a2_, a2_ < F2, i + a * F1 == i2 + a2_ * F1], z3.And(i == i2, a == a2_)),
         # trimmed cell (x,y) of the output <-> in-range digitised pair (a,i) = (x+1, y+1): 1 <= a <= NE2-1, 1 <= i <= NE1-1
         ('trim-is-exactly-out-of-range', [F1 >= 3, F2 >= 3, 0 <= i, i < F1, 0 <= a, a < F2],
          z3.And(1 <= i, i <= F1 - 2, 1 <= a, a <= F2 - 2) == z3.Not(z3.Or(i == 0, i == F1 - 1, a == 0, a == F2 - 1)))]
    return L


def model_witness(unit_name, model):
    return None


# ----------------------------------------------------------------------------- native contract

def brute(infr, infr2, inam2, e1, e2, mode):
    infr, infr2, inam2 = np.asarray(infr, float), np.asarray(infr2, float), np.asarray(inam2, float)
    Tn, M, K = infr2.shape
    out = np.zeros((Tn, len(e2) - 1, len(e1) - 1))
    for t in range(Tn):
        for m in range(M):
            ci = [b for b in range(len(e1) - 1) if e1[b] <= infr[t, m] < e1[b + 1]]
            if not ci:
                continue
            for k in range(K):
                ai = [b for b in range(len(e2) - 1) if e2[b] <= infr2[t, m, k] < e2[b + 1]]
                if not ai:
                    continue
                out[t, ai[0], ci[0]] += inam2[t, m, k] ** 2 if mode == 'energy' else inam2[t, m, k]
    return out


def _layout(x, how):
    """the same values in another memory layout (the spectrum is a function of the values only)"""
    x = np.asarray(x)
    if x.dtype == object or x.dtype.kind not in 'fiub':
        x = np.asarray(x, float)
    if how == 'F':
        return np.asfortranarray(x.copy())
    if how == 'moveaxis' and x.ndim >= 2:           # stored with the last axis first, viewed in the documented order
        return np.moveaxis(np.ascontiguousarray(np.moveaxis(x, -1, 0)), 0, -1)
    if how == 'strided':
        big = np.full(tuple(2 * n for n in x.shape), -7, dtype=x.dtype)
        big[tuple(slice(None, None, 2) for _ in x.shape)] = x
        return big[tuple(slice(None, None, 2) for _ in x.shape)]
    return x.copy()


def replay(w):
    import emd.spectra as ES
    if w.get('kind') != 'holo':
        return False, 'unknown witness kind'
    f1, f2, a2 = np.array(w['infr'], float), np.array(w['infr2'], float), np.array(w['inam2'], float)
    e1, e2 = np.array(w['edges1'], float), np.array(w['edges2'], float)
    # carrier / AM frequencies stored as integers (whole Hz) or in single precision, amplitudes in single precision: the spectrum is that of
    # the stored values against the caller's float64 edges
    if w.get('dtype_f'):
        f1, f2 = f1.astype(w['dtype_f']), f2.astype(w['dtype_f'])
    if w.get('dtype_a'):
        a2 = a2.astype(w['dtype_a'])
    tol = 1e-12 if not w.get('dtype_a') else 2e-6
    full = brute(f1.astype(float), f2.astype(float), a2.astype(float), e1, e2, w['mode'])
    lay = w.get('layout', 'C')
    msgs = []
    # the three calls of a case receive the SAME three array objects (as in a script that computes its frequencies once): an earlier call
    # must not change what a later one sees, and the arrays are the caller's afterwards
    F1, F2, A2 = _layout(f1, lay), _layout(f2, lay), _layout(a2, lay)
    keep = (F1.copy(), F2.copy(), A2.copy())
    for sq, exp in ((False, full), ('sum', full.sum(axis=0)), ('mean', full.mean(axis=0))):
        try:
            got = ES.holospectrum(F1, F2, A2, e1, e2, mode=w['mode'], squash_time=sq)
        except Exception as ex:
            msgs.append('squash_time=%r raised %s: %s' % (sq, type(ex).__name__, ex))
            continue
        got = np.asarray(got)
        if got.shape != exp.shape:
            msgs.append('squash_time=%r: shape %s, expected %s' % (sq, got.shape, exp.shape))
        elif not np.allclose(got, exp, rtol=tol, atol=tol):
            if got.size > 500:
                bad = np.argwhere(~np.isclose(got, exp, rtol=tol, atol=tol))
                msgs.append('squash_time=%r: %d cells differ from the per-sample histogram, e.g. cell %s holds %.6g, expected %.6g' % (sq, len(bad), tuple(int(v) for v in bad[0]), got[tuple(bad[0])], exp[tuple(bad[0])]))
            else:
                msgs.append('squash_time=%r: %s differs from the triple-loop histogram %s' % (sq, np.round(got, 5).tolist(), np.round(exp, 5).tolist()))
    if not all(np.array_equal(u, v, equal_nan=True) for u, v in zip((F1, F2, A2), keep)):
        msgs.append("the caller's frequency / amplitude arrays were modified by holospectrum")
    if msgs:
        return True, ('; '.join(msgs))[:600] + ' (infr=%s infr2=%s e1=%s e2=%s %s)' % (f1.tolist(), f2.tolist(), e1.tolist() if len(e1) < 20 else '%d edges %g..%g' % (len(e1), e1[0], e1[-1]), e2.tolist() if len(e2) < 20 else '%d edges %g..%g' % (len(e2), e2[0], e2[-1]), w['mode'])
    return False, 'all three squash settings equal the triple-loop histogram'


def refute(tier, seed, emit):
    e1s = [np.array([1.0, 2.0, 3.0]), np.array([1.0, 2.0])]
    e2s = [np.array([0.5, 1.0]), np.array([0.5, 1.0, 1.5, 2.0])]
    emit.scope('every [T<=2 x M<=2] carrier and [T x M x K<=2] AM frequency array over {below, first edge, a midpoint, last edge, above} of independent bin sets x {energy, amplitude}: all three squash_time settings vs a triple-loop histogram; non-trivial = some sample out of range or on an edge', exhaustive=True)
    shapes = [(1, 1, 1), (2, 1, 1), (1, 2, 1), (1, 1, 2)] + ([(2, 2, 1), (1, 2, 2)] if tier == 'thorough' else [])
    for e1, e2 in itertools.product(e1s, e2s):
        v1 = [e1[0] - 1, e1[0], (e1[0] + e1[1]) / 2, e1[-1], e1[-1] + 1]
        v2 = [e2[0] - 1, e2[0], (e2[-2] + e2[-1]) / 2, e2[-1], e2[-1] + 1]
        for (Tn, M, K) in shapes:
            for c1 in itertools.product(v1, repeat=Tn * M):
                for c2 in itertools.product(v2, repeat=Tn * M * K):
                    f1 = np.array(c1).reshape(Tn, M)
                    f2 = np.array(c2).reshape(Tn, M, K)
                    a2 = 0.5 + 0.25 * np.arange(Tn * M * K).reshape(Tn, M, K)
                    for mode in (('energy', 'amplitude') if Tn * M * K <= 2 else ('energy',)):
                        emit.case((tuple(e1), tuple(e2), c1, c2, mode), nontrivial=True, contract='holospectrum')
                        w = {'kind': 'holo', 'infr': f1.tolist(), 'infr2': f2.tolist(), 'inam2': a2.tolist(), 'edges1': e1.tolist(), 'edges2': e2.tolist(), 'mode': mode}
                        ok, msg = replay(w)
                        if ok:
                            emit.violation('raises' if 'raised' in msg else 'each-sample-in-exactly-its-cell', w, msg)
                if emit.full:
                    return
    r = rng(seed, 11)
    nr = 20 if tier == 'quick' else 200
    emit.scope('%d seeded random arrays [T 3..60 x M 1..3 x K 1..3] around independent linear/log bin sets, in C / Fortran / moved-axis / strided memory layouts' % nr)
    import emd.spectra as ES
    for q in range(nr):
        Tn, M, K = int(r.randint(3, 60)), int(r.randint(1, 4)), int(r.randint(1, 4))
        e1 = ES.define_hist_bins(1, 20, int(r.randint(1, 8)), 'linear')[0]
        e2 = ES.define_hist_bins(0.1, 5, int(r.randint(1, 6)), 'log' if q % 2 else 'linear')[0]
        f1 = r.uniform(-1, 24, size=(Tn, M))
        f2 = r.uniform(-0.5, 6, size=(Tn, M, K))
        f1[r.rand(Tn, M) < 0.1] = r.choice(e1)
        f2[r.rand(Tn, M, K) < 0.1] = r.choice(e2)
        a2 = r.rand(Tn, M, K) + 0.1
        emit.case(('rand', q), contract='holospectrum')
        lay = ['C', 'F', 'moveaxis', 'strided'][q % 4]
        w = {'kind': 'holo', 'infr': f1.tolist(), 'infr2': f2.tolist(), 'inam2': a2.tolist(), 'edges1': e1.tolist(), 'edges2': e2.tolist(), 'mode': 'energy' if q % 3 else 'amplitude', 'layout': lay}
        ok, msg = replay(w)
        if ok:
            emit.violation('each-sample-in-exactly-its-cell' + ('' if lay == 'C' else ':memory-layout'), w, msg[:300])
        if emit.full:
            return
    # fine bin grids: the folded (AM bin, carrier bin) index of the sparse route exceeds 2^16 - every cell, also at the top of both axes, is its own
    emit.scope('fine bin grids (400 x 200, 300 x 250 and 70000 x 1 carrier x AM bins: folded index beyond 2^16 / 2^17) x samples at the bottom, middle and top of both axes, out of range and on edges x {energy, amplitude}: all three squash_time settings vs the per-sample histogram')
    for gi, (nb1, nb2) in enumerate(((400, 200), (300, 250), (70000, 1))):
        e1 = np.linspace(1.0, 21.0, nb1 + 1)
        e2 = np.linspace(0.5, 5.5, nb2 + 1)
        f1 = np.array([[1.01, 20.99], [11.0, 0.5], [20.5, e1[-2]]])
        f2 = np.array([[[0.51, 5.49], [5.49, 5.45]], [[3.0, 5.6], [5.2, 5.3]], [[5.49, e2[-2]], [5.47, 0.2]]])
        a2 = 0.5 + 0.25 * np.arange(12).reshape(3, 2, 2)
        for mode in ('energy', 'amplitude'):
            emit.case(('fine-grid', gi, mode), nontrivial=True, contract='holospectrum')
            w = {'kind': 'holo', 'infr': f1.tolist(), 'infr2': f2.tolist(), 'inam2': a2.tolist(), 'edges1': e1.tolist(), 'edges2': e2.tolist(), 'mode': mode}
            ok, msg = replay(w)
            if ok:
                emit.violation('each-sample-in-exactly-its-cell:fine-bin-grid', dict(w, note='%d x %d bins' % (nb1, nb2)), msg[:300])
    # integer-valued (whole Hz) and single-precision frequencies against float64 edges that are not representable in that dtype
    emit.scope('integer-valued (int64, int32) and single-precision carrier / AM frequency arrays [T 4..20 x M 1..2 x K 1..2] x fractional float64 edges (x.5 for the integers, tenths for float32; values on and next to edges) x {energy, amplitude}; amplitudes float64 and float32')
    rr = rng(seed, 111)
    for q in range(18 if tier == 'quick' else 180):
        Tn, M, K = int(rr.randint(4, 21)), int(rr.randint(1, 3)), int(rr.randint(1, 3))
        dtf = ['int64', 'int32', 'float32'][q % 3]
        if dtf.startswith('int'):
            e1 = np.arange(0, 6) + 0.5
            e2 = np.array([0.5, 1.5, 3.5])
            f1 = rr.randint(-1, 7, size=(Tn, M)).astype(float)
            f2 = rr.randint(-1, 5, size=(Tn, M, K)).astype(float)
        else:
            e1 = np.linspace(0.1, 0.9, 9)
            e2 = np.linspace(0.2, 0.6, 5)
            f1 = rr.choice(np.r_[e1, e1[:-1] + 0.05, [0.0, 1.0]], size=(Tn, M))
            f2 = rr.choice(np.r_[e2, e2[:-1] + 0.05, [0.0, 1.0]], size=(Tn, M, K))
        a2 = rr.rand(Tn, M, K) + 0.25
        emit.case(('dtype', q), nontrivial=True, contract='holospectrum')
        w = {'kind': 'holo', 'infr': f1.tolist(), 'infr2': f2.tolist(), 'inam2': a2.tolist(), 'edges1': e1.tolist(), 'edges2': e2.tolist(), 'mode': 'energy' if q % 4 < 2 else 'amplitude',
             'dtype_f': dtf, 'dtype_a': 'float32' if q % 5 == 0 else None}
        ok, msg = replay(w)
        if ok:
            emit.violation('each-sample-in-exactly-its-cell:%s-frequencies' % dtf, w, msg[:400])
        if emit.full:
            return
