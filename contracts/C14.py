"""C14 - per-cycle statistics and phase alignment use exactly each cycle's samples.

Functions under contract:
  emd._cycles_support.get_cycle_stat_from_samples : out[c] = F(vals[{s: cv[s] = c}]) for every c < max(cv)+1, F arbitrary (uninterpreted);
  emd._cycles_support.project_cycles_to_samples   : out[s] = vals[cv[s]] where 0 <= cv[s] < len(vals), NaN elsewhere (contract of C16);
  emd.cycles.bin_by_phase (vector of values, no weights, given increasing edges) : avg[b] * #{t: bin(t) = b+1} = sum of x over exactly
                            those samples, and avg[b] is missing (NaN) iff the bin is empty; bin(t) = k means edge[k-1] <= phase[t] < edge[k];
  emd.cycles.phase_align (mode 'cycle', cycles handed over as an iterator) : column k of the result is the interpolant built from exactly
                            the phase / value samples of cycle k (same samples, temporal order), requested kind, extrapolating, evaluated on the phase
                            grid; lemma: linear interpolation is exact for quantities linear in phase;
bounded stand-in only: get_cycle_stat (wrapper through IterateCycles), the interpolation-error clause of phase_align, weighted / multi-column bin_by_phase.
"""
import itertools
import numpy as np
import z3
from contracts.common import *
from contracts import C16
from pyvc.verify import Unit

PROPERTY = 'C14'
LEVEL = 'proof'
FUNCTIONS = ['emd._cycles_support.get_cycle_stat_from_samples', 'emd._cycles_support.map_cycle_to_samples (inlined)', 'emd._cycles_support.project_cycles_to_samples',
             'emd.cycles.bin_by_phase (1-d values, unweighted, variance_metric default)', 'emd.cycles.phase_align (cycle mode; IterateCycles, interp1d, define_hist_bins by contract)', 'emd.support.ensure_vector (inlined)', 'emd.support.ensure_equal_dims (inlined)']
ASSUMPTIONS = [
    'floats are mathematical reals with a NaN flag; numpy ints unbounded',
    'assumed numpy contracts (cross-checked natively): where (as a function of the compared label), ==, max, zeros, integer-array gather / assignment',
    'the reducing function is an arbitrary pure function of the gathered vector (uninterpreted F over the reified vector and its length)',
    'bin_by_phase unit: assumed numpy contracts digitize (increasing edges), boolean-mask gather = np.where gather, sum(x[mask]) = indicator sum, count_nonzero(mask) = len(np.where(mask)[0]), repeat, mean with IEEE semantics (mean of an empty selection and sums with a NaN term are NaN, not exceptions; a zero divisor gives inf / nan); the variance outputs are computed but not specified',
    'phase_align unit: the cycle iterator is the contract of IterateCycles in cycle mode (yields (k, np.where(cycle_vect == k)[0]) for k < ncycles, every cycle non-empty); scipy interp1d is a stub returning an uninterpreted interpolant per cycle whose call-site obligations check what it is given; assumed contract of linear interpolation for the lemma: the value at q lies on the line through two data points',
    'the get_cycle_stat wrapper (generator-based iteration) is NOT under a discharged contract: bounded stand-in only',
]
NOT_COVERED = ['phase_align: the interpolation-error clause for non-linear quantities, augmented mode, cycles given as a vector or a Cycles object - bounded stand-in only',
               'bin_by_phase with weights, with 2-d values or with default (linspace) edges; its variance outputs - bounded stand-in only',
               'get_cycle_stat wrapper / output modes - bounded stand-in only']

N = z3.Int('N')
AR = npshim.AR
STATF = z3.Function('STATF', AR, I, R)


def _mk_stat(c):
    cv, CV = vec('cv', N, 'i')
    vals, V = vec('vals', N, 'f')
    s = z3.Int('s')
    c.assume(N >= 1)
    c.assume(z3.ForAll([s], CV(s) >= -1, patterns=[CV(s)]))
    KK, WW, PP = npshim.register_param_where(c, CV, N, 'cv')
    c.ghost['spec'] = lambda k: STATF(npshim.reify1(lambda q: V(WW(k, q)), 'f'), KK(k))

    def func(arg):
        # arbitrary reducing function: depends only on the vector it is handed
        return SReal(STATF(npshim.reify1(lambda q: arg.elem(q), 'f'), arg.shape_e[0]))
    return (vals, cv), dict(func=func)


_loops_stat = {0: {'inv': [('prefix', lambda e: forall(0, e.ii, lambda k: e.out.elem(lift(k)) == core.C().ghost['spec'](lift(k)))),
                           ('shape', lambda e: e.out.shape[0] == e.ncycles)]}}


def _post_stat(c, a, kw, r):
    vals, cv = a
    k = z3.Int('pk')
    with core.SpecMode():
        mx = npshim.amax(cv)
    c.oblige('post:one-entry-per-cycle', r.shape_e[0] == lift(mx) + 1, 'post')
    c.oblige('post:stat-is-func-of-exactly-the-labelled-samples', z3.Implies(z3.And(0 <= k, k < r.shape_e[0]), r.elem(k) == c.ghost['spec'](k)), 'post')


# ----------------------------------------------------------------------------- bin_by_phase (vector of values, no weights, given edges)

NB = z3.Int('nbins')
SUMR = npshim.SUMR


def _mk_bin(c):
    ip, IPF = vec('ip', N, 'f')
    x, XF = vec('x', N, 'f')
    edges, EF = vec('bin_edges', NB + 1, 'f')
    i, j = z3.Ints('bi bj')
    for ax in npshim.sum_axioms():
        c.assume(ax)
    c.assume(z3.And(N >= 1, NB >= 1))
    c.assume(z3.ForAll([i, j], z3.Implies(z3.And(0 <= i, i < j, j <= NB), EF(i) < EF(j)), patterns=[z3.MultiPattern(EF(i), EF(j))]))
    c.ghost['ieee_empty_mean'] = True
    # the bin index of every sample: the same np.digitize term the code computes (np.digitize is a function of its arguments)
    with core.SpecMode():
        D = npshim.digitize(ip, edges)
    DF = D.elem(z3.Int('bt')).decl()        # the function symbol behind the digitize result
    KK, WW, PP = npshim.register_param_where(c, DF, N, 'bins')
    c.ghost['bins'] = (KK, WW, XF, DF, D)
    return (ip, x), dict(bin_edges=edges)


def _bin_spec(avg, b):
    """bin b (0-based): filled with the mean of exactly the samples whose bin index is b+1, missing iff there is none"""
    KK, WW, XF, DF, D = core.C().ghost['bins']
    k = b + 1
    cnt = KK(k)
    tot = SUMR(npshim.reify1(lambda t: z3.If(DF(t) == k, XF(t), z3.RealVal(0)), 'f'), N)      # sum over exactly the samples of the bin
    isn = avg.nan(b) if avg.nan is not None else z3.BoolVal(False)
    return z3.And(isn == (cnt == 0), z3.Implies(cnt > 0, avg.elem(b) * z3.ToReal(cnt) == tot))


def _loops_bin():
    bq = z3.Int('lb')
    return {0: {'inv': [('shape', lambda e: and_(SBool(e.avg.shape_e[0] == NB), SBool(e.var.shape_e[0] == NB), SBool(z3.BoolVal(e.avg.ndim == 1)))),
                        ('ii', lambda e: and_(1 <= e.ii, e.ii <= NB + 1)),
                        ('bins-so-far-hold-their-mean', lambda e: SBool(z3.ForAll([bq], z3.Implies(z3.And(0 <= bq, bq < lift(e.ii) - 1), _bin_spec(e.avg, bq)))))]}}


def _post_bin(c, a, kw, r):
    avg, var, centres = r
    b = z3.Int('pb')
    c.oblige('post:one-entry-per-bin', z3.And(z3.BoolVal(avg.ndim == 1), avg.shape_e[0] == NB) if avg.ndim == 1 else z3.BoolVal(False), 'post')
    if avg.ndim == 1:
        c.oblige('post:every-bin-with-samples-holds-their-mean-and-empty-bins-are-missing', z3.Implies(z3.And(0 <= b, b < NB), _bin_spec(avg, b)), 'post')
    # what a bin index means (np.digitize contract restated, so that the clause above reads as the property does)
    KK, WW, XF, DF, D = c.ghost['bins']
    ip, x = a
    edges = kw['bin_edges']
    t = z3.Int('pt')
    c.oblige('post:bin-index-k-means-edge[k-1]<=phase<edge[k]', z3.Implies(z3.And(0 <= t, t < N, 1 <= DF(t), DF(t) <= NB),
                                                                        z3.And(edges.elem(DF(t) - 1) <= ip.elem(t), ip.elem(t) < edges.elem(DF(t)))), 'post')
    c.oblige('post:sample-inside-the-edges-has-a-bin', z3.Implies(z3.And(0 <= t, t < N, edges.elem(z3.IntVal(0)) <= ip.elem(t), ip.elem(t) < edges.elem(NB)),
                                                                   z3.And(1 <= DF(t), DF(t) <= NB)), 'post')


def bin_unit():
    import emd.cycles as EC
    u = Unit('bin_by_phase[vector,unweighted]', 'emd/cycles.py', 'bin_by_phase', _mk_bin, _post_bin, loops=_loops_bin(), module=EC,
             inline=[('emd/support.py', 'ensure_vector', {}), ('emd/support.py', 'ensure_equal_dims', {})])
    u.drop_names = ('division-by-nonzero',)
    return u


# ----------------------------------------------------------------------------- phase_align (mode 'cycle', cycles given as an iterator)
#
# For every cycle k the interpolant is built from EXACTLY the samples carrying label k (phase and value at the same samples, in
# temporal order), with the requested kind and with extrapolation beyond the cycle's first / last sample, and column k of the result
# is that interpolant evaluated on the phase grid.  scipy's interp1d is a contract stub; the lemma below gives exactness for
# quantities linear in phase under the assumed contract of linear interpolation.
NPTS = z3.Int('npoints')
NCYC = z3.Int('ncycles')
INTERP = z3.Function('INTERPOLANT', I, R, R)      # value of the interpolant of cycle k at phase q


class _GhostCycles:
    """contract of IterateCycles in 'cycle' mode over a label vector: yields (k, samples of cycle k) for k = 0..ncycles-1"""

    def __init__(self, KK, WW):
        self.KK, self.WW = KK, WW
        self.mode = 'cycle'
        self.niters = SInt(NCYC)
        self.nsamples = SInt(N)

    def __sym_iter__(self):
        from pyvc import cut
        r = cut.SRange(NCYC)
        me = self

        class Items:
            def __getitem__(self, idx):
                k = lift(idx)
                inds = SArr((me.KK(k),), lambda j: me.WW(k, j), 'i', incr=True)
                inds.nonneg = True
                inds.cycle = k
                return (wrap(k), inds)
        r.items = Items()
        return r


def _mk_pa(c, default_cycles=False):
    ip, IPF = vec('ip', N, 'f')
    x, XF = vec('x', N, 'f')
    cvf = z3.Function('cv', I, I)
    c.assume(z3.And(N >= 2, NPTS >= 1, NCYC >= 0))
    KK, WW, PP = npshim.register_param_where(c, cvf, N, 'cv')
    k_ = z3.Int('ck')
    c.assume(z3.ForAll([k_], z3.Implies(z3.And(0 <= k_, k_ < NCYC), KK(k_) >= 1), patterns=[KK(k_)]))     # every cycle has at least one sample
    c.ghost['pa'] = (IPF, XF, KK, WW)
    c.ghost['kinds'] = []
    c.ghost['ghost_cycles'] = _GhostCycles(KK, WW)
    if default_cycles:           # cycles=None: phase_align detects the cycles itself
        return (ip, x), dict(npoints=SInt(NPTS), interp_kind='linear')
    return (ip, x), dict(cycles=c.ghost['ghost_cycles'], npoints=SInt(NPTS), interp_kind='linear')


def _call_pa(f, c, a, kw):
    g = f.__globals__
    IPF, XF, KK, WW = c.ghost['pa']

    class Interp:
        @staticmethod
        def interp1d(pd, xd, kind='linear', bounds_error=None, fill_value=np.nan, **kw2):
            c2 = core.C()
            import sys
            fr = sys._getframe(1)
            while fr is not None and 'cind' not in fr.f_locals:
                fr = fr.f_back
            if fr is None:
                raise core.Unsupported('interp1d called outside the per-cycle loop')
            k = fr.f_locals['cind']          # the cycle being processed (ghost read of the loop variable)
            j = c2.fresh('ij', I)
            c2.ghost['kinds'].append((kind, bounds_error, fill_value))
            c2.oblige('phase_align->interp1d:requested-kind-and-extrapolation', z3.BoolVal(kind == 'linear' and bounds_error is False and fill_value == 'extrapolate' and not kw2), 'post')
            n = KK(lift(k))
            c2.obl.append(core.Obligation('phase_align->interp1d:exactly-the-samples-of-the-cycle', list(c2.pc) + [z3.And(0 <= j, j < n)],
                                          z3.And(pd.shape_e[0] == n, xd.shape_e[0] == n, pd.elem(j) == IPF(WW(lift(k), j)), xd.elem(j) == XF(WW(lift(k), j))), 'post', list(c2.prefix[:c2.pos])))
            kk = lift(k)

            def ev(q):
                return SArr(q.shape_e, lambda t: INTERP(kk, q.elem(t)), 'f')
            return ev
    g['interp'] = Interp

    def ensure_cycle_inputs(v):
        return v

    class Spectra:
        @staticmethod
        def define_hist_bins(lo, hi, nb, scale='linear'):
            c2 = core.C()
            c2.oblige('phase_align->define_hist_bins:grid-over-[0,2pi)-with-npoints-bins', z3.And(lift(lo) == 0, to_real_(hi) == 2 * PI, lift(nb) == NPTS), 'post')
            E = c2.fresh_fun('edge', I, R)
            Bc = z3.Function('PHASE_GRID', I, R)
            return SArr((NPTS + 1,), lambda t: E(t), 'f'), SArr((NPTS,), lambda t: Bc(t), 'f')
    g['spectra'] = Spectra
    g['_ensure_cycle_inputs'] = ensure_cycle_inputs

    def get_cycle_vector_stub(phase, return_good=True, mask=None, imf=None, phase_step=1.5 * np.pi, phase_edge=np.pi / 12):
        """the cycles phase_align detects on its own are ALL wrap-delimited cycles of the phase it was given (not only the 'good' ones)"""
        c2 = core.C()
        c2.oblige('phase_align->get_cycle_vector:all-cycles-of-the-given-phase', z3.BoolVal(return_good is False and mask is None), 'post')
        if isinstance(phase, SArr) and phase.ndim == 1:
            q_ = c2.fresh('gq', I)
            c2.obl.append(core.Obligation('phase_align->get_cycle_vector:detected-on-the-phase-passed-in', list(c2.pc) + [z3.And(0 <= q_, q_ < N)],
                                          z3.And(phase.shape_e[0] == N, phase.elem(q_) == IPF(q_)), 'post', list(c2.prefix[:c2.pos])))
        return c2.ghost['ghost_cycles']
    g['get_cycle_vector'] = get_cycle_vector_stub
    return f(*a, **kw)


def to_real_(v):
    e = lift(v)
    return z3.ToReal(e) if e.sort() == I else e


def _loops_pa():
    kq, tq = z3.Ints('lk lt')
    Bc = z3.Function('PHASE_GRID', I, R)
    return {0: {'inv': [('shape', lambda e: and_(SBool(e.avg.shape_e[0] == NPTS), SBool(e.avg.shape_e[1] == NCYC))),
                        ('columns-so-far', lambda e: SBool(z3.ForAll([kq, tq], z3.Implies(z3.And(0 <= kq, kq < lift(e.tgt0), 0 <= tq, tq < NPTS),
                                                                                         e.avg.elem(tq, kq) == INTERP(kq, Bc(tq))))))]}}


def _post_pa(c, a, kw, r):
    avg, bins = r
    k, t = z3.Ints('pk pt')
    Bc = z3.Function('PHASE_GRID', I, R)
    c.oblige('post:grid-points-by-cycles', z3.And(avg.shape_e[0] == NPTS, avg.shape_e[1] == NCYC), 'post')
    c.oblige('post:column-k-is-the-interpolant-of-cycle-k-on-the-phase-grid', z3.Implies(z3.And(0 <= k, k < NCYC, 0 <= t, t < NPTS), avg.elem(t, k) == INTERP(k, Bc(t))), 'post')
    c.oblige('post:returned-grid-is-the-grid-used', z3.Implies(z3.And(0 <= t, t < NPTS), bins.elem(t) == Bc(t)), 'post')


def pa_unit(default_cycles=False):
    import emd.cycles as EC
    u = Unit('phase_align[cycle mode%s]' % (', cycles detected by phase_align' if default_cycles else ''), 'emd/cycles.py', 'phase_align',
             (lambda c: _mk_pa(c, True)) if default_cycles else _mk_pa, _post_pa, loops=_loops_pa(), module=EC, wrap_call=_call_pa,
             inline=[('emd/support.py', 'ensure_vector', {}), ('emd/support.py', 'ensure_equal_dims', {})])
    return u


def lemmas(tier):
    """linear interpolation / extrapolation (assumed contract: the value lies on the line through two of the data points) reproduces a
    quantity that is linear in phase: if x_i = a p_i + b for the data points then the interpolant at q is a q + b"""
    a_, b_, q, p1, p2, x1, x2, v = z3.Reals('la lb lq lp1 lp2 lx1 lx2 lv')
    on_line = z3.And(p1 != p2, v == x1 + (x2 - x1) * (q - p1) / (p2 - p1))
    return [('linear-interpolation-is-exact-for-quantities-linear-in-phase', [on_line, x1 == a_ * p1 + b_, x2 == a_ * p2 + b_], v == a_ * q + b_)]


def units(tier):
    import emd._cycles_support as CS
    U = [Unit('get_cycle_stat_from_samples', C16.SUP, 'get_cycle_stat_from_samples', _mk_stat, _post_stat, loops=_loops_stat, module=CS,
              inline=[(C16.SUP, 'map_cycle_to_samples', {})])]
    U += [u for u in C16.units(tier) if u.name == 'project_cycles_to_samples']
    U.append(bin_unit())
    U.append(pa_unit())
    U.append(pa_unit(default_cycles=True))
    return U


def model_witness(unit_name, model):
    return None


# ----------------------------------------------------------------------------- native contract

FUNCS = {'mean': np.mean, 'max': np.max, 'sum': np.sum, 'len': len, 'lambda-range': lambda x: float(np.max(x) - np.min(x)), 'lambda-first-plus-last': lambda x: float(x[0] + 10 * x[-1]),
         'lambda-count': lambda x: float(np.sum(np.asarray(x) > 1))}


def label_vectors(maxlen):
    """all label vectors of length <= maxlen made of contiguous runs 0..K-1 in order with -1 gaps anywhere"""
    for n in range(1, maxlen + 1):
        for cuts in itertools.product((0, 1, 2), repeat=n):     # 0: same as before, 1: start new cycle, 2: unlabelled
            cv = []
            k = -1
            for i, ccut in enumerate(cuts):
                if ccut == 2:
                    cv.append(-1)
                elif ccut == 1 or k == -1 or cv[-1] == -1:
                    k += 1
                    cv.append(k)
                else:
                    cv.append(k)
            if k >= 0:
                yield tuple(cv)


def _frame(*arrays):
    """copies of the caller's arrays, taken before the call under test"""
    return [np.array(a_, copy=True) for a_ in arrays]


def _changed(arrays, copies):
    """the references below are computed from the caller's arrays AFTER the call: an array the call has modified in place would make the
    reference follow the defect.  (The reference is therefore only trusted when the arrays are still what they were.)"""
    return not all(np.array_equal(a_, c_, equal_nan=a_.dtype.kind == 'f') for a_, c_ in zip(arrays, copies))


def replay(w):
    import emd.cycles as EC
    kind = w.get('kind')
    if kind == 'cycle_stat':
        cv = np.array(w['cv'], dtype=int)
        vals = np.array(w['vals'], dtype={'int': int, 'bool': bool}.get(w.get('dtype'), float))      # value vectors of any dtype (counts, masks)
        f = FUNCS[w['func']]
        K = cv.max() + 1
        exp = np.array([float(f(vals[cv == c])) for c in range(K)])
        k0 = _frame(cv, vals)
        try:
            got = EC.get_cycle_stat(cv, vals, func=f)
            gots = EC.get_cycle_stat(cv, vals, func=f, out='samples')
        except Exception as ex:
            return True, 'get_cycle_stat raised %s: %s (cv=%s)' % (type(ex).__name__, ex, cv.tolist())
        if _changed((cv, vals), k0):
            return True, "get_cycle_stat modified the caller's label / value vectors (cv=%s)" % k0[0].tolist()
        if got.shape != exp.shape or not np.allclose(got, exp):
            return True, 'per-cycle %s = %s, direct computation %s (cv=%s vals=%s)' % (w['func'], got.tolist(), exp.tolist(), cv.tolist(), vals.tolist())
        exps = np.array([exp[c] if c >= 0 else np.nan for c in cv])
        if gots.shape != exps.shape or not np.array_equal(np.isnan(gots), np.isnan(exps)) or not np.allclose(gots[~np.isnan(exps)], exps[~np.isnan(exps)]):
            return True, "out='samples' gives %s, expected %s (cv=%s)" % (gots.tolist(), exps.tolist(), cv.tolist())
        return False, 'ok'
    if kind == 'phase_align':
        lens = w['lens']
        npoints = w['npoints']
        a, b = w['a'], w['b']
        ph = np.concatenate([np.linspace(0, 2 * np.pi, L, endpoint=False) + w['offset'] * (2 * np.pi / L) for L in lens])
        x = a * ph + b if w['fn'] == 'linear' else np.sin(ph) if w['fn'] == 'sin' else np.cos(2 * ph)
        k0 = _frame(ph, x)
        try:
            avg, bins = EC.phase_align(ph, x, npoints=npoints, interp_kind=w.get('interp', 'linear'))
        except Exception as ex:
            return True, 'phase_align raised %s: %s (cycle lengths %s, npoints %d)' % (type(ex).__name__, ex, lens, npoints)
        if _changed((ph, x), k0):
            return True, "phase_align modified the caller's phase / value vectors (cycle lengths %s)" % lens
        if avg.shape != (npoints, len(lens)):
            return True, 'phase_align output shape %s, expected (%d, %d)' % (avg.shape, npoints, len(lens))
        target = a * bins + b if w['fn'] == 'linear' else np.sin(bins) if w['fn'] == 'sin' else np.cos(2 * bins)
        err = np.abs(avg - target[:, None]).max(axis=0)
        if w['fn'] == 'linear':
            tol = 1e-9 * (1 + abs(a) + abs(b))
            if not np.all(err <= tol):
                return True, 'quantity linear in phase is not reproduced on the phase grid: max error per cycle %s (cycle lengths %s, npoints %d)' % (err.tolist(), lens, npoints)
        else:
            # linear interpolation error bound h^2/8 * max|f''| with h the phase step of the cycle (extrapolation at the ends: 2h * max|f'|... use a generous constant)
            curv = 1.0 if w['fn'] == 'sin' else 4.0
            for c, L in enumerate(lens):
                h = 2 * np.pi / L
                if err[c] > curv * h * h * 2 + 1e-9:
                    return True, 'smooth function of phase off by %.3g on the grid for a cycle of %d samples (bound %.3g)' % (err[c], L, curv * h * h * 2)
        return False, 'ok'
    if kind == 'phase_align_nu':
        # cycles given explicitly, each with its own (non-uniform, strictly increasing) phase samples in [0, 2pi): steps of any size
        from scipy import interpolate as _si
        phases = [np.array(p_, float) for p_ in w['phases']]
        gap = 2 if w.get('gaps') else 0
        ip_parts, cv_parts = [], []
        for c_, p_ in enumerate(phases):
            if gap:
                ip_parts.append(np.full(gap, 1.0))
                cv_parts.append(np.full(gap, -1))
            ip_parts.append(p_)
            cv_parts.append(np.full(len(p_), c_))
        ip = np.concatenate(ip_parts)
        cv = np.concatenate(cv_parts).astype(int)
        a, b = w['a'], w['b']
        x = a * ip + b if w['fn'] == 'linear' else np.cos(ip)
        kind_ = w.get('interp', 'linear')
        k0 = _frame(ip, x, cv)
        try:
            avg, bins = EC.phase_align(ip, x, cycles=cv, npoints=w['npoints'], interp_kind=kind_)
        except Exception as ex:
            return True, 'phase_align raised %s: %s (explicit cycles with %s samples)' % (type(ex).__name__, ex, [len(p_) for p_ in phases])
        if _changed((ip, x, cv), k0):
            return True, "phase_align modified the caller's phase / value / cycle vectors (explicit cycles with %s samples)" % [len(p_) for p_ in phases]
        if avg.shape != (w['npoints'], len(phases)):
            return True, 'phase_align output shape %s, expected (%d, %d)' % (avg.shape, w['npoints'], len(phases))
        for c_, p_ in enumerate(phases):
            xs = x[cv == c_]
            own = _si.interp1d(p_, xs, kind=kind_, bounds_error=False, fill_value='extrapolate')(bins)
            if not np.allclose(avg[:, c_], own, rtol=1e-9, atol=1e-9):
                return True, 'cycle %d (%d samples, largest phase step %.2f rad): aligned values differ from the %s interpolant of the cycle\'s own (phase, value) samples by %.3g' % (
                    c_, len(p_), float(np.diff(p_).max()), kind_, float(np.abs(avg[:, c_] - own).max()))
            if w['fn'] == 'linear' and kind_ == 'linear' and not np.allclose(avg[:, c_], a * bins + b, rtol=1e-9, atol=1e-9 * (1 + abs(a) + abs(b))):
                return True, 'cycle %d (%d samples, largest phase step %.2f rad): a quantity linear in phase is not reproduced on the phase grid (max error %.3g)' % (
                    c_, len(p_), float(np.diff(p_).max()), float(np.abs(avg[:, c_] - (a * bins + b)).max()))
        return False, 'ok'
    if kind == 'bin_by_phase':
        ip = np.array(w['ip'], float)
        x = np.array(w['x'], float)
        nbins = w['nbins']
        import warnings
        with warnings.catch_warnings():
            warnings.simplefilter('ignore')
            k0 = _frame(ip, x)
            try:
                avg, var, centres = EC.bin_by_phase(ip, x, nbins=nbins)
            except Exception as ex:
                return True, 'bin_by_phase raised %s: %s' % (type(ex).__name__, ex)
            if _changed((ip, x), k0):
                return True, "bin_by_phase modified the caller's phase / value arrays (nbins=%d)" % nbins
        edges = np.linspace(0, 2 * np.pi, nbins + 1)
        if avg.shape[0] != nbins:
            return True, 'bin_by_phase returned %d bins, expected %d' % (avg.shape[0], nbins)
        for bq in range(nbins):
            sel = (ip >= edges[bq]) & (ip < edges[bq + 1])
            if sel.any():
                m = x[sel].mean(axis=0)
                if np.any(np.isnan(avg[bq])) or not np.allclose(avg[bq], m):
                    return True, 'phase bin %d of %d holds %d samples with mean %s but bin_by_phase gives %s' % (bq, nbins, sel.sum(), np.round(m, 6).tolist(), np.asarray(avg[bq]).tolist())
        return False, 'ok'
    return False, 'unknown witness kind'


def refute(tier, seed, emit):
    maxlen = 6 if tier == 'quick' else 8
    emit.scope('every label vector of length <= %d (contiguous cycles 0..K-1, -1 gaps anywhere) x a fixed non-constant value vector x reducers %s x output modes {per cycle, projected to samples}: compared with direct per-label computation; non-trivial = has a gap or >= 2 cycles' % (maxlen, sorted(FUNCS)), exhaustive=True)
    for cv in label_vectors(maxlen):
        vals = [((7 * i + 3) % 5) + 0.25 * i for i in range(len(cv))]
        for fn in FUNCS:
            emit.case((cv, fn), nontrivial=(-1 in cv) or max(cv) >= 1, contract='get_cycle_stat')
            w = {'kind': 'cycle_stat', 'cv': list(cv), 'vals': vals, 'func': fn}
            ok, msg = replay(w)
            if ok:
                emit.violation('stat-is-func-of-exactly-the-labelled-samples', w, msg)
        if emit.full:
            return
    # integer- and boolean-typed value vectors (counts, sample indices, masks): the statistic is still func of the cycle's samples
    ml3 = 5 if tier == 'quick' else 7
    emit.scope('every label vector of length <= %d x integer-typed and boolean-typed value vectors x reducers {mean, max, sum}' % ml3, exhaustive=True)
    for cv in label_vectors(ml3):
        for dt, vals in (('int', [int((7 * i + 3) % 5) for i in range(len(cv))]), ('bool', [bool((i * 5 + 1) % 3) for i in range(len(cv))])):
            for fn in ('mean', 'max', 'sum'):
                emit.case(('dtype', cv, dt, fn), nontrivial=fn == 'mean', contract='get_cycle_stat')
                w = {'kind': 'cycle_stat', 'cv': list(cv), 'vals': vals, 'func': fn, 'dtype': dt}
                ok, msg = replay(w)
                if ok:
                    emit.violation('stat-is-func-of-exactly-the-labelled-samples:%s-values' % dt, w, msg)
        if emit.full:
            return
    # arbitrary (also non-contiguous / interleaved) labellings
    ml2 = 5 if tier == 'quick' else 7
    emit.scope('every label vector of length <= %d over {-1,0,1,2} in which the labels 0..K-1 all occur (non-contiguous and interleaved labellings included) x reducers {len, sum, lambda-first-plus-last}' % ml2, exhaustive=True)
    for n in range(1, ml2 + 1):
        for cv in itertools.product((-1, 0, 1, 2), repeat=n):
            K = max(cv) + 1
            if K == 0 or any(k not in cv for k in range(K)):
                continue
            vals = [((7 * i + 3) % 5) + 0.25 * i for i in range(n)]
            for fn in ('len', 'sum', 'lambda-first-plus-last'):
                emit.case(('any', cv, fn), nontrivial=True, contract='get_cycle_stat')
                w = {'kind': 'cycle_stat', 'cv': list(cv), 'vals': vals, 'func': fn}
                ok, msg = replay(w)
                if ok:
                    emit.violation('stat-is-func-of-exactly-the-labelled-samples:any-labelling', w, msg)
        if emit.full:
            return
    # label numbers that carry NO sample (a cycle struck out by setting its samples to -1 without renumbering the others): the statistic of that
    # label is the function applied to zero samples - 0 for a count or a sum - not a placeholder
    emit.scope('every label vector of length <= %d over {-1,0,1,2,3} in which some label below the largest one is ABSENT x reducers {len, sum, lambda-count}: the absent label gets func(no samples)' % ml2, exhaustive=True)
    for n in range(1, ml2 + 1):
        for cv in itertools.product((-1, 0, 1, 2, 3), repeat=n):
            K = max(cv) + 1
            if K == 0 or all(k in cv for k in range(K)):
                continue
            vals = [((7 * i + 3) % 5) + 0.25 * i for i in range(n)]
            for fn in ('len', 'sum', 'lambda-count'):
                emit.case(('absent', cv, fn), nontrivial=True, contract='get_cycle_stat')
                w = {'kind': 'cycle_stat', 'cv': list(cv), 'vals': vals, 'func': fn}
                ok, msg = replay(w)
                if ok:
                    emit.violation('stat-is-func-of-exactly-the-labelled-samples:label-without-samples', w, msg)
        if emit.full:
            return
    r = rng(seed, 14)
    # phase alignment
    nps = [2, 3, 8, 48, 64] if tier == 'quick' else [2, 3, 4, 5, 8, 13, 24, 48, 64]
    lens_sets = [[8, 9, 400, 37], [20] * 5, [8, 8], [399, 400, 12]] + ([[int(v) for v in r.randint(8, 401, size=6)] for _ in range(6 if tier == 'quick' else 40)])
    emit.scope('phase_align: monotone phase series with cycle lengths 8..400 (%d length sets) x npoints %s x quantities {a*phase+b for 3 (a,b), sin(phase), cos(2 phase)}: linear quantities exact (1e-9), smooth ones within 2 h^2 max|f\'\'|' % (len(lens_sets), nps))
    for lens in lens_sets:
        for npnt in nps:
            for fn, a, b in (('linear', 2.0, 1.0), ('linear', -0.5, 3.0), ('linear', 0.0, 1.0), ('sin', 0, 0), ('cos2', 0, 0)):
                if fn != 'linear' and npnt < 3:
                    pass
                emit.case(('pa', tuple(lens), npnt, fn, a, b), contract='phase_align')
                w = {'kind': 'phase_align', 'lens': lens, 'npoints': npnt, 'fn': fn, 'a': a, 'b': b, 'offset': 0.5}
                ok, msg = replay(w)
                if ok:
                    emit.violation('phase-align-' + ('exact-for-linear' if fn == 'linear' else 'within-interpolation-error') if 'raised' not in msg else 'phase-align-raises', w, msg)
        if emit.full:
            return
    # short / strongly non-sinusoidal cycles: few samples, non-uniform phase steps (also larger than pi), cycles passed explicitly
    n_nu = 40 if tier == 'quick' else 1500
    emit.scope('phase_align on explicitly labelled cycles of 4..12 samples with non-uniform strictly increasing phases in [0, 2pi) (single steps up to > pi), with and without unlabelled gaps, x npoints {3, 12, 48} x {linear, cubic} interpolation x {linear in phase, cos(phase)}: every column equals the interpolant of that cycle\'s own samples; linear quantities exact (%d seeded phase sets)' % n_nu)
    for k in range(n_nu):
        ncy = int(r.randint(1, 4))
        phases = []
        for _ in range(ncy):
            L = int(r.randint(4, 13))
            p_ = np.sort(r.uniform(0.05, 2 * np.pi - 0.05, size=L))
            if k % 2 == 0:      # force one step larger than pi
                cut_ = int(r.randint(1, L))
                p_ = np.r_[np.sort(r.uniform(0.05, 1.3, size=cut_)), np.sort(r.uniform(1.3 + np.pi + 0.2, 2 * np.pi - 0.05, size=L - cut_))]
            if np.diff(p_).min() < 1e-3:
                p_ = p_ + np.arange(L) * 1e-3
                p_ = p_[p_ < 2 * np.pi]
            phases.append([float(v) for v in p_])
        if any(len(p_) < 4 for p_ in phases):
            continue
        for npnt in (3, 12, 48):
            for fn, a, b, ik in (('linear', 2.0, 1.0, 'linear'), ('cos', 0, 0, 'linear'), ('cos', 0, 0, 'cubic')):
                emit.case(('panu', k, npnt, fn, ik), contract='phase_align')
                w = {'kind': 'phase_align_nu', 'phases': phases, 'gaps': bool(k % 3 == 0), 'npoints': npnt, 'fn': fn, 'a': a, 'b': b, 'interp': ik}
                ok, msg = replay(w)
                if ok:
                    emit.violation('phase-align-uses-each-cycles-own-phase-samples' if 'raised' not in msg else 'phase-align-raises', w, msg)
        if emit.full:
            return
    # phase binning
    nbs = [2, 3, 4, 24, 64] if tier == 'quick' else list(range(2, 65))
    emit.scope('bin_by_phase: nbins %s x {uniform phase ramp of 3..5 cycles, phase values exactly on bin edges, sparse phases leaving bins empty} x 1-d and 2-column values: every bin that contains samples holds their mean' % (nbs if len(nbs) < 8 else '2..64'))
    for nb in nbs:
        for variant in ('ramp', 'edges', 'sparse', 'lastbin'):
            if variant == 'ramp':
                ip = (np.arange(240) * 2 * np.pi / 61.0) % (2 * np.pi)
            elif variant == 'edges':
                ip = np.linspace(0, 2 * np.pi, nb + 1)[:-1].repeat(2)
            elif variant == 'sparse':
                ip = np.array([0.1, 0.2, 3.0, 3.1, 6.2])
            else:
                ip = np.array([2 * np.pi - 1e-3, 2 * np.pi - 2e-3, 0.5])
            for two in (False, True):
                x = np.sin(ip) + 0.1 * np.arange(len(ip))
                if two:
                    x = np.c_[x, 2 * x + 1]
                emit.case(('bbp', nb, variant, two), contract='bin_by_phase')
                w = {'kind': 'bin_by_phase', 'ip': ip.tolist(), 'x': x.tolist(), 'nbins': nb}
                ok, msg = replay(w)
                if ok:
                    emit.violation('every-nonempty-phase-bin-filled-with-its-mean' if 'raised' not in msg else 'bin-by-phase-raises', w, msg)
        if emit.full:
            return
