"""Shared helpers for the sidecar contracts."""
import itertools
import os
import z3
import numpy as np
from pyvc import core, npshim, verify
from pyvc.core import I, R, B, SArr, SInt, SReal, SBool, lift, wrap, forall, exists, implies, and_, or_, not_, ite, iff

REPO = os.environ.get('VERIF_REPO', '/repo')
PI = npshim.PI
TWO_PI = 2 * PI


def vec(name, n, kind='f'):
    """fresh symbolic 1-d input array of length n (a z3 Int term) backed by an uninterpreted function"""
    f = z3.Function(name, I, core.SORT[kind])
    return SArr((n,), lambda i: f(i), kind), f


def mat(name, n, m, kind='f'):
    f = z3.Function(name, I, I, core.SORT[kind])
    return SArr((n, m), lambda i, j: f(i, j), kind), f


def model_vec(model, name):
    """1-d float/int list from an extracted model entry"""
    v = model.get(name)
    if not isinstance(v, dict) or v.get('too_large'):
        return None
    return list(v['flat'])


def seqs(alphabet, maxlen, minlen=1):
    for n in range(minlen, maxlen + 1):
        for t in itertools.product(alphabet, repeat=n):
            yield t


def rng(seed, salt=0):
    return np.random.RandomState((int(seed) * 1000003 + salt) % (2 ** 31 - 1))


# ------------------------------------------------------------------------------------------------
# modular call recording: a stub with exactly the signature of the real function (read from the real source on every run)

def sig_stub(path, qualname, handler, module=None):
    """Return a function whose parameter list is that of `qualname` in REPO/path (so CPython binds positional / keyword
    arguments exactly as it would for the real callee) and that calls handler(bound: dict) -> result."""
    import ast
    from pyvc import cut
    fd, _ = cut.get_source_function(os.path.join(REPO, path), qualname)
    names = [a.arg for a in fd.args.posonlyargs + fd.args.args + fd.args.kwonlyargs]
    if fd.args.vararg:
        names.append(fd.args.vararg.arg)
    if fd.args.kwarg:
        names.append(fd.args.kwarg.arg)
    src = 'def %s(%s):\n    return __handler(dict(%s))\n' % (fd.name, ast.unparse(fd.args), ', '.join('%s=%s' % (n, n) for n in names))
    ns = dict(module.__dict__) if module is not None else {}
    ns['__handler'] = handler
    exec(compile(src, '<stub:%s>' % qualname, 'exec'), ns)
    return ns[fd.name]


_RD_CACHE = {}


def real_defaults(path, qualname, module):
    """parameter -> default value of the real function (evaluated in the real module)"""
    key = (path, qualname)
    if key not in _RD_CACHE:
        _RD_CACHE[key] = _real_defaults(path, qualname, module)
    return dict(_RD_CACHE[key])


def _real_defaults(path, qualname, module):
    import ast
    from pyvc import cut
    fd, _ = cut.get_source_function(os.path.join(REPO, path), qualname)
    args = fd.args.posonlyargs + fd.args.args
    out = {}
    defaults = fd.args.defaults
    for a, d in zip(args[len(args) - len(defaults):], defaults):
        out[a.arg] = eval(compile(ast.Expression(d), '<default>', 'eval'), dict(module.__dict__))
    for a, d in zip(fd.args.kwonlyargs, fd.args.kw_defaults):
        if d is not None:
            out[a.arg] = eval(compile(ast.Expression(d), '<default>', 'eval'), dict(module.__dict__))
    return out


class PoolShim:
    """ASSUMED multiprocessing.Pool contract (fork start method): starmap(f, args) == [f(*a) for a in args] in order;
    which worker runs which job is arbitrary (modelled where a contract needs it, see C08)."""

    def __init__(self, processes=None):
        self.processes = processes
        core.C().ghost.setdefault('pools', []).append(self)

    def starmap(self, f, args):
        return [f(*a) for a in args]

    def close(self):
        pass

    def __enter__(self):
        return self

    def __exit__(self, *a):
        return False


class MPShim:
    Pool = PoolShim

    @staticmethod
    def current_process():
        class _P:
            _identity = (1,)
        return _P()
