"""Shared helpers for the sidecar contracts."""
import itertools
import os
import z3
import numpy as np
from pyvc import core, npshim, verify
from pyvc.core import I, R, B, SArr, SInt, SReal, SBool, lift, wrap, forall, exists, implies, and_, or_, not_, ite, iff

REPO = os.environ.get('VERIF_REPO', '/repo')
PI = npshim.PI
TWO_PI = 2 * PI


def vec(name, n, kind='f'):
    """fresh symbolic 1-d input array of length n (a z3 Int term) backed by an uninterpreted function"""
    f = z3.Function(name, I, core.SORT[kind])
    return SArr((n,), lambda i: f(i), kind), f


def mat(name, n, m, kind='f'):
    f = z3.Function(name, I, I, core.SORT[kind])
    return SArr((n, m), lambda i, j: f(i, j), kind), f


def model_vec(model, name):
    """1-d float/int list from an extracted model entry"""
    v = model.get(name)
    if not isinstance(v, dict) or v.get('too_large'):
        return None
    return list(v['flat'])


def seqs(alphabet, maxlen, minlen=1):
    for n in range(minlen, maxlen + 1):
        for t in itertools.product(alphabet, repeat=n):
            yield t


def rng(seed, salt=0):
    return np.random.RandomState((int(seed) * 1000003 + salt) % (2 ** 31 - 1))
