"""Spec vocabulary of the sift family (C01-C04, C07, C08): real vectors are z3 arrays Int -> Real.

  HASU(x,n), HASL(x,n)   the upper / lower envelope of the n-vector x is defined (>= 2 peaks resp. troughs), for the fixed options
  ENVU(x,n), ENVL(x,n)   those envelopes (vectors)                 -- uninterpreted: interp_envelope is modular (contract of C05)
  M(x,n)                 pointwise mean of the two envelopes
  IT(X,n,k)              k-th sifting iterate: IT(0) = X, IT(k+1) = IT(k) - step * M(IT(k))
  STOPSD / STOPRILL      value of the SD / Rilling stopping decision on its arguments (sd_stop / rilling_stop are modular; their
                         own bodies are verified against their formulas in separate units)
"""
import z3
from pyvc import core, npshim
from pyvc.core import I, R, B, SArr, SInt, SReal, SBool, lift, wrap

V = z3.ArraySort(I, R)
HASU = z3.Function('HASU', V, I, B)
HASL = z3.Function('HASL', V, I, B)
ENVU = z3.Function('ENVU', V, I, V)
ENVL = z3.Function('ENVL', V, I, V)
STOPSD = z3.Function('STOPSD', V, V, I, R, B)
STOPRILL = z3.Function('STOPRILL', V, V, I, R, R, R, B)
IT = z3.Function('IT', V, I, I, V)          # IT(X, n, k)
GI = z3.Function('GI', V, I, V)            # component extracted by get_next_imf (function of its input vector)
GF = z3.Function('GF', V, I, B)            # its continue flag
TQ = z3.Int('t_lam0')


def has(x, n):
    return z3.And(HASU(x, n), HASL(x, n))


def mean_env(x, n):
    return z3.Lambda([TQ], (ENVU(x, n)[TQ] + ENVL(x, n)[TQ]) / 2)


def vsub(a, b):
    return z3.Lambda([TQ], a[TQ] - b[TQ])


def vscale(c, a):
    return z3.Lambda([TQ], c * a[TQ])


def vreify(a):
    """column vector (n,1) or vector (n,) -> z3 array in CANONICAL form: zero outside [0, n).
    (Spec vectors are total maps; making them agree outside the index range lets vector equality mean equality of the n samples.)"""
    ar = getattr(a, 'as_array', None)
    if ar is not None:
        return ar
    n = a.shape_e[0]
    # built through npshim.reify1 so that sums / vectors created while the body is evaluated get a different bound-variable name
    if a.ndim == 2:
        return npshim.reify1(lambda t: z3.If(z3.And(0 <= t, t < n), a.elem(t, z3.IntVal(0)), z3.RealVal(0)), 'f')
    return npshim.reify1(lambda t: z3.If(z3.And(0 <= t, t < n), a.elem(t), z3.RealVal(0)), 'f')


def canon_axioms(X, n):
    """convention: every spec vector is zero outside [0, n)"""
    x = z3.Const('cx', V)
    t = z3.Int('ct')
    out = z3.Not(z3.And(0 <= t, t < n))
    ax = [z3.ForAll([t], z3.Implies(out, X[t] == 0), patterns=[X[t]])]
    for F in (ENVU, ENVL, GI):
        ax.append(z3.ForAll([x, t], z3.Implies(out, F(x, n)[t] == 0), patterns=[F(x, n)[t]]))
    return ax


def vec_of(arr, n):
    """SArr (n,) view of a z3 array term"""
    r = SArr((n,), lambda t: arr[t], 'f')
    r.as_array = arr
    return r


def col_of(arr, n):
    r = SArr((n, 1), lambda t, j: arr[t], 'f')
    r.as_array = arr
    return r


def it_axioms(X, n, step):
    k = z3.Int('itk')
    return canon_axioms(X, n) + [IT(X, n, 0) == X,
            z3.ForAll([k], z3.Implies(k >= 0, IT(X, n, k + 1) == vsub(IT(X, n, k), vscale(step, mean_env(IT(X, n, k), n)))), patterns=[IT(X, n, k + 1)]),
            IT(X, n, 1) == vsub(IT(X, n, 0), vscale(step, mean_env(IT(X, n, 0), n)))]


def interp_envelope_stub(X, mode='upper', interp_method='splrep', extrema_opts=None, ret_extrema=False):
    """contract of interp_envelope (C05): None iff the relevant extrema count is <= 1, else the envelope vector of length N"""
    c = core.C()
    x = vreify(X)
    n = X.shape_e[0]
    if mode not in ('upper', 'lower'):
        raise core.Unsupported('envelope mode %r in the sift spec' % (mode,))
    hasf, envf = (HASU, ENVU) if mode == 'upper' else (HASL, ENVL)
    if c.branch(hasf(x, n)):
        return vec_of(envf(x, n), n)
    return None


def fires(rule, h, n, k, params):
    """the stopping rule fires on iterate h at iteration number k (1-based, as in the code)"""
    if rule == 'sd':
        return STOPSD(h, vsub(h, mean_env(h, n)), n, params['sd'])
    if rule == 'rilling':
        return STOPRILL(ENVU(h, n), ENVL(h, n), n, params['sd1'], params['sd2'], params['tol'])
    return k == params['max_iters']


# ---- single-IMF extraction as a function of its input (get_next_imf is pure: C19 / effects), used modularly by the sift variants
RES = z3.Function('RES', V, I, I, V)   # RES(X, n, k) = X - first k components
COMP = z3.Function('COMP', V, I, I, V)


def g_axioms(X, n):
    """C04 contract of get_next_imf without an energy threshold, as far as the sift needs it, and the component / residual recursion"""
    x = z3.Const('gx', V)
    k = z3.Int('gk')
    return canon_axioms(X, n) + [z3.ForAll([x], z3.Implies(z3.Not(GF(x, n)), z3.And(GI(x, n) == x, z3.Not(has(x, n)))), patterns=[GF(x, n)]),
            RES(X, n, 0) == X,
            z3.ForAll([k], z3.Implies(k >= 0, COMP(X, n, k) == GI(RES(X, n, k), n)), patterns=[COMP(X, n, k)]),
            z3.ForAll([k], z3.Implies(k >= 0, RES(X, n, k + 1) == vsub(RES(X, n, k), COMP(X, n, k))), patterns=[RES(X, n, k + 1)]),
            # ground instances (E-matching cannot invert k+1 = 1 once the solver has substituted a concrete layer)
            COMP(X, n, 0) == GI(RES(X, n, 0), n), RES(X, n, 1) == vsub(RES(X, n, 0), COMP(X, n, 0)),
            COMP(X, n, 1) == GI(RES(X, n, 1), n), RES(X, n, 2) == vsub(RES(X, n, 1), COMP(X, n, 1))]


def _same(a, b):
    try:
        return bool(a == b)
    except Exception:
        return a is b


def opts_forwarded(exp, got_imf, envelope_opts, extrema_opts):
    """every option the caller of the sift gave reaches the single-IMF extraction with the same value (extra keys are not judged here)"""
    ok = all(k in got_imf and _same(got_imf[k], v) for k, v in (exp.get('imf_opts') or {}).items())
    for name, got in (('envelope_opts', envelope_opts), ('extrema_opts', extrema_opts)):
        want = exp.get(name) or {}
        got = got or {}
        ok = ok and all(k in got and _same(got[k], v) for k, v in want.items())
    return ok


def get_next_imf_stub(X, env_step_size=1, max_iters=1000, energy_thresh=None, stop_method='sd', sd_thresh=.1, rilling_thresh=(0.05, 0.5, 0.05),
                      envelope_opts=None, extrema_opts=None):
    c = core.C()
    c.oblige('get_next_imf:requires-no-energy-threshold-in-this-unit', z3.BoolVal(energy_thresh is None), 'pre')
    exp = c.ghost.get('caller_opts')
    if exp is not None:
        # the extraction of every layer runs under the option set the caller of the sift passed (every key the caller gave arrives unchanged)
        got = dict(env_step_size=env_step_size, max_iters=max_iters, energy_thresh=energy_thresh, stop_method=stop_method, sd_thresh=sd_thresh, rilling_thresh=rilling_thresh)
        c.oblige('get_next_imf:called-with-the-callers-option-set', z3.BoolVal(opts_forwarded(exp, got, envelope_opts, extrema_opts)), 'pre')
    x = vreify(X)
    n = X.shape_e[0]
    c.ghost['n_gni'] = c.ghost.get('n_gni', 0) + 1
    return col_of(GI(x, n), n), SBool(GF(x, n))
