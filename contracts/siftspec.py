"""Spec vocabulary of the sift family (C01-C04, C07, C08): real vectors are z3 arrays Int -> Real.

  HASU(x,n), HASL(x,n)   the upper / lower envelope of the n-vector x is defined (>= 2 peaks resp. troughs), for the fixed options
  ENVU(x,n), ENVL(x,n)   those envelopes (vectors)                 -- uninterpreted: interp_envelope is modular (contract of C05)
  M(x,n)                 pointwise mean of the two envelopes
  IT(X,n,k)              k-th sifting iterate: IT(0) = X, IT(k+1) = IT(k) - step * M(IT(k))
  STOPSD / STOPRILL      value of the SD / Rilling stopping decision on its arguments (sd_stop / rilling_stop are modular; their
                         own bodies are verified against their formulas in separate units)
"""
import z3
from pyvc import core, npshim
from pyvc.core import I, R, B, SArr, SInt, SReal, SBool, lift, wrap

V = z3.ArraySort(I, R)
HASU = z3.Function('HASU', V, I, B)
HASL = z3.Function('HASL', V, I, B)
ENVU = z3.Function('ENVU', V, I, V)
ENVL = z3.Function('ENVL', V, I, V)
STOPSD = z3.Function('STOPSD', V, V, I, R, B)
STOPRILL = z3.Function('STOPRILL', V, V, I, R, R, R, B)
IT = z3.Function('IT', V, I, I, V)          # IT(X, n, k)
TQ = z3.Int('t_lam0')


def has(x, n):
    return z3.And(HASU(x, n), HASL(x, n))


def mean_env(x, n):
    return z3.Lambda([TQ], (ENVU(x, n)[TQ] + ENVL(x, n)[TQ]) / 2)


def vsub(a, b):
    return z3.Lambda([TQ], a[TQ] - b[TQ])


def vscale(c, a):
    return z3.Lambda([TQ], c * a[TQ])


def vreify(a):
    """column vector (n,1) or vector (n,) -> z3 array"""
    ar = getattr(a, 'as_array', None)
    if ar is not None:
        return ar
    if a.ndim == 2:
        return z3.Lambda([TQ], a.elem(TQ, z3.IntVal(0)))
    return z3.Lambda([TQ], a.elem(TQ))


def vec_of(arr, n):
    """SArr (n,) view of a z3 array term"""
    r = SArr((n,), lambda t: arr[t], 'f')
    r.as_array = arr
    return r


def col_of(arr, n):
    r = SArr((n, 1), lambda t, j: arr[t], 'f')
    r.as_array = arr
    return r


def it_axioms(X, n, step):
    k = z3.Int('itk')
    return [IT(X, n, 0) == X,
            z3.ForAll([k], z3.Implies(k >= 0, IT(X, n, k + 1) == vsub(IT(X, n, k), vscale(step, mean_env(IT(X, n, k), n)))), patterns=[IT(X, n, k + 1)])]


def interp_envelope_stub(X, mode='upper', interp_method='splrep', extrema_opts=None, ret_extrema=False):
    """contract of interp_envelope (C05): None iff the relevant extrema count is <= 1, else the envelope vector of length N"""
    c = core.C()
    x = vreify(X)
    n = X.shape_e[0]
    if mode not in ('upper', 'lower'):
        raise core.Unsupported('envelope mode %r in the sift spec' % (mode,))
    hasf, envf = (HASU, ENVU) if mode == 'upper' else (HASL, ENVL)
    if c.branch(hasf(x, n)):
        return vec_of(envf(x, n), n)
    return None


def fires(rule, h, n, k, params):
    """the stopping rule fires on iterate h at iteration number k (1-based, as in the code)"""
    if rule == 'sd':
        return STOPSD(h, vsub(h, mean_env(h, n)), n, params['sd'])
    if rule == 'rilling':
        return STOPRILL(ENVU(h, n), ENVL(h, n), n, params['sd1'], params['sd2'], params['tol'])
    return k == params['max_iters']
