"""C03 - IMFs are peeled one at a time from the running residual; caps are respected.

Functions under contract (emd/sift.py):
  sift       : (units of C01) column k = G(X - first k columns); with a cap, ncols <= max_imfs.  Since G is a function of its input
               (purity of get_next_imf), the capped run and the uncapped run compute the same recursion: the capped result is a prefix.
  mask_sift  : the same peeling invariant with the masked extraction GM(residual, mask frequency of the layer, mask amplitude of the layer);
               ncols <= max_imfs and <= number of supplied mask frequencies.
  ensemble_sift          : result shape [N x K], 1 <= K <= max_imfs (members by contract of sift: each between 1 and max_imfs columns, every index in bounds).
  complete_ensemble_sift : ncols <= max_imfs (loop invariant on the column count).
  sift_second_layer, mask_sift_second_layer : result shape [N x first-level IMFs x max_imfs].
"""
import numpy as np
import z3
from contracts.common import *
from contracts.siftspec import *
from contracts import C01
from pyvc.verify import Unit

PROPERTY = 'C03'
LEVEL = 'proof'
SIFT = 'emd/sift.py'
FUNCTIONS = ['emd.sift.sift', 'emd.sift.mask_sift', 'emd.sift.ensemble_sift', 'emd.sift.complete_ensemble_sift', 'emd.sift.sift_second_layer', 'emd.sift.mask_sift_second_layer']
ASSUMPTIONS = C01.ASSUMPTIONS[:3] + [
    'get_next_imf_mask is replaced by its contract (C07): a pure function GM of (input vector, mask frequency, mask amplitude)',
    'the prefix statement (cap k returns the first k components of the uncapped run) follows from the proved recursion because the extraction is a function of its input; it is not a separate verification condition',
    'ensemble members / second-level sifts are arbitrary arrays with the column count their own contract gives (modular)',
    '"finite for finite input" is checked by the bounded stand-in only',
]
NOT_COVERED = ['finiteness of the outputs - bounded stand-in only', 'ensemble_sift with max_imfs=None (cap taken from the first member): bounded stand-in']

N = z3.Int('N')
XV = z3.Const('Xv', V)
CAP = z3.Int('max_imfs')
LMF = z3.Int('n_mask_freqs')
GMI = z3.Function('GMI', V, I, R, R, V)
GMF = z3.Function('GMF', V, I, R, R, B)
MRES = z3.Function('MRES', I, V)
MCOMP = z3.Function('MCOMP', I, V)
ZK = z3.Function('ZK', I, R)
AK = z3.Function('AK', I, R)


def _m_axioms():
    k = z3.Int('mk')
    x = z3.Const('mx', V)
    t = z3.Int('mt')
    z_, a_ = z3.Reals('mz ma')
    out = z3.Not(z3.And(0 <= t, t < N))
    return [MRES(0) == XV,
            z3.ForAll([t], z3.Implies(out, XV[t] == 0), patterns=[XV[t]]),
            z3.ForAll([x, z_, a_, t], z3.Implies(out, GMI(x, N, z_, a_)[t] == 0), patterns=[GMI(x, N, z_, a_)[t]]),
            z3.ForAll([k], z3.Implies(k >= 0, MCOMP(k) == GMI(MRES(k), N, ZK(k), AK(k))), patterns=[MCOMP(k)]),
            z3.ForAll([k], z3.Implies(k >= 0, MRES(k + 1) == vsub(MRES(k), MCOMP(k))), patterns=[MRES(k + 1)]),
            MCOMP(0) == GMI(MRES(0), N, ZK(0), AK(0)), MRES(1) == vsub(MRES(0), MCOMP(0))]


def _gnim_stub(X, z, amp, nphases=4, nprocesses=1, imf_opts=None, envelope_opts=None, extrema_opts=None):
    c = core.C()
    x = vreify(X)
    layer = c.ghost['layer_of_call']()
    ze, ae = to_real_(z), to_real_(amp)
    exp = c.ghost.get('caller_opts')
    if exp is not None:
        # every layer's masked extraction runs under the option set (and number of mask phases) the caller of mask_sift passed
        ok = opts_forwarded({'envelope_opts': exp.get('envelope_opts'), 'extrema_opts': exp.get('extrema_opts')}, {}, envelope_opts, extrema_opts)
        want_imf = exp.get('imf_opts') or {}
        ok = ok and all(k_ in (imf_opts or {}) and (imf_opts or {})[k_] == v_ for k_, v_ in want_imf.items())
        ok = ok and core.concrete(nphases) == exp.get('nphases')
        c.oblige('get_next_imf_mask:called-with-the-callers-option-set', z3.BoolVal(bool(ok)), 'pre')
    # ghost definitions: the mask frequency / amplitude used at this layer
    c.assume(z3.And(ZK(layer) == ze, AK(layer) == ae))
    return col_of(GMI(x, N, ze, ae), N), SBool(GMF(x, N, ze, ae))


def to_real_(v):
    e = lift(v)
    return z3.ToReal(e) if e.sort() == I else e


def _mk_mask(c):
    c.assume(z3.And(N >= 3, CAP >= 1, LMF >= 1))
    for ax in _m_axioms() + npshim.sum_axioms():
        c.assume(ax)
    X = vec_of(XV, N)
    mf, MF = vec('mask_freqs', LMF)
    opts = {'imf_opts': {'stop_method': 'rilling', 'env_step_size': 0.5}, 'envelope_opts': {'interp_method': 'pchip'}, 'extrema_opts': {'pad_width': 3, 'parabolic_extrema': True}}
    c.ghost['caller_opts'] = dict({k_: dict(v_) for k_, v_ in opts.items()}, nphases=2)
    return (X,), dict(mask_freqs=mf, mask_amp=1, mask_amp_mode='abs', max_imfs=SInt(CAP), sift_thresh=SReal(z3.Real('sift_thresh')), nphases=2, **opts)


def _decl_imf(e):
    c = core.C()
    k = c.fresh('ncols', I)
    f = c.fresh_fun('imf', I, I, R)
    c.assume(k >= 0)
    return SArr((N, k), lambda i, j: f(i, j), 'f')


def _inv_mask():
    def residual(e):
        def later():
            with core.SpecMode():
                rs = npshim.sum_(e.imf, axis=1)
            return forall(0, N, lambda t: e.proto_imf.elem(lift(t), z3.IntVal(0)) == XV[lift(t)] - rs.elem(lift(t)))
        return and_(implies(e.imf_layer >= 1, later),
                    implies(e.imf_layer == 0, lambda: forall(0, N, lambda t: e.proto_imf.elem(lift(t), z3.IntVal(0)) == XV[lift(t)])))
    return [
        ('layer', lambda e: e.imf_layer >= 0),
        ('first-iteration-continues', lambda e: implies(e.imf_layer == 0, e.continue_sift)),
        ('shape', lambda e: and_(e.proto_imf.shape[0] == N, implies(e.imf_layer >= 1, lambda: and_(e.imf.shape[0] == N, e.imf.shape[1] == e.imf_layer)))),
        ('cap', lambda e: and_(e.max_imfs <= wrap(CAP), e.max_imfs <= wrap(LMF), e.max_imfs >= 1, e.imf_layer <= e.max_imfs,
                               implies(e.continue_sift, lambda: e.imf_layer < e.max_imfs))),
        ('residual', residual),
        ('res-spec', lambda e: SBool(vreify(e.proto_imf) == MRES(lift(e.imf_layer)))),
        ('components', lambda e: forall(0, e.imf_layer, lambda k: forall(0, N, lambda t: e.imf.elem(lift(t), lift(k)) == MCOMP(lift(k))[lift(t)]))),
    ]


def _post_mask(c, a, kw, ret):
    ncols = ret.shape_e[1]
    t, k = z3.Ints('pt pk')
    c.oblige('post:samples-by-components', z3.And(ret.shape_e[0] == N, ncols >= 1), 'post')
    c.oblige('post:cap-respected', z3.And(ncols <= CAP, ncols <= LMF), 'post')
    c.oblige('post:kth-component-is-masked-extraction-from-input-minus-previous-components',
             z3.Implies(z3.And(0 <= k, k < ncols, 0 <= t, t < N), ret.elem(t, k) == MCOMP(k)[t]), 'post')


def units(tier):
    import emd.sift as ES
    U = [u for u in C01.units(tier)]
    inl = [('emd/support.py', 'ensure_1d_with_singleton', {}), ('emd/support.py', 'ensure_2d', {}), (SIFT, '_nsamples_warn', {})]

    # ---- mask_sift peeling
    def call_mask(f, c, a, kw):
        g = f.__globals__
        g['get_next_imf_mask'] = _gnim_stub
        # the layer index at the time of the call (read from the running frame through a ghost hook set by the invariant evaluation)
        import sys

        def layer_now():
            fr = sys._getframe(2)
            while fr is not None and 'imf_layer' not in fr.f_locals:
                fr = fr.f_back
            return lift(fr.f_locals['imf_layer'])
        c.ghost['layer_of_call'] = layer_now
        return f(*a, **kw)
    U.append(Unit('mask_sift[peel,cap]', SIFT, 'mask_sift', _mk_mask, _post_mask, loops={0: {'inv': _inv_mask(), 'decl': {'imf': _decl_imf}}},
                  module=ES, inline=inl, wrap_call=call_mask))

    # ---- ensemble_sift shape
    def mk_ens(c):
        c.assume(z3.And(N >= 3))
        X = vec_of(XV, N)
        return (X,), dict(nensembles=3, nprocesses=2, max_imfs=4)

    def call_ens(f, c, a, kw):
        def swn(X, noise_scaling=None, noise=None, noise_mode='single', sift_thresh=1e-8, max_imfs=None, job_ind=1, imf_opts=None, envelope_opts=None, extrema_opts=None):
            # contract of a member sift (C03 `sift[peel,cap]`): [N x k] with 1 <= k <= max_imfs - each member its own k
            c2 = core.C()
            fimf = c2.fresh_fun('member', I, I, R)
            km = c2.fresh('kmember', I)
            c2.assume(z3.And(1 <= km, km <= lift(max_imfs)))
            return SArr((X.shape_e[0], km), lambda i, j: fimf(i, j), 'f')
        f.__globals__['_sift_with_noise'] = swn
        f.__globals__['mp'] = MPShim
        return f(*a, **kw)
    U.append(Unit('ensemble_sift[shape]', SIFT, 'ensemble_sift', mk_ens,
                  lambda c, a, kw, r: c.oblige('post:samples-by-at-most-max_imfs', z3.And(r.shape_e[0] == N, 1 <= r.shape_e[1], r.shape_e[1] <= 4), 'post'), module=ES, inline=inl, wrap_call=call_ens,
                  loops={0: {'inv': [('shape', lambda e: and_(SBool(e.imfs.shape_e[0] == N), SBool(e.imfs.shape_e[1] == lift(e.nimfs)))),
                                     ('ii', lambda e: and_(0 <= e.ii, e.ii <= e.nimfs))]}}))

    # ---- complete_ensemble_sift cap
    def mk_ce(c):
        c.assume(z3.And(N >= 3, CAP >= 1))
        X = vec_of(XV, N)
        return (X,), dict(nensembles=2, nprocesses=1, max_imfs=SInt(CAP), sift_thresh=SReal(z3.Real('sift_thresh')))

    def call_ce(f, c, a, kw):
        def swn(X, noise_scaling=None, noise=None, noise_mode='single', sift_thresh=1e-8, max_imfs=None, job_ind=1, imf_opts=None, envelope_opts=None, extrema_opts=None):
            fimf = core.C().fresh_fun('member', I, R)
            return SArr((X.shape_e[0], 1), lambda i, j: fimf(i), 'f')

        def sift_stub(X, sift_thresh=1e-8, max_imfs=None, verbose=None, imf_opts=None, envelope_opts=None, extrema_opts=None):
            fimf = core.C().fresh_fun('nimf', I, R)
            return SArr((X.shape_e[0], 1), lambda i, j: fimf(i), 'f')

        def fe(x, **kw2):
            k = core.C().fresh('npk', I)
            core.C().assume(k >= 0)
            fp = core.C().fresh_fun('pk', I, I)
            return SArr((k,), lambda i: fp(i), 'i'), SArr((k,), lambda i: z3.ToReal(fp(i)), 'f')
        g = f.__globals__
        g.update({'_sift_with_noise': swn, 'sift': sift_stub, '_find_extrema': fe, 'mp': MPShim})
        return f(*a, **kw)
    ce_inv = [('columns', lambda e: and_(e.imf.shape[0] == N, e.imf.shape[1] >= 1, e.imf.shape[1] <= wrap(CAP), implies(e.continue_sift, lambda: e.imf.shape[1] < wrap(CAP)))),
              ('noise-shape', lambda e: and_(e.noise.shape[0] == N, e.noise.shape[1] == 2))]

    def decl_ce_imf(e):
        c = core.C()
        k = c.fresh('ncols', I)
        fq = c.fresh_fun('imf', I, I, R)
        return SArr((N, k), lambda i, j: fq(i, j), 'f')

    def post_ce(c, a, kw, r):
        imf, noise = r
        c.oblige('post:cap-respected', z3.And(imf.shape_e[1] >= 1, imf.shape_e[1] <= CAP), 'post')
        c.oblige('post:samples-by-components', imf.shape_e[0] == N, 'post')
    U.append(Unit('complete_ensemble_sift[cap]', SIFT, 'complete_ensemble_sift', mk_ce, post_ce, loops={0: {'inv': ce_inv, 'decl': {'imf': decl_ce_imf}}},
                  module=ES, inline=inl, wrap_call=call_ce))

    # ---- second layers: shape
    T = z3.Int('T')

    def mk_sl(kind, given):
        def mk(c):
            c.assume(z3.And(T >= 4))
            IA, F = mat('IA', T, 3)
            args = {'max_imfs': 2} if given else None
            if kind == 'mask':
                return (IA, npshim.array([0.25, 0.125, 0.06, 0.03])), dict(sift_args=args)
            return (IA,), dict(sift_args=args)
        return mk

    def call_sl(f, c, a, kw):
        def sub(X, **k2):
            fq = core.C().fresh_fun('imf2', I, I, R)
            nc = k2.get('max_imfs')
            kk = core.C().fresh('k2', I)
            core.C().assume(z3.And(kk >= 1, kk <= lift(nc)))
            return SArr((X.shape_e[0], kk), lambda i, j: fq(i, j), 'f')
        f.__globals__['mask_sift'] = sub
        f.__globals__['sift'] = sub
        if f.__name__ == 'sift_second_layer':
            kw = dict(kw, sift_func=sub)
        return f(*a, **kw)
    for kind, q in (('plain', 'sift_second_layer'), ('mask', 'mask_sift_second_layer')):
        for given in (True, False):
            exp = 2 if given else 3
            U.append(Unit('%s[max_imfs %s]' % (q, 'given' if given else 'default'), SIFT, q, mk_sl(kind, given),
                          lambda c, a, kw, r, exp=exp: c.oblige('post:samples-by-first-level-by-max_imfs', z3.And(r.shape_e[0] == T, r.shape_e[1] == 3, r.shape_e[2] == exp), 'post'),
                          module=ES, inline=inl, wrap_call=call_sl))
    # the shape normalisation every sift variant starts with (a vector with any number of trailing singleton dimensions becomes [N x 1],
    # anything else is rejected): the units of C19, re-run here because "a [samples x components] result for every documented input layout"
    # rests on them
    from contracts import C19
    U += [u for u in C19.validator_units(tier) if u.name.startswith('ensure_1d_with_singleton[')]
    # the masked extraction of layer k is called with the documented mask frequency and the documented amplitude of that layer (absolute /
    # ratio of the input / ratio of the previous IMF): the C07 units of mask_sift, re-run here because "component k is the masked extraction of
    # the running residual" says nothing until the mask it is extracted with is pinned down
    from contracts import C07
    U += [u for u in C07.units(tier) if u.name.startswith('mask_sift[')]
    return U


def model_witness(unit_name, model):
    return None


# ----------------------------------------------------------------------------- native contract

def _x(n=200, k=0):
    t = np.linspace(0, 1, n)
    return [np.sin(2 * np.pi * 23 * t) + 0.7 * np.sin(2 * np.pi * 7 * t + 0.5) + 0.5 * np.sin(2 * np.pi * 2 * t) + t,
            np.cumsum(np.random.RandomState(k + 3).randn(n)),
            (1 + 0.5 * np.sin(2 * np.pi * 2 * t)) * np.sin(2 * np.pi * (15 * t + 6 * t * t)) + 0.3 * np.sin(2 * np.pi * 3 * t)][k % 3]


def replay(w):
    import emd
    import warnings
    S = emd.sift
    kind = w.get('kind')
    with warnings.catch_warnings():
        warnings.simplefilter('ignore')
        x = np.array(w['x'], float) if 'x' in w else _x(k=w.get('sig', 0))
        if kind == 'dtype':
            # the same samples stored as integers (raw ADC counts) or single precision: same decomposition as their float64 copy,
            # and every component is still get_next_imf of the input minus the components before it
            xt = np.round(x * 1000).astype(w['dtype']) if w['dtype'].startswith('int') else x.astype(w['dtype'])
            x64 = xt.astype(np.float64)
            fn = {'sift': S.sift, 'mask_sift': lambda v, max_imfs=None: S.mask_sift(v, mask_freqs=0.1, **({} if max_imfs is None else {'max_imfs': max_imfs}))}[w.get('variant', 'sift')]
            try:
                a = fn(xt.copy(), max_imfs=w.get('cap'))
                b = fn(x64.copy(), max_imfs=w.get('cap'))
            except emd.support.EMDSiftCovergeError:
                return False, 'convergence error (C04)'
            except Exception as ex:
                return True, '%s on %s input raised %s: %s' % (w.get('variant', 'sift'), w['dtype'], type(ex).__name__, ex)
            tol = 1e-9 if w['dtype'].startswith('int') else 1e-4        # (single-precision input: statistics such as the mask amplitude are computed in float32)
            if a.shape != b.shape or not np.allclose(a, b, rtol=tol, atol=tol * max(1.0, np.abs(x64).max())):
                return True, '%s on %s input gives %s components, its float64 copy gives %s (max diff %s)' % (
                    w.get('variant', 'sift'), w['dtype'], a.shape, b.shape, np.abs(a - b).max() if a.shape == b.shape else 'n/a')
            if w.get('variant', 'sift') == 'sift':
                for k in range(a.shape[1]):
                    resid = x64[:, None] - a[:, :k].sum(axis=1)[:, None] if k else x64[:, None].copy()
                    comp, _ = S.get_next_imf(resid)
                    if not np.allclose(comp[:, 0], a[:, k], rtol=1e-9, atol=1e-9 * max(1.0, np.abs(x64).max())):
                        return True, 'component %d of sift(%s input) is not get_next_imf applied to the input minus the first %d components (max diff %.3g)' % (k, w['dtype'], k, np.abs(comp[:, 0] - a[:, k]).max())
            return False, 'ok'
        if kind == 'prefix':
            f = {'sift': lambda **k: S.sift(x, **k), 'mask_sift': lambda **k: S.mask_sift(x, **k)}[w['variant']]
            try:
                full = f() if w['variant'] == 'sift' else f(max_imfs=9)       # the UNCAPPED run (mask_sift: its default cap of 9 mask frequencies)
                cap = w['cap']
                part = f(max_imfs=cap)
            except emd.support.EMDSiftCovergeError:
                return False, 'convergence error (C04)'
            except Exception as ex:
                return True, '%s(max_imfs=%s) raised %s: %s' % (w['variant'], w['cap'], type(ex).__name__, ex)
            if part.ndim != 2 or part.shape[0] != len(x):
                return True, '%s(max_imfs=%d) returned shape %s' % (w['variant'], cap, part.shape)
            if part.shape[1] > cap:
                return True, '%s(max_imfs=%d) returned %d components' % (w['variant'], cap, part.shape[1])
            if not np.all(np.isfinite(part)):
                return True, '%s(max_imfs=%d) returned non-finite values' % (w['variant'], cap)
            k = min(cap, full.shape[1])
            if part.shape[1] != k or not np.array_equal(part, full[:, :k]):
                return True, '%s(max_imfs=%d) is not the first %d components of the uncapped run (shape %s vs %s, max diff %.3g)' % (
                    w['variant'], cap, k, part.shape, full.shape, np.abs(part[:, :min(part.shape[1], k)] - full[:, :min(part.shape[1], k)]).max())
            return False, 'ok'
        if kind == 'peel':
            imf = S.sift(x, max_imfs=w.get('cap'))
            for k in range(imf.shape[1]):
                resid = x[:, None] - imf[:, :k].sum(axis=1)[:, None] if k else x[:, None].copy()
                comp, _ = S.get_next_imf(resid)
                if not np.allclose(comp[:, 0], imf[:, k], rtol=1e-12, atol=1e-12):
                    return True, 'component %d of sift is not get_next_imf applied to the input minus the first %d components (max diff %.3g)' % (k, k, np.abs(comp[:, 0] - imf[:, k]).max())
            return False, 'ok'
        if kind == 'shape':
            # the documented vector layouts (any number of trailing singleton dimensions): same components as for the plain vector
            shp = (len(x),) + (1,) * w['extra_dims']
            f = {'sift': S.sift, 'mask_sift': lambda v, **k_: S.mask_sift(v, mask_freqs=[0.3, 0.15, 0.08, 0.04, 0.02], **k_)}[w['variant']]
            capkw = {} if w.get('cap') is None else {'max_imfs': w['cap']}
            try:
                ref = f(x.copy(), **capkw)
            except emd.support.EMDSiftCovergeError:
                return False, 'convergence error (C04)'
            try:
                got = f(x.reshape(shp).copy(), **capkw)
            except Exception as ex:
                return True, '%s on the vector stored with shape %s (max_imfs=%s) raised %s: %s' % (w['variant'], shp, w.get('cap'), type(ex).__name__, str(ex)[:120])
            if got.shape != ref.shape or not np.array_equal(got, ref):
                return True, '%s on the vector stored with shape %s returns shape %s, for the plain vector %s (max diff %s)' % (
                    w['variant'], shp, got.shape, ref.shape, np.abs(got - ref).max() if got.shape == ref.shape else 'n/a')
            return False, 'ok'
        if kind == 'peel_opts':
            # manual peeling under a NON-DEFAULT option set: component k = (masked) single-IMF extraction, with the same options, of the
            # input minus the components before it
            o = w['opts']
            kw = {'imf_opts': dict(o.get('imf_opts', {})), 'envelope_opts': dict(o.get('envelope_opts', {})), 'extrema_opts': dict(o.get('extrema_opts', {}))}
            try:
                if w['variant'] == 'sift':
                    imf = S.sift(x, max_imfs=w.get('cap'), **kw)
                else:
                    mfs = [0.25, 0.12, 0.06, 0.03, 0.015][:w.get('cap') or 5]
                    am = w.get('amp_mode', 'abs')
                    imf = S.mask_sift(x, mask_freqs=mfs, mask_amp=0.5, mask_amp_mode=am, nphases=w.get('nphases', 4), max_imfs=w.get('cap') or 5, **kw)
                for k in range(imf.shape[1]):
                    resid = x[:, None] - imf[:, :k].sum(axis=1)[:, None] if k else x[:, None].copy()
                    if w['variant'] == 'sift':
                        comp, _ = S.get_next_imf(resid, **kw['imf_opts'], envelope_opts=kw['envelope_opts'], extrema_opts=kw['extrema_opts'])
                    else:
                        # documented mask amplitude of layer k: absolute; a ratio of the standard deviation of the INPUT (every layer); or a
                        # ratio of the standard deviation of the input for the first layer and of the previous IMF for the later ones
                        amp_k = 0.5 if am == 'abs' else 0.5 * np.std(x) if (am == 'ratio_sig' or k == 0) else 0.5 * np.std(imf[:, k - 1])
                        comp, _ = S.get_next_imf_mask(resid, mfs[k], amp_k, nphases=w.get('nphases', 4), **kw)
                    if not np.allclose(comp[:, 0], imf[:, k], rtol=1e-10, atol=1e-10):
                        return True, 'component %d of %s(%s%s) is not the %ssingle-IMF extraction, under the same options, of the input minus the first %d components (max diff %.3g)' % (
                            k, w['variant'], o, ', mask_amp_mode=%s' % w['amp_mode'] if w.get('amp_mode') else '', 'masked ' if w['variant'] != 'sift' else '', k, np.abs(comp[:, 0] - imf[:, k]).max())
            except emd.support.EMDSiftCovergeError:
                return False, 'convergence error (C04)'
            except Exception as ex:
                return True, '%s with options %s raised %s: %s' % (w['variant'], o, type(ex).__name__, str(ex)[:150])
            return False, 'ok'
        if kind == 'cap':
            v = w['variant']
            cap = w['cap']
            try:
                if v == 'ensemble_sift':
                    out = S.ensemble_sift(x, nensembles=3, max_imfs=cap, ensemble_noise=0.1)
                elif v == 'complete_ensemble_sift':
                    out = S.complete_ensemble_sift(x, nensembles=3, max_imfs=cap)[0]
                elif v == 'mask_sift[explicit list]':
                    out = S.mask_sift(x, mask_freqs=[0.3, 0.15, 0.08, 0.04, 0.02, 0.01], max_imfs=cap)
                elif v == 'sift_second_layer':
                    IA = np.abs(S.sift(x, max_imfs=3)) + 0.1
                    out = S.sift_second_layer(IA, sift_args={'max_imfs': cap})
                    if out.shape != (len(x), IA.shape[1], cap):
                        return True, 'sift_second_layer(max_imfs=%d) returned shape %s, expected %s' % (cap, out.shape, (len(x), IA.shape[1], cap))
                    return (not np.all(np.isfinite(out))), 'finite' if np.all(np.isfinite(out)) else 'non-finite values'
                elif v == 'mask_sift_second_layer':
                    IA = np.abs(S.sift(x, max_imfs=3)) + 0.1
                    out = S.mask_sift_second_layer(IA, np.array([0.2, 0.1, 0.05, 0.02, 0.01]), sift_args={'max_imfs': cap})
                    if out.shape != (len(x), IA.shape[1], cap):
                        return True, 'mask_sift_second_layer(max_imfs=%d) returned shape %s, expected %s' % (cap, out.shape, (len(x), IA.shape[1], cap))
                    return (not np.all(np.isfinite(out))), 'finite' if np.all(np.isfinite(out)) else 'non-finite values'
            except emd.support.EMDSiftCovergeError:
                return False, 'convergence error (C04)'
            except Exception as ex:
                return True, '%s(max_imfs=%d) raised %s: %s' % (v, cap, type(ex).__name__, str(ex)[:150])
            if out.ndim != 2 or out.shape[0] != len(x):
                return True, '%s(max_imfs=%d) returned shape %s' % (v, cap, out.shape)
            if out.shape[1] > cap:
                return True, '%s(max_imfs=%d) returned %d components' % (v, cap, out.shape[1])
            if not np.all(np.isfinite(out)):
                return True, '%s(max_imfs=%d) returned non-finite values' % (v, cap)
            return False, 'ok'
    return False, 'unknown witness kind'


def refute(tier, seed, emit):
    import emd
    import warnings
    nsig = 3 if tier == 'quick' else 9
    emit.scope('%d signals x caps 1..(number of IMFs of the uncapped run)+2 x {sift, mask_sift}: at most cap components, exactly the first k columns of the uncapped run, finite; sift column k = get_next_imf(input - first k columns)' % nsig, exhaustive=True)
    for si in range(nsig):
        with warnings.catch_warnings():
            warnings.simplefilter('ignore')
            nfull = emd.sift.sift(_x(k=si)).shape[1]
        for variant in ('sift', 'mask_sift'):
            top = (nfull + 2) if variant == 'sift' else 8
            for cap in range(1, top + 1):
                emit.case((si, variant, cap), contract=variant)
                w = {'kind': 'prefix', 'variant': variant, 'cap': cap, 'sig': si}
                ok, msg = replay(w)
                if ok:
                    emit.violation('cap-respected:%s' % variant if 'components' in msg and 'first' not in msg else 'capped-run-is-prefix:%s' % variant, w, msg)
        emit.case((si, 'peel'), contract='sift')
        w = {'kind': 'peel', 'sig': si, 'cap': 4}
        ok, msg = replay(w)
        if ok:
            emit.violation('kth-component-is-extraction-from-residual', w, msg)
        if emit.full:
            return
    emit.scope('%d signals stored as int64 / int32 (rounded to counts) / float32 x {sift, mask_sift} x caps {None, 3}: same components as the float64 copy of the same samples; sift column k = get_next_imf(input - first k columns)' % nsig)
    for si in range(nsig):
        for dt in ('int64', 'int32', 'float32'):
            for variant in ('sift', 'mask_sift'):
                for cap in (None, 3):
                    emit.case(('dtype', si, dt, variant, cap), nontrivial=dt != 'float32', contract=variant)
                    w = {'kind': 'dtype', 'sig': si, 'dtype': dt, 'variant': variant, 'cap': cap}
                    ok, msg = replay(w)
                    if ok:
                        emit.violation('kth-component-is-extraction-from-residual:%s-input' % dt, w, msg)
        if emit.full:
            return
    emit.scope('%d signals stored as [N x 1], [N x 1 x 1], [N x 1 x 1 x 1], [N x 1 x 1 x 1 x 1] x {sift, mask_sift} x caps {None, 1, 2, 4}: the same [samples x components] result as for the plain vector' % min(nsig, 2))
    for si in range(min(nsig, 2)):
        for extra_dims in (1, 2, 3, 4):
            for variant in ('sift', 'mask_sift'):
                for cap in (None, 1, 2, 4):
                    emit.case(('shape', si, extra_dims, variant, cap), nontrivial=extra_dims >= 2, contract=variant)
                    w = {'kind': 'shape', 'sig': si, 'extra_dims': extra_dims, 'variant': variant, 'cap': cap}
                    ok, msg = replay(w)
                    if ok:
                        emit.violation('documented-vector-layouts:%s' % variant, w, msg)
        if emit.full:
            return
    OPTSETS = [{'extrema_opts': {'pad_width': 3, 'parabolic_extrema': True}},
               {'envelope_opts': {'interp_method': 'pchip'}, 'extrema_opts': {'pad_width': 1}},
               {'imf_opts': {'stop_method': 'rilling', 'env_step_size': 0.7}},
               # (locations padded by EVEN reflection never reach beyond the record, and get_padded_extrema keeps padding for ever: an option the
               #  padding rule cannot work with - not used; the magnitudes may be padded with any statistic)
               {'imf_opts': {'stop_method': 'fixed', 'max_iters': 4}, 'envelope_opts': {'interp_method': 'mono_pchip'}, 'extrema_opts': {'pad_width': 4, 'mag_pad_opts': {'mode': 'mean', 'stat_length': 2}}}]
    if tier == 'quick':
        OPTSETS = OPTSETS[:3]
    emit.scope('%d signals x {sift, mask_sift (nphases 1, 4)} x %d non-default option sets (stopping rule, step size, envelope interpolation, extrema padding / parabolic extrema): every component is the (masked) single-IMF extraction UNDER THE SAME OPTIONS of the input minus the components before it' % (min(nsig, 3), len(OPTSETS)))
    for si in range(min(nsig, 3)):
        for oi, o in enumerate(OPTSETS):
            for variant, nph in (('sift', None), ('mask_sift', 4), ('mask_sift', 1)):
                emit.case(('peel_opts', si, oi, variant, nph), contract=variant)
                w = {'kind': 'peel_opts', 'sig': si, 'variant': variant, 'opts': o, 'cap': 3}
                if nph is not None:
                    w['nphases'] = nph
                ok, msg = replay(w)
                if ok:
                    emit.violation('kth-component-is-extraction-from-residual:same-options:%s' % variant, w, msg)
        if emit.full:
            return
    emit.scope('%d signals x mask_sift with mask_amp_mode {abs, ratio_sig, ratio_imf} x nphases {1, 4}: component k is the masked extraction of the input minus the components before it with the DOCUMENTED mask amplitude of layer k (absolute / ratio of the input / ratio of the previous IMF)' % min(nsig, 3))
    for si in range(min(nsig, 3)):
        for am in ('abs', 'ratio_sig', 'ratio_imf'):
            for nph in (4, 1):
                emit.case(('peel_amp', si, am, nph), contract='mask_sift')
                w = {'kind': 'peel_opts', 'sig': si, 'variant': 'mask_sift', 'opts': {}, 'cap': 4, 'nphases': nph, 'amp_mode': am}
                ok, msg = replay(w)
                if ok:
                    emit.violation('kth-component-is-extraction-from-residual:mask-amplitude-mode:%s' % am, w, msg)
        if emit.full:
            return
    caps = [1, 2, 3, 6, 9] if tier == 'quick' else [1, 2, 3, 4, 6, 9, 12]      # (caps above the natural number of IMFs included)
    emit.scope('ensemble_sift, complete_ensemble_sift, sift_second_layer, mask_sift_second_layer x caps %s x %d signals: never more components than the cap, documented shape, finite' % (caps, min(nsig, 3)))
    for si in range(min(nsig, 3)):
        for v in ('ensemble_sift', 'complete_ensemble_sift', 'sift_second_layer', 'mask_sift_second_layer', 'mask_sift[explicit list]'):
            for cap in caps:
                emit.case((si, v, cap), contract=v)
                w = {'kind': 'cap', 'variant': v, 'cap': cap, 'sig': si}
                ok, msg = replay(w)
                if ok:
                    emit.violation('cap-respected:%s' % v if 'components' in msg else 'shape-and-finite:%s' % v, w, msg)
        if emit.full:
            return
