"""C10 - the Hilbert-Huang spectrum bins every sample's energy exactly once.

Functions under contract: emd.spectra.hilberthuang (contract on the (data,row,col) triples handed to scipy.sparse.coo_matrix),
emd.spectra.hilberthuang_1d (two nested loop invariants), emd.spectra.define_hist_bins (linear scale);
emd.support.ensure_2d / ensure_equal_dims rebuilt from source and verified inline.

bin(f) = d-1 where d = np.digitize(f, edges) (assumed contract: edges[d-1] <= f < edges[d]); in range <=> 1 <= d <= len(edges)-1.
hilberthuang   : sample (t,j) is handed to coo_matrix exactly once iff in range, with row = bin, col = t, data = a[t,j]^(2|1);
                 shape (len(edges)-1, T).  Number of IMF columns M is enumerated concretely (1..3 quick, 1..5 thorough), T symbolic.
hilberthuang_1d: specs[b,j] = sum_t [digitize(f'[t,j]) = b+1] * a[t,j]^(2|1)   (f' = f with out-of-range -> NaN)
"""
import itertools
import numpy as np
import z3
from contracts.common import *
from pyvc.verify import Unit

PROPERTY = 'C10'
LEVEL = 'proof'
FUNCTIONS = ['emd.spectra.hilberthuang', 'emd.spectra.hilberthuang_1d', 'emd.spectra.define_hist_bins', 'emd.support.ensure_2d (inlined)', 'emd.support.ensure_equal_dims (inlined)']
ASSUMPTIONS = [
    'assumed numpy contract: x.astype(t, copy=False) is x itself when the dtype already matches (an alias: writes reach the caller), a new array otherwise (cross-checked natively); frame condition on every unit',
    'floats are mathematical reals (NaN as a separate flag); numpy ints unbounded',
    'assumed numpy contracts (cross-checked natively, not proved): digitize (increasing bins), tile, arange, reshape(-1) in C order, c_, any(axis=1), boolean-mask compression = np.where gather, sum(x[mask]) = indicator sum, linspace',
    'assumed scipy contract: coo_matrix((data,(row,col)), shape) sums duplicate coordinates and toarray() is its dense form (the stub records the triples; nothing of scipy.sparse is executed symbolically)',
    'number of IMF columns enumerated concretely (flat index arithmetic stays linear); number of samples and of bins symbolic',
    'bin edges strictly increasing (precondition)',
]
NOT_COVERED = ['agreement of dense / sparse / 1-D marginal totals: derived from the two contracts by the lemmas of lemmas() (inductions over the spec sum, M <= 3); that scipy.sparse sums duplicate triples and that its dense form equals its sparse form stays the assumed scipy contract (bounded stand-in compares both)',
               'log-scale bin construction (np.log / np.exp are uninterpreted): bounded stand-in only']

T = z3.Int('T')
NE = z3.Int('NE')      # number of edges


class CooStub:
    def __init__(self, data, rows, cols, shape):
        self.data, self.rows, self.cols, self.shape = data, rows, cols, shape

    def toarray(self):
        return self


class SparseShim:
    @staticmethod
    def coo_matrix(arg, shape=None):
        data, (rows, cols) = arg
        st = CooStub(data, rows, cols, shape)
        core.C().ghost.setdefault('coo', []).append(st)
        return st


def _mk_hht(M, mode):
    def mk(c):
        f, F = mat('infr', T, M)
        a, A = mat('inam', T, M)
        e, E = vec('edges', NE)
        i, j = z3.Ints('ei ej')
        c.assume(z3.And(T >= 1, NE >= 2))
        c.assume(z3.ForAll([i, j], z3.Implies(z3.And(0 <= i, i < j, j < NE), E(i) < E(j)), patterns=[z3.MultiPattern(E(i), E(j))]))
        c.ghost['in'] = (f, a, e)
        return (f, a, e), dict(mode=mode)
    return mk


def _post_hht(M, mode):
    def post(c, args, kw, ret):
        f, a, e = c.ghost['in']
        calls = c.ghost.get('coo', [])
        c.oblige('post:one-coo_matrix-call', z3.BoolVal(len(calls) == 1), 'post')
        c.oblige('post:no-write-reached-the-callers-arrays', z3.BoolVal(c.ghost.get('frame_writes', 0) == 0), 'post')
        if len(calls) != 1:
            return
        st = calls[0]
        c.oblige('post:shape', z3.And(lift(st.shape[0]) == NE - 1, lift(st.shape[1]) == T), 'post')
        with core.SpecMode():
            D = npshim.digitize(f, e)
        p = z3.Int('p')
        t, j = p / M, p % M
        d = D.elem(t, j)
        inr = z3.And(1 <= d, d <= NE - 1)
        val = a.elem(t, j) * a.elem(t, j) if mode == 'energy' else a.elem(t, j)
        rng = z3.And(0 <= p, p < T * M)
        ok = True
        for nm, arr, exp in (('data', st.data, val), ('row', st.rows, d - 1), ('col', st.cols, t)):
            g = getattr(arr, 'gather_of', None)
            if g is None or getattr(g[1], 'where_of', None) is None:
                c.oblige('post:%s-is-mask-compression' % nm, z3.BoolVal(False), 'post')
                ok = False
                continue
            idx = g[1]
            kept = idx.where_of.elem(p)
            c.oblige('post:%s:in-range-sample-contributes-once' % nm, z3.Implies(z3.And(rng, inr), z3.And(kept, arr.elem(idx.pos(p)) == exp)), 'post')
            c.oblige('post:%s:out-of-range-sample-dropped' % nm, z3.Implies(z3.And(rng, z3.Not(inr)), z3.Not(kept)), 'post')
        if ok:
            c.oblige('post:triples-equally-long', z3.And(st.data.shape_e[0] == st.rows.shape_e[0], st.rows.shape_e[0] == st.cols.shape_e[0]), 'post')
    return post


def _mk_1d(M, mode):
    def mk(c):
        f, F = mat('infr', T, M)
        a, A = mat('inam', T, M)
        e, E = vec('edges', NE)
        i, j = z3.Ints('ei ej')
        c.assume(z3.And(T >= 1, NE >= 2))
        c.assume(z3.ForAll([i, j], z3.Implies(z3.And(0 <= i, i < j, j < NE), E(i) < E(j)), patterns=[z3.MultiPattern(E(i), E(j))]))
        for ax in npshim.sum_axioms():
            c.assume(ax)
        c.ghost['in'] = (f, a, e)
        return (f, a, e), dict(mode=mode)
    return mk


def _spec_1d(e_finds, inam, d, j, mode, Tn):
    """sum_t [finds[t,j] == d] * a[t,j]^p  (d = bin number + 1) with the same spec function the code's sums use"""
    def term(t):
        v = inam.elem(t, j)
        if mode == 'energy':
            v = v * v
        return z3.If(e_finds.elem(t, j) == d, v, z3.RealVal(0))
    return npshim.SUMR(npshim.reify1(term, 'f'), Tn)


def _loops_1d(M, mode):
    def cell(e, d, j):
        return e.specs.elem(lift(d) - 1, lift(j)) == _spec_1d(e.finds, e.inam, lift(d), lift(j), mode, T)
    inner = [('row-prefix', lambda e: forall(0, e.jj, lambda j: cell(e, e.ii, j))),
             ('rows-done', lambda e: forall(1, e.ii, lambda d: forall(0, M, lambda j: cell(e, d, j))))]
    outer = [('rows-done', lambda e: forall(1, e.ii, lambda d: forall(0, M, lambda j: cell(e, d, j))))]
    return {0: {'inv': outer}, 1: {'inv': inner}}


def _post_1d(M, mode):
    def post(c, args, kw, ret):
        f, a, e = c.ghost['in']
        c.oblige('post:shape', z3.And(ret.shape_e[0] == NE - 1, ret.shape_e[1] == M), 'post')
        c.oblige('post:no-write-reached-the-callers-arrays', z3.BoolVal(c.ghost.get('frame_writes', 0) == 0), 'post')
        # the digitised, NaN-masked frequencies the code used: recomputed with the same (deterministic) shim calls
        with core.SpecMode():
            outside = (f < e[0]) + (f > e[-1])
            f2 = f.copy()
            f2[outside] = float('nan')
            D = npshim.digitize(f2, e)
        d, j = z3.Ints('pd pj')
        c.oblige('post:cell-is-sum-over-exactly-the-samples-in-the-bin',
                 z3.Implies(z3.And(1 <= d, d <= NE - 1, 0 <= j, j < M), ret.elem(d - 1, j) == _spec_1d(D, a, d, j, mode, T)), 'post')
        # and the digitised value is the half-open bin of the original frequency for every in-range sample
        t = z3.Int('pt')
        with core.SpecMode():
            D0 = npshim.digitize(f, e)
        c.oblige('post:nan-masking-keeps-in-range-bins', z3.Implies(z3.And(0 <= t, t < T, 0 <= j, j < M, 1 <= D0.elem(t, j), D0.elem(t, j) <= NE - 1),
                                                                    D.elem(t, j) == D0.elem(t, j)), 'post')
        c.oblige('post:out-of-range-in-no-bin', z3.Implies(z3.And(0 <= t, t < T, 0 <= j, j < M, z3.Or(D0.elem(t, j) < 1, D0.elem(t, j) > NE - 1)),
                                                           z3.Or(D.elem(t, j) < 1, D.elem(t, j) > NE - 1)), 'post')
    return post


def _mk_bins(c):
    lo, hi = z3.Reals('data_min data_max')
    nb = z3.Int('nbins')
    c.assume(z3.And(nb >= 1, lo < hi))
    c.ghost['in'] = (lo, hi, nb)
    return (SReal(lo), SReal(hi), SInt(nb)), {}


def _post_bins(c, args, kw, ret):
    lo, hi, nb = c.ghost['in']
    edges, centres = ret
    k = z3.Int('bk')
    c.oblige('post:nedges', edges.shape_e[0] == nb + 1, 'post')
    c.oblige('post:ncentres', centres.shape_e[0] == nb, 'post')
    c.oblige('post:edges-linear', z3.Implies(z3.And(0 <= k, k <= nb), edges.elem(k) == lo + (hi - lo) * z3.ToReal(k) / z3.ToReal(nb)), 'post')
    c.oblige('post:edges-increasing', z3.Implies(z3.And(0 <= k, k < nb), edges.elem(k) < edges.elem(k + 1)), 'post')
    c.oblige('post:first-last', z3.And(edges.elem(z3.IntVal(0)) == lo, edges.elem(nb) == hi), 'post')
    c.oblige('post:centres-midpoints', z3.Implies(z3.And(0 <= k, k < nb), centres.elem(k) == (edges.elem(k) + edges.elem(k + 1)) / 2), 'post')


def units(tier):
    import emd.spectra as ES
    U = []
    inl = [('emd/support.py', 'ensure_2d', {}), ('emd/support.py', 'ensure_equal_dims', {})]
    Ms = (1, 2, 3) if tier == 'quick' else (1, 2, 3, 4, 5)
    for M in Ms:
        for mode in ('energy', 'amplitude'):
            obs = [{'kind': 'scalar', 'name': 'T'}, {'kind': 'scalar', 'name': 'NE'}, {'kind': 'array', 'name': 'edges', 'shape': ['NE']},
                   {'kind': 'array', 'name': 'infr', 'shape': ['T', M]}, {'kind': 'array', 'name': 'inam', 'shape': ['T', M]}]
            u = Unit('hilberthuang[M=%d,%s]' % (M, mode), 'emd/spectra.py', 'hilberthuang', _mk_hht(M, mode), _post_hht(M, mode), module=ES,
                     ns={'sparse': SparseShim}, inline=inl, observables=obs)
            u.bound_scalars = [('T', 0), ('NE', 1)]
            u.meta = {'M': M, 'mode': mode}
            u.frame = True          # no write may reach the caller's frequency / amplitude / edge arrays (a later call sees them)
            U.append(u)
            if M <= 2:
                u = Unit('hilberthuang_1d[M=%d,%s]' % (M, mode), 'emd/spectra.py', 'hilberthuang_1d', _mk_1d(M, mode), _post_1d(M, mode), module=ES,
                         loops=_loops_1d(M, mode), observables=obs)
                u.meta = {'M': M, 'mode': mode}
                u.frame = True
                U.append(u)
    U.append(Unit('define_hist_bins[linear]', 'emd/spectra.py', 'define_hist_bins', _mk_bins, _post_bins, module=ES))
    return U


# ----------------------------------------------------------------------------- "consequently": the totals agree (lemmas over the contracts)

def lemmas(tier):
    """The last sentence of the property - dense / sparse / 1-D marginal agree with one another and with the in-range total - as a consequence
    of the two contracts above (and of the assumed scipy contract dense = sparse = sum of the duplicate triples), by inductions over the
    recursive definition of the spec sum (sumR(a, 0) = 0, sumR(a, k+1) = sumR(a, k) + a[k]):

      D(t, j) = digitised bin number of sample (t, j), V(t, j) = its amplitude (squared in energy mode); M IMF columns (enumerated);
      dense(b, t) = sum_j [D(t, j) = b + 1] V(t, j)            (hilberthuang contract: every in-range sample exactly once, at (bin, t))
      one(b, j)   = sumR_t [D(t, j) = b + 1] V(t, j)            (hilberthuang_1d contract)

      A  per bin:    sum_j one(b, j)            = sumR_t dense(b, t)                  (finite exchange, induction over t)
      B  per sample: sumR_b<NB [d0 = b + 1] v   = v if 1 <= d0 <= NB else 0          (each sample in exactly one bin or in none)
      A' per column: sumR_b<NB dense(b, t)      = sum_j (V(t, j) if in range else 0)  (B + finite exchange, induction over b)
      C  Fubini:     sumR_b sumR_t F(b, t)      = sumR_t sumR_b F(b, t)               (two nested inductions, F uninterpreted)
      E  congruence: pointwise equal vectors have equal sums                          (used to lift A over b and A' over t)
    Every lemma is (hypotheses, goal) discharged like an obligation; an induction is its base and its step."""
    AX = npshim.sum_axioms()[:2]
    S = npshim.SUMR
    D = z3.Function('lemD', I, I, I)
    V = z3.Function('lemV', I, I, R)
    F = z3.Function('lemF', I, I, R)
    n, m, d, NB, d0 = z3.Ints('lem_n lem_m lem_d lem_NB lem_d0')
    t, b = z3.Ints('lem_t lem_b')
    v = z3.Real('lem_v')
    zero = z3.RealVal(0)
    L = []

    def add(acc):
        r = acc[0]
        for x in acc[1:]:
            r = r + x
        return r

    def induction(name, claim, extra=()):
        L.append((name + ':base', list(AX) + list(extra), claim(z3.IntVal(0))))
        L.append((name + ':step', list(AX) + list(extra) + [n >= 0, claim(n)], claim(n + 1)))

    for M in (1, 2, 3):
        def cell(tt, j, dd):
            return z3.If(D(tt, z3.IntVal(j)) == dd, V(tt, z3.IntVal(j)), zero)

        def dense(bb, tt):
            return add([cell(tt, j, bb + 1) for j in range(M)])
        # A: for the bin with number d (= b + 1): the row sum of the dense spectrum is the sum of the M marginal cells
        row = z3.Lambda([t], dense(d - 1, t))
        cols = [z3.Lambda([t], cell(t, j, d)) for j in range(M)]
        induction('totals[M=%d]:A:row-sum-of-dense-equals-sum-of-marginal-cells' % M, lambda k: S(row, k) == add([S(cj, k) for cj in cols]))
        # A': for the time column t: the column sum of the dense spectrum over the first k bins is the sum over j of the per-sample bin sums
        col = z3.Lambda([b], dense(b, t))
        per = [z3.Lambda([b], cell(t, j, b + 1)) for j in range(M)]
        induction("totals[M=%d]:A':column-sum-of-dense-equals-sum-of-per-sample-bin-sums" % M, lambda k: S(col, k) == add([S(pj, k) for pj in per]))
    # B: one sample with digitised value d0 and value v, over the first k bins
    ind = z3.Lambda([b], z3.If(d0 == b + 1, v, zero))
    induction('totals:B:a-sample-is-counted-in-exactly-its-bin-or-in-none', lambda k: S(ind, k) == z3.If(z3.And(1 <= d0, d0 <= k), v, zero))
    # C: Fubini for a [NB x n] table F
    def rowsum(bb, k):
        return S(z3.Lambda([t], F(bb, t)), k)

    def colsum(tt, k):
        return S(z3.Lambda([b], F(b, tt)), k)

    def G(k, mm):
        return S(z3.Lambda([b], rowsum(b, k)), mm)

    def H(k, mm):
        return S(z3.Lambda([t], colsum(t, mm)), k)
    # C0: all row sums over zero columns are zero, hence their total
    L.append(('totals:C0:total-over-no-columns-is-zero:base', list(AX), G(z3.IntVal(0), z3.IntVal(0)) == 0))
    L.append(('totals:C0:total-over-no-columns-is-zero:step', list(AX) + [m >= 0, G(z3.IntVal(0), m) == 0], G(z3.IntVal(0), m + 1) == 0))
    # C1: one more column adds that column's sum (induction over the bins m, the column index n fixed)
    c1 = lambda mm: G(n + 1, mm) == G(n, mm) + colsum(n, mm)
    L.append(('totals:C1:one-more-column-adds-its-column-sum:base', list(AX) + [n >= 0], c1(z3.IntVal(0))))
    L.append(('totals:C1:one-more-column-adds-its-column-sum:step', list(AX) + [n >= 0, m >= 0, c1(m)], c1(m + 1)))
    # C: induction over the columns, using C0 and C1 at m = NB
    L.append(('totals:C:sum-of-row-sums-equals-sum-of-column-sums:base', list(AX) + [NB >= 0, G(z3.IntVal(0), NB) == 0], G(z3.IntVal(0), NB) == H(z3.IntVal(0), NB)))
    L.append(('totals:C:sum-of-row-sums-equals-sum-of-column-sums:step', list(AX) + [NB >= 0, n >= 0, G(n, NB) == H(n, NB), G(n + 1, NB) == G(n, NB) + colsum(n, NB)],
              G(n + 1, NB) == H(n + 1, NB)))
    # E: congruence - vectors that agree on [0, k) have the same sum
    P = z3.Const('lemP', npshim.AR)
    Q = z3.Const('lemQ', npshim.AR)
    i = z3.Int('lem_i')
    agree = lambda k: z3.ForAll([i], z3.Implies(z3.And(0 <= i, i < k), P[i] == Q[i]), patterns=[P[i]])
    L.append(('totals:E:pointwise-equal-vectors-have-equal-sums:base', list(AX), S(P, z3.IntVal(0)) == S(Q, z3.IntVal(0))))
    L.append(('totals:E:pointwise-equal-vectors-have-equal-sums:step', list(AX) + [n >= 0, z3.Implies(agree(n), S(P, n) == S(Q, n)), agree(n + 1)], S(P, n + 1) == S(Q, n + 1)))
    return L


def model_witness(unit_name, model):
    if not unit_name.startswith('hilberthuang'):
        return None
    M = int(unit_name.split('M=')[1].split(',')[0])
    mode = unit_name.split(',')[1].rstrip(']')
    f, a, e = model.get('infr'), model.get('inam'), model_vec(model, 'edges')
    if not isinstance(f, dict) or f.get('too_large') or e is None or not isinstance(a, dict):
        return None
    Tn = f['shape'][0]
    if Tn < 1 or len(e) < 2:
        return None
    e = sorted(float(x) for x in e)
    if any(e[i] >= e[i + 1] for i in range(len(e) - 1)):
        return None
    return {'kind': 'hht', 'infr': np.array(f['flat'], dtype=float).reshape(Tn, M).tolist(), 'inam': np.array(a['flat'], dtype=float).reshape(Tn, M).tolist(),
            'edges': e, 'mode': mode, 'which': '1d' if '_1d' in unit_name else 'both'}


# ----------------------------------------------------------------------------- native contract

def brute(infr, inam, edges, mode):
    infr, inam, edges = np.asarray(infr, float), np.asarray(inam, float), np.asarray(edges, float)
    Tn, M = infr.shape
    nb = len(edges) - 1
    dense = np.zeros((nb, Tn))
    one = np.zeros((nb, M))
    for t in range(Tn):
        for j in range(M):
            fv = infr[t, j]
            if np.isnan(fv):
                continue
            for b in range(nb):
                if edges[b] <= fv < edges[b + 1]:
                    v = inam[t, j] ** 2 if mode == 'energy' else inam[t, j]
                    dense[b, t] += v
                    one[b, j] += v
    return dense, one


def _layout(x, how):
    """the same values in another memory layout (the spectrum is a function of the values only)"""
    x = np.asarray(x)
    if x.dtype == object or x.dtype.kind not in 'fiub':
        x = np.asarray(x, float)
    if how == 'F':
        return np.asfortranarray(x.copy())
    if how == 'T' and x.ndim == 2:                 # transposed view of a C-ordered (M, T) array, e.g. np.vstack((ia1, ia2)).T
        return np.ascontiguousarray(x.T).T
    if how == 'strided' and x.ndim == 2:           # every other row / column of a larger buffer
        big = np.full((2 * x.shape[0], 2 * x.shape[1]), -7, dtype=x.dtype)
        big[::2, ::2] = x
        return big[::2, ::2]
    return x.copy()


def replay(w):
    import emd.spectra as ES
    if w.get('kind') == 'bins':
        nb, scale = w['nbins'], w['scale']
        ed, ce = ES.define_hist_bins(1.0, 9.0, nb, scale)
        if len(ed) != nb + 1 or len(ce) != nb or not np.all(np.diff(ed) > 0) or abs(ed[0] - 1) > 1e-12 or abs(ed[-1] - 9) > 1e-9 or not np.allclose(ce, (ed[:-1] + ed[1:]) / 2):
            return True, 'define_hist_bins(1, 9, %d, %s) gave edges %s centres %s' % (nb, scale, np.round(ed, 6).tolist(), np.round(ce, 6).tolist())
        return False, 'ok'
    if w.get('kind') != 'hht':
        return False, 'unknown witness kind'
    f, a, e = np.array(w['infr'], float), np.array(w['inam'], float), np.array(w['edges'], float)
    # frequencies / amplitudes stored in another dtype (integer-valued frequencies in Hz, single precision): the spectrum is that of the
    # stored values against the caller's float64 edges
    if w.get('dtype_f'):
        f = f.astype(w['dtype_f'])
    if w.get('dtype_a'):
        a = a.astype(w['dtype_a'])
    dense, one = brute(f.astype(float), a.astype(float), e, w['mode'])
    tol = 1e-12 if not w.get('dtype_a') else 2e-6          # (single-precision amplitudes are squared in single precision)
    lay = w.get('layout', 'C')
    msgs = []
    # a script holds ONE frequency and ONE amplitude array and passes them to every routine (`same_arrays`): an earlier call must not have
    # changed what a later call sees; `pre_edges`: a first marginal spectrum over a NARROWER band is computed before the ones judged
    same = bool(w.get('same_arrays'))
    F0, A0 = _layout(f, lay), _layout(a, lay)
    Fk, Ak = F0.copy(), A0.copy()
    _F = (lambda: F0) if same else (lambda: _layout(f, lay))
    _A = (lambda: A0) if same else (lambda: _layout(a, lay))
    if w.get('pre_edges') is not None:
        try:
            ES.hilberthuang_1d(_F(), _A(), np.array(w['pre_edges'], float), mode=w['mode'])
        except Exception as ex:
            msgs.append('hilberthuang_1d raised %s: %s' % (type(ex).__name__, ex))
    try:
        got_d = ES.hilberthuang(_F(), _A(), e, mode=w['mode'])
        got_s = ES.hilberthuang(_F(), _A(), e, mode=w['mode'], return_sparse=True).toarray()
        if got_d.shape != dense.shape or not np.allclose(got_d, dense, rtol=tol, atol=tol):
            msgs.append('dense spectrum %s differs from per-sample histogram %s' % (np.round(got_d, 6).tolist(), np.round(dense, 6).tolist()))
        if got_s.shape != dense.shape or not np.allclose(got_s, dense, rtol=tol, atol=tol):
            msgs.append('sparse spectrum differs from per-sample histogram')
    except Exception as ex:
        msgs.append('hilberthuang raised %s: %s' % (type(ex).__name__, ex))
    try:
        got_1 = ES.hilberthuang_1d(_F(), _A(), e, mode=w['mode'])
        if got_1.shape != one.shape or not np.allclose(got_1, one, rtol=tol, atol=tol):
            msgs.append('1-D marginal %s differs from per-sample histogram %s' % (np.round(got_1, 6).tolist(), np.round(one, 6).tolist()))
        if same:          # ... and once more, after the 1-D routine has seen the arrays
            got_d2 = ES.hilberthuang(F0, A0, e, mode=w['mode'])
            if got_d2.shape != dense.shape or not np.allclose(got_d2, dense, rtol=tol, atol=tol):
                msgs.append('dense spectrum computed AFTER the 1-D marginal on the same arrays differs from the per-sample histogram')
    except Exception as ex:
        msgs.append('hilberthuang_1d raised %s: %s' % (type(ex).__name__, ex))
    if same and not (np.array_equal(F0, Fk, equal_nan=True) and np.array_equal(A0, Ak, equal_nan=True)):
        msgs.append("the caller's frequency / amplitude arrays were modified (%d entries differ)" % int((~((F0 == Fk) | (np.isnan(F0) & np.isnan(Fk)))).sum() + (~((A0 == Ak) | (np.isnan(A0) & np.isnan(Ak)))).sum()))
    if msgs:
        return True, '; '.join(msgs)[:700] + ' (infr=%s edges=%s mode=%s)' % (f.tolist(), e.tolist(), w['mode'])
    return False, 'dense, sparse and 1-D spectra equal the per-sample histogram'


def refute(tier, seed, emit):
    import emd.spectra as ES
    edges_sets = [np.array([1.0, 2.0]), np.array([1.0, 2.0, 3.0]), np.array([0.5, 1.0, 2.0, 4.0])]
    if tier == 'thorough':
        edges_sets.append(ES.define_hist_bins(1, 16, 4, 'log')[0])
    emit.scope('every frequency array [T<=%d x M<=2] over {below, each edge, each bin midpoint, above, negative, NaN} x bin sets with 1..3(4) bins (linear and log spaced) x {energy, amplitude}: dense, sparse and 1-D vs a per-sample brute-force histogram (2x2 arrays of the 1-bin set also Fortran-ordered and strided); non-trivial = has an out-of-range or edge-valued sample' % (2 if tier == 'quick' else 3), exhaustive=True)
    for e in edges_sets:
        vals = [e[0] - 1.0, -1.0] + list(e) + [(e[k] + e[k + 1]) / 2 for k in range(len(e) - 1)] + [e[-1] + 1.0]
        if tier == 'thorough':
            vals.append(np.nan)
        shapes = [(1, 1), (2, 1), (1, 2)] + ([(2, 2)] if len(e) <= 3 else []) + ([(3, 1)] if tier == 'thorough' else [])
        for (Tn, M) in shapes:
            for combo in itertools.product(vals, repeat=Tn * M):
                f = np.array(combo).reshape(Tn, M)
                a = (1.0 + np.arange(Tn * M).reshape(Tn, M)) * 0.5
                for mode in ('energy', 'amplitude'):
                    nontriv = bool(np.any(np.isin(f, e)) or np.any(f < e[0]) or np.any(f >= e[-1]))
                    emit.case((tuple(e), combo, Tn, M, mode), nontrivial=nontriv, contract='hilberthuang')
                    for lay in (('C', 'F', 'strided') if (Tn, M) == (2, 2) and len(e) == 2 else ('C',)):
                        w = {'kind': 'hht', 'infr': f.tolist(), 'inam': a.tolist(), 'edges': e.tolist(), 'mode': mode, 'layout': lay}
                        ok, msg = replay(w)
                        if ok:
                            cl = 'raises' if 'raised' in msg else ('1d-marginal' if msg.startswith('1-D') else 'each-sample-in-exactly-its-half-open-bin')
                            emit.violation(cl + ('' if lay == 'C' else ':memory-layout'), w, msg)
                if emit.full:
                    return
    # samples exactly on, just below and just above EVERY edge of bin sets whose edges are not exactly representable (tenths, sevenths, ...)
    binsets = [(1, 2, 5), (0, 3, 10), (2, 10, 20), (0, 1, 7), (0, 1, 9), (0, 1, 5), (0, 1, 10), (0.5, 20, 11), (0.1, 0.7, 6), (3, 4, 3)] + ([(0, 1, n) for n in range(11, 30)] if tier == 'thorough' else [])
    emit.scope('%d linear and log bin sets with inexactly representable edges x one sample exactly on / one ulp below / one ulp above every edge x {energy, amplitude}: each sample lands in the half-open bin [edge_k, edge_k+1) that numerically contains it' % (2 * len(binsets)), exhaustive=True)
    for lo, hi, nb in binsets:
        for scale in ('linear', 'log'):
            if scale == 'log' and lo <= 0:
                continue
            e = ES.define_hist_bins(lo, hi, nb, scale)[0]
            f = np.concatenate([e, np.nextafter(e, -np.inf), np.nextafter(e, np.inf)])[:, None]
            a = (1.0 + 0.25 * np.arange(len(f)))[:, None]
            for mode in ('energy', 'amplitude'):
                emit.case(('on-edges', lo, hi, nb, scale, mode), nontrivial=True, contract='hilberthuang')
                w = {'kind': 'hht', 'infr': f.tolist(), 'inam': a.tolist(), 'edges': e.tolist(), 'mode': mode, 'layout': 'C'}
                ok, msg = replay(w)
                if ok:
                    emit.violation('each-sample-in-exactly-its-half-open-bin:on-inexact-edges', w, msg[:400])
        if emit.full:
            return
    # frequencies stored as integers (whole Hz) or in single precision, against fractional / inexactly representable float64 edges
    emit.scope('integer-valued (int64, int32) and single-precision frequency arrays [T 6..40 x M 1..3] x float64 edges that are not representable in that dtype (x.5 edges for the integers, tenths for float32; samples on, just below and just above edges) x {energy, amplitude}; amplitudes float64 and float32')
    rr = rng(seed, 110)
    for q in range(24 if tier == 'quick' else 240):
        Tn, M = int(rr.randint(6, 41)), int(rr.randint(1, 4))
        dtf = ['int64', 'int32', 'float32'][q % 3]
        if dtf.startswith('int'):
            e = np.arange(0, 8) + 0.5 if q % 2 else np.array([0.5, 2.25, 3.75, 6.5])
            f = rr.randint(-1, 9, size=(Tn, M)).astype(float)
        else:
            e = np.linspace(0.1, 0.9, 9)
            f = rr.choice(np.r_[e, e[:-1] + 0.05, [0.0, 1.0]], size=(Tn, M))
            f = np.float32(f).astype(float) if q % 2 else f
        a = rr.rand(Tn, M) + 0.25
        mode = 'energy' if q % 4 < 2 else 'amplitude'
        emit.case(('dtype', q), nontrivial=True, contract='hilberthuang')
        w = {'kind': 'hht', 'infr': f.tolist(), 'inam': a.tolist(), 'edges': e.tolist(), 'mode': mode, 'layout': 'C', 'dtype_f': dtf, 'dtype_a': 'float32' if q % 5 == 0 else None}
        ok, msg = replay(w)
        if ok:
            emit.violation('each-sample-in-exactly-its-half-open-bin:%s-frequencies' % dtf, w, msg[:400])
        if emit.full:
            return
    # call histories on one pair of arrays: marginal over a narrow band first, then everything over a wide band
    emit.scope('call histories on ONE frequency / amplitude array pair (float64, float32, int64): 1-D marginal over a narrow band, then dense, sparse, 1-D and dense again over a wide band that contains samples the narrow one left out; the arrays are unchanged afterwards')
    rh = rng(seed, 210)
    for q in range(12 if tier == 'quick' else 120):
        Tn, M = int(rh.randint(4, 30)), int(rh.randint(1, 4))
        f = rh.randint(-2, 20, size=(Tn, M)).astype(float) + (0.0 if q % 2 else 0.25)
        a = rh.randint(1, 5, size=(Tn, M)).astype(float)
        wide = ES.define_hist_bins(0, 16, 8)[0]
        narrow = ES.define_hist_bins(4, 8, 4)[0]
        mode = 'energy' if q % 2 else 'amplitude'
        emit.case(('history', q), nontrivial=True, contract='hilberthuang')
        w = {'kind': 'hht', 'infr': f.tolist(), 'inam': a.tolist(), 'edges': wide.tolist(), 'mode': mode, 'layout': ['C', 'F', 'strided'][q % 3], 'same_arrays': True, 'pre_edges': narrow.tolist(),
             'dtype_f': [None, None, 'float32', 'int64'][q % 4] if q % 2 else None}
        ok, msg = replay(w)
        if ok:
            emit.violation('each-sample-in-exactly-its-half-open-bin:call-history-on-one-array-pair', w, msg[:400])
        if emit.full:
            return
    # bin construction
    emit.scope('define_hist_bins: linear and log, 1..8 bins: edge count, monotone, end points, midpoints')
    for scale in ('linear', 'log'):
        for nb in range(1, 9):
            emit.case(('bins', scale, nb), contract='define_hist_bins')
            w = {'kind': 'bins', 'nbins': nb, 'scale': scale}
            ok, msg = replay(w)
            if ok:
                emit.violation('bin-construction', w, msg)
    r = rng(seed, 10)
    nr = 30 if tier == 'quick' else 300
    emit.scope('%d seeded random arrays [T 5..200 x M 1..5] with values around and outside linear/log bin sets, in C / Fortran / transposed-view / strided memory layouts; totals cross-checked' % nr)
    for k in range(nr):
        Tn, M = int(r.randint(5, 200)), int(r.randint(1, 6))
        nb = int(r.randint(1, 12))
        e = ES.define_hist_bins(0.5, 20, nb, 'log' if k % 2 else 'linear')[0]
        f = r.uniform(-2, 25, size=(Tn, M))
        f[r.rand(Tn, M) < 0.1] = r.choice(e)
        a = r.rand(Tn, M) + 0.1
        mode = 'energy' if k % 3 else 'amplitude'
        emit.case(('rand', k), contract='hilberthuang')
        lay = ['C', 'F', 'T', 'strided'][k % 4]
        w = {'kind': 'hht', 'infr': f.tolist(), 'inam': a.tolist(), 'edges': e.tolist(), 'mode': mode, 'layout': lay}
        ok, msg = replay(w)
        if ok:
            emit.violation('each-sample-in-exactly-its-half-open-bin' + ('' if lay == 'C' else ':memory-layout'), w, msg[:300])
        if emit.full:
            return
