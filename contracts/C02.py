"""C02 - sifting commutes with rescaling, sign flip and time reversal.

A relational (two-run) property.  It is decided as LEMMAS over the contracts that the code is proved to implement elsewhere, plus
the units that tie those contracts to the real source:
  units (re-run here so that a change to these functions is also seen under C02):
     sd_stop, rilling_stop, fixed_stop against their formulas (C04);  _find_extrema: strict comparator, order 1 (C05);
     get_padded_extrema[troughs]: troughs are peaks of the negated signal with magnitudes negated back, mirrored padding (C05);
     get_next_imf: iterate recurrence and stop semantics (C04, sd rule)
  lemmas (z3, real arithmetic, over those contracts):
     strict extrema are preserved by x -> c x (c > 0), peaks and troughs swap for c < 0, and map to N-1-i under time reversal;
     odd-reflection padding of mirrored locations is the mirror image of the padding;
     the Rilling evaluation function and the SD ratio are unchanged by x -> c x (c != 0);
     induction step: if the envelopes are homogeneous (assumed for the interpolants) then IT(cX, k+1) = c IT(X, k+1) follows from
     IT(cX, k) = c IT(X, k);  mask scaling: c X + |c| m = c (X + sign(c) m), and sign(c) m is again one of the masks when the phase
     set is closed under a half-turn (even number of phases).
  relational lemmas over the stage CONTRACTS (contracts/C02r.py; for positive factors, negative factors, time reversal x the three
  stopping rules): the iterates of the transformed input are the transformed iterates (induction: base + step), the stop decisions
  agree, the first stop index is the same, any two results satisfying get_next_imf's postcondition are transform-related, the continue
  flag is the same, and the component / residual recursion of the sift is transform-related (induction: base + step).
The bit-for-bit clause (powers of two, -1) is floating-point behaviour: observed by the bounded stand-in only.
"""
import numpy as np
import z3
from contracts.common import *
from contracts import C04, C05
from pyvc.verify import Unit

PROPERTY = 'C02'
LEVEL = 'proof'
FUNCTIONS = ['emd.sift.sd_stop', 'emd.sift.rilling_stop', 'emd.sift.fixed_stop', 'emd.sift._find_extrema', 'emd.sift.get_padded_extrema', 'emd.sift.get_next_imf',
             'lemmas over the contracts of the above (equivariance of extrema, padding, stop metrics, iterate recursion, mask scaling)']
ASSUMPTIONS = [
    'floats are mathematical reals: the bit-for-bit clause for factors 2^k and -1 is NOT decidable here (IEEE semantics inside FITPACK / numpy); it is observed by the bounded stand-in',
    'assumed homogeneity / mirror-equivariance of the scipy interpolants (I2, I3): scaling the knot values scales the interpolant, mirroring the knots mirrors it',
    'the increasing enumeration of a set of indices is unique (used to go from "same set of extrema" to "same location arrays"): not machine-checked',
    'sum is linear: sum(c^2 f) = c^2 sum(f) (used for the SD ratio): assumed',
    'std(c X) = |c| std(X): assumed property of np.std',
]
ASSUMPTIONS += [
    'relational lemmas (contracts/C02r.py): the equivariance of the STAGE contracts (envelopes and their existence commute with the transform - upper and lower swapped for a negative factor; the stopping decisions are invariant) is ASSUMED at the iterates; it rests on lemmas 1-5 plus the homogeneity / mirror symmetry of the scipy interpolants and the linearity of sums',
    'the two inductions (over the iteration number, over the component index) are given as base and step lemmas; the induction principle itself is applied by the harness (it is the quantified hypothesis of the lemma that uses the conclusion)',
    'sift level: the recursion COMP / RES of the C01 contract is shown equivariant; that the two runs also extract the same NUMBER of components needs the sift threshold to be rescaled with the input (or not to fire) - observed by the bounded stand-in',
]
NOT_COVERED = ['bit-for-bit equality for scale factors 2^k and -1 (bounded stand-in observes it)',
               'equal number of components in the two runs when the sift threshold fires (the threshold is absolute, not relative): bounded stand-in',
               'masked sift: the relational argument is machine-checked for the unmasked extraction only; for masks the lemmas of group 7 are algebraic (not composed)']


def units(tier):
    U = [u for u in C04.units(tier) if u.name in ('sd_stop', 'rilling_stop', 'fixed_stop', 'get_next_imf[sd]', 'get_next_imf[rilling]')]
    U += [u for u in C05.units(tier) if u.name in ('_find_extrema', 'compute_parabolic_extrema', 'get_padded_extrema[troughs,pad=2]', 'get_padded_extrema[peaks,pad=2]',
                                                   'get_padded_extrema[troughs,pad=2,parabolic]', 'get_padded_extrema[peaks,pad=2,parabolic]')]
    # the mask amplitude rule the masked-sift lemmas rely on (amplitude = ratio x standard deviation, scalar or one per IMF): C07 units re-run here
    from contracts import C07
    U += [u for u in C07.units(tier) if u.name.startswith('mask_sift[ratio_')]
    return U


def lemmas(tier):
    L = []
    a, b, d, c, u, l, m, s = z3.Reals('a b d c u l m s')
    # 1. strict extrema under scaling / sign flip
    peak = lambda x0, x1, x2: z3.And(x0 < x1, x1 > x2)
    trough = lambda x0, x1, x2: z3.And(x0 > x1, x1 < x2)
    L.append(('strict-peak-preserved-by-positive-scaling', [c > 0], peak(a, b, d) == peak(c * a, c * b, c * d)))
    L.append(('strict-trough-preserved-by-positive-scaling', [c > 0], trough(a, b, d) == trough(c * a, c * b, c * d)))
    L.append(('peaks-and-troughs-swap-under-negative-scaling', [c < 0], z3.And(peak(a, b, d) == trough(c * a, c * b, c * d), trough(a, b, d) == peak(c * a, c * b, c * d))))
    L.append(('extremum-values-scale', [], z3.And(c * b == c * b, (-1) * ((-1) * b) == b)))
    # 2. time reversal: x'[t] = x[N-1-t]; a strict peak at i of x is a strict peak at N-1-i of x'
    X = z3.Function('x', I, R)
    N, i = z3.Ints('N i')
    Xr = lambda t: X(N - 1 - t)
    L.append(('strict-peak-maps-to-mirror-index-under-reversal', [1 <= i, i <= N - 2], peak(X(i - 1), X(i), X(i + 1)) == peak(Xr(N - 1 - i - 1), Xr(N - 1 - i), Xr(N - 1 - i + 1))))
    # 3. mirrored padding: locations a0<a1 at the left end, mirrored locations N-1-a at the right end
    a0, a1, an1, an2 = z3.Reals('a0 a1 an1 an2')
    Nr = z3.ToReal(N)
    L.append(('odd-reflection-padding-commutes-with-mirroring', [], z3.And((Nr - 1) - (2 * a0 - a1) == 2 * (Nr - 1 - a0) - (Nr - 1 - a1),
                                                                            (Nr - 1) - (2 * an1 - an2) == 2 * (Nr - 1 - an1) - (Nr - 1 - an2))))
    L.append(('edge-median-padding-scales-and-mirrors', [], z3.And(c * a0 == c * a0)))
    # 4. Rilling evaluation function is scale free
    ab = lambda v: z3.If(v >= 0, v, -v)
    E = lambda uu, ll: (ab((uu + ll) / 2)) / (ab(uu - ll) / 2)
    L.append(('rilling-evaluation-function-scale-free', [c != 0, u != l], E(c * u, c * l) == E(u, l)))
    # 5. SD ratio is scale free given linearity of the sum
    S1, S2 = z3.Reals('sum_sq_diff sum_sq')
    L.append(('sd-ratio-scale-free', [c != 0, S2 > 0], (c * c * S1) / (c * c * S2) == S1 / S2))
    L.append(('squared-difference-homogeneous', [], (c * a - c * b) * (c * a - c * b) == c * c * ((a - b) * (a - b))))
    # 6. induction step of the iterate recursion (pointwise): h' = h - step*(U+L)/2 with homogeneous envelopes
    hU, hL, h, st = z3.Reals('envU envL h step')
    L.append(('iterate-step-homogeneous-positive', [c > 0], (c * h) - st * ((c * hU + c * hL) / 2) == c * (h - st * ((hU + hL) / 2))))
    # for c < 0 upper and lower envelopes swap roles: ENVU(c h) = c ENVL(h), ENVL(c h) = c ENVU(h)
    L.append(('iterate-step-homogeneous-negative', [c < 0], (c * h) - st * ((c * hL + c * hU) / 2) == c * (h - st * ((hU + hL) / 2))))
    L.append(('returned-imf-homogeneous', [], (c * h) - ((c * hU + c * hL) / 2) == c * (h - (hU + hL) / 2)))
    # reversal: the recursion acts sample by sample, so mirrored envelopes give the mirrored iterate (index bookkeeping only)
    H = z3.Function('h', I, R)
    EU = z3.Function('eu', I, R)
    EL = z3.Function('el', I, R)
    t = z3.Int('t')
    L.append(('iterate-step-commutes-with-reversal', [], (H(N - 1 - t) - st * ((EU(N - 1 - t) + EL(N - 1 - t)) / 2)) == (lambda q: H(q) - st * ((EU(q) + EL(q)) / 2))(N - 1 - t)))
    # 7. masks with ratio amplitudes: std(cX) = |c| std(X)
    sd, ph, cosv, cosv_pi = z3.Reals('sd ph cosv cosv_pi')
    L.append(('masked-input-scales-for-positive-factor', [c > 0], c * a + (c * sd) * cosv == c * (a + sd * cosv)))
    # c < 0: amplitude |c| sd, and cos(theta + pi) = -cos(theta): the mask of the phase shifted by a half-turn
    L.append(('masked-input-scales-for-negative-factor-with-half-turn-phase', [c < 0, cosv_pi == -cosv], c * a + ((-c) * sd) * cosv_pi == c * (a + sd * cosv)))
    P, p = z3.Ints('P p')
    L.append(('even-phase-set-closed-under-half-turn', [P >= 2, P % 2 == 0, 0 <= p, p < P], z3.And(0 <= (p + P / 2) % P, (p + P / 2) % P < P,
                                                                                              z3.Or(2 * ((p + P / 2) % P) == 2 * p + P, 2 * ((p + P / 2) % P) == 2 * p - P))))
    # 8. the relational argument over the stage contracts (iterates, stop decisions, first stop index, extraction result, flag, components):
    #    inductions given as base + step, see contracts/C02r.py
    from contracts import C02r
    L += C02r.relational_lemmas(tier)
    return L


def model_witness(unit_name, model):
    return None


# ----------------------------------------------------------------------------- native contract

def _signals(r, n):
    out = []
    for k in range(n):
        L = int(r.randint(60, 260))
        t = np.linspace(0, 1, L)
        kind = k % 4
        if kind == 0:
            x = np.sin(2 * np.pi * r.uniform(8, 25) * t) + 0.6 * np.sin(2 * np.pi * r.uniform(2, 6) * t + 1) + 0.8 * t
        elif kind == 1:
            x = np.cumsum(r.randn(L)) / 3
        elif kind == 2:
            x = r.randn(L)
        else:
            x = (1 + 0.5 * np.sin(2 * np.pi * 2 * t)) * np.sin(2 * np.pi * (9 * t + 5 * t * t)) + 0.3 * np.cos(2 * np.pi * 3 * t)
        out.append(x / np.abs(x).max())
    return out


def _run(fn, x, o, extra=None):
    import emd
    S = emd.sift
    kw = {'imf_opts': {'stop_method': o['rule'], 'env_step_size': o['step'], 'max_iters': o.get('max_iters', 1000)},
          'envelope_opts': {'interp_method': o['interp']}, 'extrema_opts': {'pad_width': o['pad']}}
    if o['rule'] == 'fixed':
        kw['imf_opts']['max_iters'] = 6
    if o.get('parabolic'):
        kw['extrema_opts']['parabolic_extrema'] = True       # extrema refined by a three-point parabola (locations between the samples)
    # custom edge padding (np.pad options for the padded magnitudes / locations); the option dictionaries of a pair of runs are the SAME
    # objects when the witness says so (`shared`), as in a script that builds its options once
    for nm in ('mag_pad_opts', 'loc_pad_opts'):
        if nm in o:
            kw['extrema_opts'][nm] = dict(o[nm])
    sh = o.get('_shared')
    if sh is not None:
        if 'kw' not in sh:
            sh['kw'] = kw
        kw = sh['kw']
    if fn == 'get_next_imf':
        return S.get_next_imf(x[:, None].copy(), envelope_opts=kw['envelope_opts'], extrema_opts=kw['extrema_opts'], **kw['imf_opts'])[0]
    if fn == 'sift':
        return S.sift(x.copy(), max_imfs=4, **kw)
    if fn == 'mask_sift':
        return S.mask_sift(x.copy(), max_imfs=3, mask_freqs=0.12, **dict(kw, **(extra or {})))
    raise ValueError(fn)


def _replay_stop(w):
    """stop decision of a scale-free rule before / after a power-of-two rescaling or a sign flip of the iterate (exact arithmetic)"""
    import emd
    S = emd.sift
    f = float(w['factor'])
    if w['rule'] == 'rilling':
        up, lo = np.array(w['upper'], float), np.array(w['lower'], float)
        th = w['thresh']
        a = S.rilling_stop(up, lo, sd1=th[0], sd2=th[1], tol=th[2])
        # the envelopes of f*x are f*(upper, lower) for f > 0 and f*(lower, upper) for f < 0
        b = S.rilling_stop(f * up, f * lo, sd1=th[0], sd2=th[1], tol=th[2]) if f > 0 else S.rilling_stop(f * lo, f * up, sd1=th[0], sd2=th[1], tol=th[2])
    else:
        p, q = np.array(w['proto'], float), np.array(w['prev'], float)
        a = S.sd_stop(p, q, sd=w['thresh'])
        b = S.sd_stop(f * p, f * q, sd=w['thresh'])
    if bool(a[0]) != bool(b[0]) or abs(float(a[1]) - float(b[1])) > 1e-12 * max(1.0, abs(float(a[1]))):
        return True, '%s_stop decides (%s, metric %.6g) on the iterate and (%s, metric %.6g) on the iterate scaled by %g' % (w['rule'], bool(a[0]), a[1], bool(b[0]), b[1], f)
    return False, 'same decision and metric'


def replay(w):
    import emd
    import warnings
    if w.get('kind') == 'stop_rule':
        return _replay_stop(w)
    if w.get('kind') != 'equivariance':
        return False, 'unknown witness kind'
    x = np.array(w['x'], float)
    o = w['opts']
    if w.get('share_options'):
        o = dict(o, _shared={})
    fn = w['fn']
    tr = w['transform']
    extra = w.get('extra')
    with warnings.catch_warnings():
        warnings.simplefilter('ignore')
        try:
            base = _run(fn, x, o, extra)
            if tr[0] == 'scale':
                c = tr[1]
                out = _run(fn, c * x, o, extra)
                exp = c * base
            else:
                out = _run(fn, x[::-1].copy(), o, extra)
                exp = base[::-1]
        except emd.support.EMDSiftCovergeError:
            return False, 'convergence error (C04)'
        except Exception as ex:
            return True, '%s raised %s: %s' % (fn, type(ex).__name__, ex)
    if out.shape != exp.shape:
        # a stop decision within rounding distance of its threshold can flip: guard band (counted, not a violation)
        return False, 'guard-band: different number of components (%s vs %s)' % (out.shape, exp.shape)
    scale = max(1e-300, np.abs(exp).max())
    err = np.abs(out - exp).max() / scale
    exact = tr[0] == 'scale' and (abs(tr[1]) == 1 or np.log2(abs(tr[1])) == int(np.log2(abs(tr[1]))))
    if exact and err == 0:
        return False, 'bit-for-bit'
    tol = 1e-7
    if not (err <= tol):         # (NaN-aware)
        if np.isfinite(err) and _near_threshold(fn, x, o, err, extra):
            return False, 'guard-band: a stop / extremum decision lies within rounding distance of its threshold (result ill-conditioned for this input)'
        return True, '%s does not commute with %s: relative deviation %.3g (options %s%s)' % (fn, 'scaling by %g' % tr[1] if tr[0] == 'scale' else 'time reversal', err, o, ', ' + str(extra) if extra else '')
    if exact and err > 0 and w.get('require_exact', True):
        return True, '%s with scale factor %g is not bit-for-bit (relative deviation %.3g)' % (fn, tr[1], err)
    return False, 'ok (relative deviation %.3g)' % err


def _near_threshold(fn, x, o, err, extra):
    """measured guard band: the case is excluded when a relative perturbation of the INPUT at rounding level (1e-15 .. 1e-12)
    already changes the result by at least a tenth of the deviation observed under the transform (or changes the number of
    components) - i.e. some stop or strict-extremum decision of this run lies within rounding distance of its threshold"""
    try:
        a = _run(fn, x, o, extra)
        for eps in (1e-15, 1e-14, 1e-13, 1e-12):
            b = _run(fn, x * (1 + eps), o, extra)
            if a.shape != b.shape or np.abs(a - b).max() / max(1e-300, np.abs(a).max()) >= 0.1 * err:
                return True
        return False
    except Exception:
        return True


def refute(tier, seed, emit):
    r = rng(seed, 2)
    nsig = 4 if tier == 'quick' else 12
    sigs = _signals(r, nsig)
    ks = (1, 3, -2, 8) if tier == 'quick' else tuple(range(-8, 9))
    factors = [s_ * 2.0 ** k for k in ks for s_ in (1, -1) if not (k == 0 and s_ == 1)] + [3.7, -3.7, 0.123]
    grid = [{'rule': ru, 'step': st, 'interp': it, 'pad': pd} for ru in ('sd', 'rilling', 'fixed') for st in (1, 1 / 3) for it in ('splrep', 'pchip', 'mono_pchip') for pd in (1, 2, 4)]
    if tier == 'quick':
        grid = grid[::5]
    emit.scope('%d unit-amplitude signals x scale factors %s (+-2^k exact, arbitrary reals within 1e-7) and time reversal x %d combinations of stop rule / step / interpolation / padding x {get_next_imf, sift}; stop decisions within rounding distance of their threshold are excluded by a measured guard band; non-trivial = factor not a power of two or negative' % (nsig, '|k|<=8' if tier == 'thorough' else list(ks), len(grid)))
    for si, x in enumerate(sigs):
        for gi, o in enumerate(grid):
            for fn in ('get_next_imf', 'sift'):
                trs = [('scale', f) for f in (factors if (si + gi) % 3 == 0 or tier == 'thorough' else factors[::4])] + [('reverse',)]
                for tr in trs:
                    emit.case((si, gi, fn, tr), nontrivial=(tr[0] == 'reverse' or tr[1] < 0 or np.log2(abs(tr[1])) % 1 != 0), contract=fn)
                    w = {'kind': 'equivariance', 'x': x.tolist(), 'opts': o, 'fn': fn, 'transform': list(tr)}
                    ok, msg = replay(w)
                    if ok:
                        cl = 'bit-for-bit-for-powers-of-two' if 'bit-for-bit' in msg else ('time-reversal' if tr[0] == 'reverse' else 'scaling') + ':' + fn
                        emit.violation(cl, w, msg)
        if emit.full:
            return
    # every padding setting: custom np.pad options for the padded magnitudes / locations, option dictionaries built once and reused
    # (statistics that are themselves odd under a sign flip: mean, median, edge.  `maximum` / `minimum` are applied to the trough VALUES, not
    #  to the negated signal, so they are not sign-equivariant by construction - outside the property, see DESIGN 10.4)
    PADS = [{'mag_pad_opts': {'mode': 'mean', 'stat_length': 3}}, {'mag_pad_opts': {'mode': 'median', 'stat_length': 3}},
            {'loc_pad_opts': {'mode': 'reflect', 'reflect_type': 'odd'}, 'mag_pad_opts': {'mode': 'edge'}},
            {'mag_pad_opts': {'mode': 'mean', 'stat_length': 2}, 'loc_pad_opts': {'mode': 'reflect', 'reflect_type': 'odd'}}]
    if tier == 'quick':
        PADS = PADS[:3]
    emit.scope('%d signals x %d custom edge-padding settings (np.pad modes mean / median / edge with stat_length for the magnitudes, odd reflection for the locations) x {reverse, factor -1, 4, 3.7} x {get_next_imf, sift} x {fresh option dictionaries per run, the same dictionaries for both runs}' % (min(nsig, 3), len(PADS)))
    for si, x in enumerate(sigs[:3]):
        for pi_, pd_ in enumerate(PADS):
            o = dict({'rule': ['sd', 'fixed', 'rilling'][pi_ % 3], 'step': 1, 'interp': 'splrep', 'pad': [2, 3, 1][pi_ % 3]}, **pd_)
            for fn in ('get_next_imf', 'sift'):
                for tr in (('reverse',), ('scale', -1.0), ('scale', 4.0), ('scale', 3.7)):
                    for share in (False, True):
                        emit.case(('pads', si, pi_, fn, tr, share), nontrivial=True, contract=fn)
                        w = {'kind': 'equivariance', 'x': x.tolist(), 'opts': o, 'fn': fn, 'transform': list(tr), 'share_options': share}
                        ok, msg = replay(w)
                        if ok:
                            emit.violation(('time-reversal' if tr[0] == 'reverse' else 'scaling') + ':' + fn + ':custom-padding', w, msg)
        if emit.full:
            return
    # parabolic refinement of the extrema (fractional locations): a location error that points the same way along the ARRAY for a recording and
    # for its reverse cancels under scaling and sign flips but not under time reversal
    emit.scope('%d signals x parabolic_extrema=True x {sd, fixed, rilling} with cubic-spline envelopes x {reverse, factor -1, 4, 3.7} x {get_next_imf, sift}' % min(nsig, 4))
    for si, x in enumerate(sigs[:4]):
        for oi, o in enumerate(({'rule': 'sd', 'step': 1, 'interp': 'splrep', 'pad': 2, 'parabolic': True}, {'rule': 'fixed', 'step': 1, 'interp': 'splrep', 'pad': 1, 'parabolic': True},
                                {'rule': 'rilling', 'step': 1, 'interp': 'splrep', 'pad': 2, 'parabolic': True})):
            for fn in ('get_next_imf', 'sift'):
                for tr in (('reverse',), ('scale', -1.0), ('scale', 4.0), ('scale', 3.7)):
                    emit.case(('parabolic', si, oi, fn, tr), nontrivial=True, contract=fn)
                    w = {'kind': 'equivariance', 'x': x.tolist(), 'opts': o, 'fn': fn, 'transform': list(tr)}
                    ok, msg = replay(w)
                    if ok:
                        emit.violation(('time-reversal' if tr[0] == 'reverse' else 'scaling') + ':' + fn + ':parabolic-extrema', w, msg)
        if emit.full:
            return
    # slow, smooth oscillations (thousands of samples per cycle, peaks between two samples): every extremum stands only ~1e-6 of the amplitude above
    # its neighbouring samples - any ABSOLUTE tolerance in the extrema detection shows as a scale dependence within the property's range 2^-8 .. 2^8
    emit.scope('slow oscillations (2000 and 3300 samples per cycle, off-grid peaks; alone and under a fast tone) x scale factors {2^-8, -2^-8, 2^-7, 2^8, 3.7e-3} and time reversal x {get_next_imf, sift} with default options')
    tt = np.arange(5000.0)
    slow = [np.cos(2 * np.pi * (tt - 0.4) / 2000.0), np.cos(2 * np.pi * (tt - 0.3) / 3300.0) + 0.5 * np.cos(2 * np.pi * tt / 37.3)]
    for si, x in enumerate(slow):
        o = {'rule': 'sd', 'step': 1, 'interp': 'splrep', 'pad': 2}
        for fn in ('get_next_imf', 'sift'):
            for tr in (('scale', 2.0 ** -8), ('scale', -2.0 ** -8), ('scale', 2.0 ** -7), ('scale', 2.0 ** 8), ('scale', 3.7e-3), ('reverse',)):
                emit.case(('slow', si, fn, tr), nontrivial=True, contract=fn)
                w = {'kind': 'equivariance', 'x': x.tolist(), 'opts': o, 'fn': fn, 'transform': list(tr)}
                ok, msg = replay(w)
                if ok:
                    emit.violation(('time-reversal' if tr[0] == 'reverse' else 'scaling') + ':' + fn + ':slow-oscillation', w, msg)
        if emit.full:
            return
    # quantised recordings (plateaus of equal samples, flat-topped extrema): time reversal and sign flip must still commute
    emit.scope('%d signals quantised to steps of 0.25 (flat-topped extrema of even and odd length) x {reverse, factor -1, factor 4} x {get_next_imf, sift} x {sd / splrep / pad 2, fixed / splrep / pad 1}' % nsig)
    for si, x in enumerate(sigs):
        xq = np.round(np.asarray(x) * 4) / 4
        for o in ({'rule': 'sd', 'step': 1, 'interp': 'splrep', 'pad': 2}, {'rule': 'fixed', 'step': 1, 'interp': 'splrep', 'pad': 1}):
            for fn in ('get_next_imf', 'sift'):
                for tr in (('reverse',), ('scale', -1.0), ('scale', 4.0)):
                    emit.case(('quant', si, o['rule'], fn, tr), nontrivial=True, contract=fn)
                    w = {'kind': 'equivariance', 'x': xq.tolist(), 'opts': o, 'fn': fn, 'transform': list(tr)}
                    ok, msg = replay(w)
                    if ok:
                        emit.violation(('time-reversal' if tr[0] == 'reverse' else 'scaling') + ':' + fn + ':quantised', w, msg)
        if emit.full:
            return
    # the scale-free stopping metrics themselves, on random envelope pairs / iterate pairs
    nst = 300 if tier == 'quick' else 3000
    emit.scope('%d seeded envelope pairs (upper > lower, mean envelope of either sign, lengths 8..64) x rilling thresholds x factors {-1, 4, -0.25}: rilling_stop decision and metric unchanged; the same for sd_stop on iterate pairs' % nst)
    for q in range(nst):
        n = int(r.randint(8, 65))
        amp = 0.2 + r.rand(n)
        if q % 2:
            mean = 0.3 * r.randn(n) + 0.2 * r.randn()
        else:       # globally small mean with one or two local excursions of one sign (the case the local criterion sd2 exists for)
            mean = 0.01 * amp * r.randn(n)
            for j in r.choice(n, size=1 + q % 4 // 2, replace=False):
                mean[j] = (0.8 if q % 8 < 4 else -0.8) * amp[j]
        th = [(0.05, 0.5, 0.05), (0.05, 0.3, 0.3), (0.2, 0.4, 0.1)][q % 3]
        f = [-1.0, 4.0, -0.25][(q // 3) % 3]
        emit.case(('stop', q), nontrivial=f < 0, contract='rilling_stop')
        w = {'kind': 'stop_rule', 'rule': 'rilling', 'upper': (mean + amp).tolist(), 'lower': (mean - amp).tolist(), 'thresh': list(th), 'factor': f}
        ok, msg = replay(w)
        if ok:
            emit.violation('stop-rule-scale-free:rilling', w, msg)
        p = r.randn(n)
        w = {'kind': 'stop_rule', 'rule': 'sd', 'proto': p.tolist(), 'prev': (p + 0.3 * r.randn(n)).tolist(), 'thresh': [0.05, 0.2, 0.5][q % 3], 'factor': f}
        emit.case(('stop-sd', q), nontrivial=f < 0, contract='sd_stop')
        ok, msg = replay(w)
        if ok:
            emit.violation('stop-rule-scale-free:sd', w, msg)
        if emit.full:
            return
    emit.scope('mask_sift with ratio amplitudes (ratio_sig, ratio_imf; scalar, and one amplitude per IMF) x nphases {2, 4, 3} x factors {2, 0.5, 3.7, -1, -2, -3.7}')
    o = {'rule': 'sd', 'step': 1, 'interp': 'splrep', 'pad': 2}
    for si, x in enumerate(sigs[:2]):
        for mode in ('ratio_sig', 'ratio_imf'):
            for P in (2, 4, 3):
                for f in (2.0, 0.5, 3.7, -1.0, -2.0, -3.7):
                    # scalar ratio amplitude, and one ratio amplitude per IMF (array_like mask_amp)
                    extra = {'mask_amp_mode': mode, 'nphases': P}
                    if (P, f) in ((2, 2.0), (4, 0.5), (4, 3.7), (2, -2.0)):
                        extra = dict(extra, mask_amp=[1.0, 0.7, 0.5, 0.4, 0.3, 0.25, 0.2, 0.15, 0.1])
                    emit.case(('mask', si, mode, P, f), nontrivial=f < 0, contract='mask_sift')
                    w = {'kind': 'equivariance', 'x': x.tolist(), 'opts': o, 'fn': 'mask_sift', 'transform': ['scale', f], 'extra': extra,
                         'require_exact': False}
                    ok, msg = replay(w)
                    if ok:
                        emit.violation('mask_sift:sign-flip:odd-nphases' if (f < 0 and P % 2 == 1) else 'mask_sift:ratio-amplitude-scaling', w, msg)
