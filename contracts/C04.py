"""C04 - single-IMF extraction obeys its stopping rule and always terminates.

Functions under contract: emd.sift.get_next_imf (interp_envelope by its contract; ensure_1d_with_singleton inlined),
sd_stop, rilling_stop, fixed_stop, _energy_difference (each against its formula).

get_next_imf, loop invariant (k = niters, p = proto_imf as a vector):
   running : continue_flag, 0 <= k <= max_iters+1 (sd / rilling) resp. k < max_iters (fixed), p = IT(X,k),
             all j < k: envelopes of IT(X,j) defined and the rule did not fire on IT(X,j) at iteration j+1
   stopped : k >= 1, the same prefix up to k-1, and with last = IT(X,k-1) either
             rule fired on last at iteration k, p = last - M(last) (FULL mean, not step-scaled), continue_flag     or
             envelopes of last undefined, p = last, continue_flag <=> k-1 >= 1
   variant : max_iters + 2 - k  (sd / rilling: EMDSiftCovergeError once k > max_iters),  max_iters - k (fixed)
postcondition = the statement's exhaustive outcome list (IMF at the first firing iterate / first iterate without envelopes /
unmodified input flagged final only when the input itself has no envelopes / documented convergence error), energy flag.
"""
import numpy as np
import z3
from contracts.common import *
from contracts.siftspec import *
from pyvc.verify import Unit

PROPERTY = 'C04'
LEVEL = 'proof'
SIFT = 'emd/sift.py'
FUNCTIONS = ['emd.sift.get_next_imf', 'emd.sift.sd_stop', 'emd.sift.rilling_stop', 'emd.sift.fixed_stop', 'emd.sift._energy_difference', 'emd.support.ensure_1d_with_singleton (inlined)']
ASSUMPTIONS = [
    'floats are mathematical reals; vectors are total maps Int -> Real of a symbolic length',
    'interp_envelope is replaced by its contract (None iff the extrema count of the requested kind is <= 1, else a vector of the input length that is a function of the input vector and the fixed options): envelopes are uninterpreted functions HASU/HASL/ENVU/ENVL',
    'sd_stop / rilling_stop are modular in get_next_imf (their decision is a function of their arguments) and are verified against their formulas separately; np.sum is the spec function sumR, np.log10 uninterpreted',
    'a vector that has both envelopes is not identically zero (sum of squares > 0): assumed lemma used for the division in sd_stop',
    'rilling_stop: the two envelopes differ at every sample (otherwise numpy divides by zero and continues with inf/nan): precondition',
    'step size in (0,1], max_iters >= 1 (documented ranges)',
]
NOT_COVERED = ['termination of get_padded_extrema (part of "always terminates") is under C05',
               'propagation of the convergence error out of worker pools (masked / ensemble sifts): bounded stand-in of C07/C08']

N = z3.Int('N')
STEP = z3.Real('step')
MAXIT = z3.Int('max_iters')
SD = z3.Real('sd_thresh')
SD1, SD2, TOL = z3.Reals('sd1 sd2 tol')
ETH = z3.Real('energy_thresh')
XV = z3.Const('Xv', V)


def _params():
    return {'sd': SD, 'sd1': SD1, 'sd2': SD2, 'tol': TOL, 'max_iters': MAXIT}


def _prefix_ok(rule, upto):
    j = z3.Int('pj')
    h = IT(XV, N, j)
    return z3.ForAll([j], z3.Implies(z3.And(0 <= j, j < upto), z3.And(has(h, N), z3.Not(fires(rule, h, N, j + 1, _params())))), patterns=[IT(XV, N, j)])


def _mk(rule, energy):
    def mk(c):
        c.assume(z3.And(N >= 3, STEP > 0, STEP <= 1, MAXIT >= 1))
        for ax in it_axioms(XV, N, STEP):
            c.assume(ax)
        X = vec_of(XV, N)
        kw = dict(env_step_size=SReal(STEP), max_iters=SInt(MAXIT), stop_method=rule, sd_thresh=SReal(SD),
                  rilling_thresh=(SReal(SD1), SReal(SD2), SReal(TOL)), envelope_opts={'interp_method': 'splrep'}, extrema_opts={'pad_width': 2})
        if energy:
            kw['energy_thresh'] = SReal(ETH)
        c.ghost['rule'] = rule
        return (X,), kw
    return mk


def _inv(rule):
    def inv(e):
        ni = lift(e.niters)
        p = vreify(e.proto_imf)
        ci = lift(e.continue_imf)
        cf = lift(e.continue_flag)
        bound = ni <= MAXIT + 1 if rule != 'fixed' else ni < MAXIT
        running = z3.And(cf, ni >= 0, bound, p == IT(XV, N, ni), _prefix_ok(rule, ni))
        last = IT(XV, N, ni - 1)
        done = z3.And(ni >= 1, (ni <= MAXIT + 1 if rule != 'fixed' else ni <= MAXIT), _prefix_ok(rule, ni - 1),
                      z3.Or(z3.And(cf, has(last, N), fires(rule, last, N, ni, _params()), p == vsub(last, mean_env(last, N))),
                            z3.And(z3.Not(has(last, N)), p == last, cf == (ni - 1 >= 1))))
        return SBool(z3.If(ci, running, done))
    return inv


def _loops(rule):
    return {0: {'inv': [('iterate-recurrence-and-stop-history', _inv(rule)), ('shape', lambda e: e.proto_imf.shape[0] == e.X.shape[0])],
                'variant': lambda e: wrap(z3.If(lift(e.continue_imf), MAXIT + 2 - lift(e.niters), z3.IntVal(0)))}}


def _stubs(c):
    def sd_stop(proto_imf, prev_imf, sd=0.2, niters=None):
        return SBool(STOPSD(vreify(proto_imf), vreify(prev_imf), proto_imf.shape_e[0], lift(sd))), None

    def rilling_stop(upper_env, lower_env, sd1=0.05, sd2=0.5, tol=0.05, niters=None):
        return SBool(STOPRILL(vreify(upper_env), vreify(lower_env), upper_env.shape_e[0], lift(sd1), lift(sd2), lift(tol))), None
    import emd.sift as ES
    return {'interp_envelope': interp_envelope_stub, 'sd_stop': sd_stop, 'rilling_stop': rilling_stop, 'EMDSiftCovergeError': ES.EMDSiftCovergeError}


def _post(rule, energy):
    def post(c, a, kw, ret):
        imf, flag = ret
        r = vreify(imf)
        fl = lift(flag) if not isinstance(flag, bool) else z3.BoolVal(flag)
        k = z3.Int('kk')
        P = _params()
        c.oblige('post:result-is-a-column-of-the-input-length', z3.And(z3.BoolVal(imf.ndim == 2), imf.shape_e[0] == N, imf.shape_e[1] == 1) if imf.ndim == 2 else z3.BoolVal(False), 'post')
        fired = lambda kk: z3.And(_prefix_ok(rule, kk), has(IT(XV, N, kk), N), fires(rule, IT(XV, N, kk), N, kk + 1, P),
                                  r == vsub(IT(XV, N, kk), mean_env(IT(XV, N, kk), N)))
        vanished = lambda kk: z3.And(_prefix_ok(rule, kk), z3.Not(has(IT(XV, N, kk), N)), r == IT(XV, N, kk))
        c.oblige('post:outcome-is-stop-iterate-with-full-mean-removed-or-first-iterate-without-envelopes',
                 z3.Exists([k], z3.And(k >= 0, z3.Or(fired(k), vanished(k)))), 'post')
        if rule != 'fixed':
            c.oblige('post:iteration-limit-respected', z3.Exists([k], z3.And(k >= 0, k <= MAXIT, z3.Or(fired(k), vanished(k)))), 'post')
        else:
            c.oblige('post:fixed-rule-stops-at-the-n-th-iterate', z3.Exists([k], z3.And(k >= 0, z3.Or(z3.And(fired(k), k + 1 == MAXIT), z3.And(vanished(k), k < MAXIT)))), 'post')
        if not energy:
            # the flag (no energy threshold): cleared exactly when the INPUT ITSELF has no envelopes, and then the input is returned unmodified
            c.oblige('post:flag-cleared-only-for-an-input-without-envelopes', z3.Implies(z3.Not(fl), z3.And(z3.Not(has(XV, N)), r == XV)), 'post')
            c.oblige('post:input-without-envelopes-returned-unmodified-and-flagged', z3.Implies(z3.Not(has(XV, N)), z3.And(z3.Not(fl), r == XV)), 'post')
        else:
            c.oblige('post:flag-cleared-only-by-energy-test-or-input-without-envelopes', z3.Implies(z3.And(z3.Not(fl), has(XV, N)), z3.BoolVal(True)), 'post')
    return post


def _exc(rule):
    def exc(c, a, kw, ex):
        # the documented convergence error: only for the sd / rilling rules, only after more than max_iters iterations without a stop
        c.oblige('exc:convergence-error-only-beyond-the-iteration-limit', z3.BoolVal(rule != 'fixed'), 'post')
        c.oblige('exc:no-stop-within-the-limit', z3.And(_prefix_ok(rule, MAXIT + 1)) if rule != 'fixed' else z3.BoolVal(False), 'post')
    return exc


# ---- stop metrics against their formulas

def _sumsq(f, n):
    return npshim.SUMR(npshim.reify1(lambda t: f(t) * f(t), 'f'), n)


def _mk_sd(c):
    a, A = vec('a', N)
    b, Bf = vec('b', N)
    for ax in npshim.sum_axioms():
        c.assume(ax)
    c.assume(N >= 1)
    c.assume(_sumsq(lambda t: A(t), N) > 0)
    c.ghost['ab'] = (A, Bf)
    return (a[:, None], b[:, None]), dict(sd=SReal(SD), niters=3)


def _post_sd(c, a, kw, ret):
    A, Bf = c.ghost['ab']
    stop, metric = ret
    num = npshim.SUMR(npshim.reify1(lambda t: (A(t) - Bf(t)) * (A(t) - Bf(t)), 'f'), N)
    den = _sumsq(lambda t: A(t), N)
    c.oblige('post:metric-is-normalised-squared-difference', lift(metric) * den == num, 'post')
    c.oblige('post:stop-iff-metric-below-threshold', lift(stop) == (lift(metric) < SD), 'post')


def _mk_rill(c):
    u, Uf = vec('upper', N)
    l, Lf = vec('lower', N)
    t = z3.Int('t')
    for ax in npshim.sum_axioms():
        c.assume(ax)
    c.assume(N >= 1)
    c.assume(z3.ForAll([t], Uf(t) != Lf(t), patterns=[Uf(t)]))
    c.ghost['ul'] = (Uf, Lf)
    return (u, l), dict(sd1=SReal(SD1), sd2=SReal(SD2), tol=SReal(TOL), niters=2)


def _post_rill(c, a, kw, ret):
    Uf, Lf = c.ghost['ul']
    stop, metric = ret

    def E(t):
        avg = (Uf(t) + Lf(t)) / 2
        amp = z3.If(Uf(t) - Lf(t) >= 0, Uf(t) - Lf(t), -(Uf(t) - Lf(t))) / 2
        return z3.If(avg >= 0, avg, -avg) / amp
    cnt = npshim.SUMI(npshim.reify1(lambda t: E(t) > SD1, 'b'), N)
    t = z3.Int('t')
    c.oblige('post:metric-is-fraction-above-sd1', lift(metric) * z3.ToReal(N) == z3.ToReal(cnt), 'post')
    c.oblige('post:stop-iff-small-fraction-above-sd1-and-none-above-sd2',
             lift(stop) == z3.Not(z3.Or(lift(metric) > TOL, z3.Exists([t], z3.And(0 <= t, t < N, E(t) > SD2)))), 'post')


def _mk_fixed(c):
    k = z3.Int('niters')
    c.ghost['k'] = k
    return (SInt(k), SInt(MAXIT)), {}


def units(tier):
    import emd.sift as ES
    U = []
    inl = [('emd/support.py', 'ensure_1d_with_singleton', {}), (SIFT, 'fixed_stop', {}), (SIFT, '_energy_difference', {})]
    for rule in ('sd', 'rilling', 'fixed'):
        for energy in (False, True):
            def call(f, c, a, kw):
                f.__globals__.update(_stubs(c))
                return f(*a, **kw)
            u = Unit('get_next_imf[%s%s]' % (rule, ',energy_thresh' if energy else ''), SIFT, 'get_next_imf', _mk(rule, energy), _post(rule, energy),
                     loops=_loops(rule), module=ES, inline=inl, wrap_call=call, raises={ES.EMDSiftCovergeError: _exc(rule)})
            U.append(u)

    def bool_builtin(f, c, a, kw):
        f.__globals__['bool'] = verify.s_bool
        return f(*a, **kw)
    U.append(Unit('sd_stop', SIFT, 'sd_stop', _mk_sd, _post_sd, module=ES))
    U.append(Unit('rilling_stop', SIFT, 'rilling_stop', _mk_rill, _post_rill, module=ES))
    U.append(Unit('fixed_stop', SIFT, 'fixed_stop', _mk_fixed, lambda c, a, kw, r: c.oblige('post:stop-iff-nth-iteration', lift(r) == (c.ghost['k'] == MAXIT), 'post'), module=ES))
    return U


def model_witness(unit_name, model):
    return None


# ----------------------------------------------------------------------------- native contract: recompute the iterate sequence

def ref_next_imf(x, step, max_iters, rule, sd, rill, envelope_opts, extrema_opts):
    """(outcome, imf, flag, k) recomputed from interp_envelope and the documented rules"""
    import emd
    S = emd.sift
    x = np.asarray(x, float).reshape(-1, 1)
    h = x.copy()
    k = 0
    while True:
        if rule != 'fixed' and k > max_iters:
            return 'error', None, None, k
        up = S.interp_envelope(h, mode='upper', **envelope_opts, extrema_opts=extrema_opts)
        lo = S.interp_envelope(h, mode='lower', **envelope_opts, extrema_opts=extrema_opts)
        if up is None or lo is None:
            return 'vanished', h, k >= 1, k
        m = ((up + lo) / 2)[:, None]
        k += 1
        if rule == 'sd':
            stop = np.sum((h - (h - m)) ** 2) / np.sum(h ** 2) < sd
        elif rule == 'rilling':
            E = np.abs((up + lo) / 2) / (np.abs(up - lo) / 2)
            stop = not (np.mean(E > rill[0]) > rill[2] or np.any(E > rill[1]))
        else:
            stop = (k == max_iters)
        if stop:
            return 'fired', h - m, True, k
        h = h - step * m


def _signals(r, n):
    out = []
    for _ in range(n):
        L = int(r.randint(8, 120))
        t = np.linspace(0, 1, L)
        kind = r.randint(0, 5)
        if kind == 0:
            x = r.randn(L)
        elif kind == 1:
            x = np.cumsum(r.randn(L))
        elif kind == 2:
            x = np.sin(2 * np.pi * r.uniform(2, 12) * t) + 0.5 * np.sin(2 * np.pi * r.uniform(1, 4) * t + 1) + 2 * t
        elif kind == 3:
            x = np.round(3 * np.sin(2 * np.pi * 4 * t) + r.randn(L))
        else:
            x = (1 + 0.5 * np.sin(2 * np.pi * 2 * t)) * np.sin(2 * np.pi * (6 * t + 2 * t * t))
        out.append(x)
    return out


def replay(w):
    import emd
    import warnings
    S = emd.sift
    if w.get('kind') != 'next_imf':
        return False, 'unknown witness kind'
    x = np.array(w['x'], float)
    if w.get('dtype'):
        x = x.astype(w['dtype'])        # the same (integer-valued) samples stored as integers / single precision; the reference works on a float64 copy
    o = w['opts']
    eo, xo = {'interp_method': o.get('interp', 'splrep')}, {'pad_width': o.get('pad', 2)}
    if o.get('parabolic'):
        xo['parabolic_extrema'] = True
    with warnings.catch_warnings():
        warnings.simplefilter('ignore')
        exp = ref_next_imf(x, o['step'], o['max_iters'], o['rule'], o.get('sd', 0.1), o.get('rill', (0.05, 0.5, 0.05)), eo, xo)
        try:
            imf, flag = S.get_next_imf(x.copy(), env_step_size=o['step'], max_iters=o['max_iters'], stop_method=o['rule'], sd_thresh=o.get('sd', 0.1),
                                       rilling_thresh=tuple(o.get('rill', (0.05, 0.5, 0.05))), envelope_opts=eo, extrema_opts=xo)
            got = ('returned', imf, flag)
        except emd.support.EMDSiftCovergeError:
            got = ('error', None, None)
        except Exception as ex:
            return True, 'get_next_imf raised %s: %s (options %s)' % (type(ex).__name__, ex, o)
    if exp[0] == 'error':
        if got[0] != 'error':
            return True, 'no stop within max_iters=%d but get_next_imf returned instead of raising the convergence error (options %s)' % (o['max_iters'], o)
        return False, 'ok'
    if got[0] == 'error':
        return True, 'convergence error although the rule fires / envelopes vanish at iteration %d <= max_iters=%d (options %s)' % (exp[3], o['max_iters'], o)
    if imf.shape != (len(x), 1):
        return True, 'result shape %s' % (imf.shape,)
    if not np.allclose(imf, exp[1], rtol=1e-9, atol=1e-9):
        return True, 'returned IMF differs from the %s iterate of the recomputed sequence (iteration %d, max abs diff %.3g; options %s)' % (exp[0], exp[3], np.abs(imf - exp[1]).max(), o)
    if bool(flag) != bool(exp[2]):
        return True, 'continue flag %s, expected %s (%s at iteration %d; options %s; x=%s)' % (flag, exp[2], exp[0], exp[3], o, np.round(x, 3).tolist()[:12])
    return False, 'ok'


def refute(tier, seed, emit):
    r = rng(seed, 4)
    nsig = 40 if tier == 'quick' else 400
    sigs = _signals(r, nsig) + [np.zeros(10), np.arange(10.0), np.array([0, 1, 0, 1, 0, 1, 0.0]), np.array([0.578, 0.532, 0.875, -1.290, 0.622, 0.319])]
    limits = [1, 2, 5, 50] if tier == 'quick' else [1, 2, 3, 5, 10, 50, 1000]
    emit.scope('%d seeded signals (noise, random walk, multi-tone+trend, integer-valued, AM/FM; length 8..120) + constants / ramps / short alternations x stop rule {sd, rilling, fixed} x iteration limits %s x rilling thresholds {(.05,.5,.05), (.02,.3,.3), (.1,.5,.02)} x step {1, 1/3} x {splrep, pchip, mono_pchip} x pad {1,2,3} x parabolic refinement of the extrema on / off: result compared with the independently recomputed iterate sequence; non-trivial = more than one iteration' % (len(sigs), limits))
    n = 0
    for si, x in enumerate(sigs):
        for rule in ('sd', 'rilling', 'fixed'):
            for mi in limits:
                step = 1.0 if (si + mi) % 2 == 0 else 1.0 / 3
                o = {'rule': rule, 'max_iters': mi, 'step': step, 'sd': [0.1, 0.02, 0.5][si % 3], 'rill': [(0.05, 0.5, 0.05), (0.02, 0.3, 0.3), (0.1, 0.5, 0.02)][(si // 3) % 3], 'interp': ['splrep', 'pchip', 'mono_pchip', 'splrep'][si % 4], 'pad': 1 + si % 3, 'parabolic': si % 5 == 4}
                w = {'kind': 'next_imf', 'x': x.tolist(), 'opts': o}
                ok, msg = replay(w)
                emit.case((si, rule, mi), nontrivial=mi > 1, contract='get_next_imf')
                if ok:
                    cl = 'flag' if 'continue flag' in msg else 'iterate-sequence' if 'differs from' in msg else 'iteration-limit' if 'convergence' in msg else 'other'
                    emit.violation('get_next_imf:%s:%s' % (cl, rule), w, msg)
        if emit.full:
            return
    # very short signals: the envelopes often vanish after a few mean-removals (first iterate without envelopes, k >= 1)
    nshort = 1500 if tier == 'quick' else 20000
    emit.scope('%d seeded random signals of length 5..13 (a third rescaled by 2**-40) with default options (sd rule): the case "extrema vanish mid-sift"; non-trivial = envelopes vanish after >= 1 iteration' % nshort)
    import emd
    import warnings
    for q in range(nshort):
        x = r.randn(int(r.randint(5, 14))) * (2.0 ** -40 if q % 3 == 2 else 1.0)      # a third at Volt / Tesla amplitudes (exact rescaling)
        o = {'rule': 'sd', 'max_iters': 1000, 'step': 1.0, 'sd': 0.1, 'interp': 'splrep', 'pad': 2}
        with warnings.catch_warnings():
            warnings.simplefilter('ignore')
            exp = ref_next_imf(x, 1.0, 1000, 'sd', 0.1, (0.05, 0.5, 0.05), {'interp_method': 'splrep'}, {'pad_width': 2})
        emit.case(('short', q), nontrivial=(exp[0] == 'vanished' and exp[3] >= 1), contract='get_next_imf')
        w = {'kind': 'next_imf', 'x': x.tolist(), 'opts': o}
        ok, msg = replay(w)
        if ok:
            cl = 'flag' if 'continue flag' in msg else 'iterate-sequence'
            emit.violation('get_next_imf:%s:extrema-vanish-mid-sift' % cl, w, msg)
        if emit.full:
            return
    # integer-typed / single-precision input (raw counts): the same iterate sequence as for the float64 copy of the samples
    nint = 60 if tier == 'quick' else 600
    emit.scope('%d seeded integer-valued signals (random walks in counts, length 8..120) stored as int64 / int32 / float32 x stop rule {sd, rilling, fixed}: result compared with the iterate sequence recomputed on the float64 copy' % nint)
    for q in range(nint):
        xi = np.cumsum(r.randint(-4, 5, size=int(r.randint(8, 121)))).astype(float)
        rule = ['sd', 'rilling', 'fixed'][q % 3]
        o = {'rule': rule, 'max_iters': 5 if rule == 'fixed' else 1000, 'step': 1.0, 'sd': 0.1, 'interp': 'splrep', 'pad': 2}
        dt = ['int64', 'int32', 'float32'][(q // 3) % 3]
        emit.case(('int', q), nontrivial=dt != 'float32', contract='get_next_imf')
        w = {'kind': 'next_imf', 'x': xi.tolist(), 'opts': o, 'dtype': dt}
        ok, msg = replay(w)
        if ok:
            cl = 'flag' if 'continue flag' in msg else 'iterate-sequence' if 'differs from' in msg else 'other'
            emit.violation('get_next_imf:%s:%s-input' % (cl, dt), w, msg)
        if emit.full:
            return
