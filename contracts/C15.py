"""C15 - the cycle container keeps metrics, subsets and chains coherent.

Unbounded units (real source, modular):
  Cycles.get_matching_cycles : result[c] <=> every condition holds for cycle c, with the comparator meaning what it says
                               (_parse_condition by contract; all six comparators, 1..3 conditions);
  Cycles._safe_add_metric / add_cycle_metric : a metric is stored only if it has exactly one entry per cycle (class-invariant step);
  Cycles.pick_cycle_subset   : subset_vect / chain_vect are the constructors' results on exactly the matching-cycle vector, and the
                               mask conditions are remembered (constructors by their C16 contracts, re-verified here);
  get_subset_vector, get_chain_vector (C16 units), get_cycle_stat_from_samples (C14 unit): the functional content of the invariant.
Since each operation is proved to preserve "every stored metric has one entry per cycle" and to establish its functional postcondition
from the invariant alone, the statement holds after any finite sequence of operations (induction on the history, no depth bound).
Bounded only: condition-string parsing, slice cache on/off equality, chain metrics, tabular export.
"""
import itertools
import numpy as np
import z3
from contracts.common import *
from contracts import C16, C14
from pyvc.verify import Unit

PROPERTY = 'C15'
LEVEL = 'proof'
CY = 'emd/cycles.py'
FUNCTIONS = ['emd.cycles.Cycles.get_matching_cycles', 'emd.cycles.Cycles.add_cycle_metric', 'emd.cycles.Cycles._safe_add_metric', 'emd.cycles.Cycles.pick_cycle_subset',
             'emd.cycles.get_subset_vector', 'emd.cycles.get_chain_vector', 'emd._cycles_support.get_cycle_stat_from_samples', 'emd._cycles_support.make_slice_cache']
ASSUMPTIONS = [
    'augmented cycles: np.flipud is a view, np.where(mask)[0] the increasing list of the true positions (assumed, cross-checked); a python slice object carries symbolic bounds',
    'the container is an arbitrary object satisfying the class invariant (fields set directly; metrics is a map of symbolic vectors of length ncycles)',
    '_parse_condition is replaced by its contract in get_matching_cycles (name, comparator ufunc, float value); the parser itself is checked by exhaustive enumeration (bounded)',
    'assumed numpy contracts: zeros, column assignment, all(axis=1), comparison ufuncs, len, isnan, astype',
    'slice-cache equivalence (make_slice_cache / get_slice_stat_from_samples), chain metrics, compute_position_in_chain and the pandas export are covered by the bounded stand-in only',
]
NOT_COVERED = ['_parse_condition (string theory): exhaustive enumeration over comparators x literal shapes x names - bounded',
               'cache on/off equality (beyond: the slice cache is the run decomposition of the label vector - proved), chain metrics, chain positions, tabular exports - bounded stand-in',
               'augmented-mode metrics: the two routes to the augmented cycle (augment_slice, map_cycle_to_samples_augmented) are proved against one specification; the metric histories on top of them are bounded (cache on and off against one reference)']

NC = z3.Int('ncycles')
OPS = {'==': 'equal', '!=': 'not_equal', '<': 'less', '<=': 'less_equal', '>': 'greater', '>=': 'greater_equal'}


class Self:
    """a container object for the rebuilt methods"""
    pass


def _mk_container(c, names):
    s = Self()
    s.ncycles = SInt(NC)
    c.assume(NC >= 1)
    s.metrics = {}
    fs = {}
    for nm in names:
        arr, F = vec('metric_' + nm, NC, 'f')
        s.metrics[nm] = arr
        fs[nm] = F
    good, G = vec('metric_is_good', NC, 'i')
    s.metrics['is_good'] = good
    s.subset_vect = s.chain_vect = s.mask_conditions = None
    c.ghost['self'] = s
    c.ghost['F'] = fs
    return s


def _cmp(op, a, b):
    return {'==': a == b, '!=': a != b, '<': a < b, '<=': a <= b, '>': a > b, '>=': a >= b}[op]


def units(tier):
    import emd.cycles as EC
    U = []
    # ---- get_matching_cycles
    combos = [(op,) for op in OPS] + [('<', '>='), ('==', '!=', '<=')]
    if tier == 'thorough':
        combos += [(a, b) for a in ('>', '<=') for b in ('==', '>=')]
    for ops in combos:
        def mk(c, ops=ops):
            names = ['m%d' % i for i in range(len(ops))]
            s = _mk_container(c, names)
            vals = [z3.Real('val%d' % i) for i in range(len(ops))]
            c.ghost['vals'] = vals
            conds = ['%s%s%s' % (n, op, 'V%d' % i) for i, (n, op) in enumerate(zip(names, ops))]
            c.ghost['conds'] = conds
            return (s, conds if len(conds) > 1 else conds[0]), {}

        def call(f, c, a, kw, ops=ops):
            s = a[0]
            vals = c.ghost['vals']

            def parse(cond):
                # contract of _parse_condition: (metric name, numpy comparison ufunc for the operator, float value)
                i = c.ghost['conds'].index(cond)
                return 'm%d' % i, getattr(npshim, OPS[ops[i]]), SReal(vals[i])
            s._parse_condition = parse
            return f(*a, **kw)

        def post(c, a, kw, r, ops=ops):
            F, vals = c.ghost['F'], c.ghost['vals']
            k = z3.Int('pc')
            c.oblige('post:one-flag-per-cycle', r.shape_e[0] == NC, 'post')
            want = z3.And(*[_cmp(op, F['m%d' % i](k), vals[i]) for i, op in enumerate(ops)])
            c.oblige('post:cycle-matches-iff-all-conditions-hold', z3.Implies(z3.And(0 <= k, k < NC), r.elem(k) == want), 'post')
        U.append(Unit('get_matching_cycles[%s]' % ' & '.join(ops), CY, 'Cycles.get_matching_cycles', mk, post, module=EC, wrap_call=call))

    # ---- _safe_add_metric / add_cycle_metric
    L = z3.Int('len_vals')
    for meth in ('_safe_add_metric', 'add_cycle_metric'):
        def mk(c, meth=meth):
            s = _mk_container(c, ['old'])
            c.assume(L >= 0)
            v, VF = vec('newvals', L, 'f')
            c.ghost['before'] = dict(s.metrics)
            return (s, 'new', v), {}

        def call(f, c, a, kw, meth=meth):
            s = a[0]
            if meth == 'add_cycle_metric':
                g = f.__globals__
                s._safe_add_metric = lambda name, vals: g['_safe_add_metric'](s, name, vals)
            return f(*a, **kw)

        def post(c, a, kw, r):
            s = c.ghost['self']
            stored = 'new' in s.metrics
            c.oblige('post:stored-only-with-one-entry-per-cycle', z3.Implies(z3.BoolVal(stored), L == NC), 'post')
            c.oblige('post:other-metrics-untouched', z3.BoolVal(all(s.metrics[k] is v for k, v in c.ghost['before'].items())), 'post')
            if not stored:
                c.oblige('post:rejected-only-on-length-mismatch', L != NC, 'post')

        def exc(c, a, kw, ex):
            s = c.ghost['self']
            c.oblige('exc:rejected-only-on-length-mismatch', z3.And(L != NC, z3.BoolVal('new' not in s.metrics)), 'post')
        U.append(Unit(meth, CY, 'Cycles.' + meth, mk, post, module=EC, wrap_call=call, raises={ValueError: exc},
                      inline=[(CY, 'Cycles._safe_add_metric', {})] if meth == 'add_cycle_metric' else []))

    # ---- pick_cycle_subset: composition
    def mk_p(c):
        s = _mk_container(c, ['m0'])
        return (s, ['m0>V0']), {}

    def call_p(f, c, a, kw):
        s = a[0]
        g = f.__globals__
        valids, VF = vec('valids', NC, 'b')
        c.ghost['valids'] = valids
        rec = c.ghost.setdefault('rec', {})

        def gmc(conditions, ret_separate=False):
            rec['gmc'] = conditions
            return valids

        def gsv(v):
            rec['gsv_arg'] = v
            ns = z3.Int('NS')
            sv, SVF = vec('sv_out', NC, 'i')
            rec['sv'] = sv
            return sv

        def gcv(sv):
            rec['gcv_arg'] = sv
            ch, CHF = vec('ch_out', z3.Int('NS'), 'i')
            core.C().assume(z3.And(z3.Int('NS') >= 1, z3.ForAll([z3.Int('ci')], z3.And(0 <= CHF(z3.Int('ci')), CHF(z3.Int('ci')) < z3.Int('NS')), patterns=[CHF(z3.Int('ci'))])))
            rec['ch'] = ch
            return ch

        class CS:
            @staticmethod
            def project_chain_to_cycles(vals, chain_vect, subset_vect):
                rec['proj'] = (chain_vect, subset_vect)
                out, OF = vec('chain_ind', NC, 'f')
                out.nan = lambda i: z3.Function('chain_ind_nan', I, B)(i)
                return out
        s.get_matching_cycles = gmc
        g['get_subset_vector'] = gsv
        g['get_chain_vector'] = gcv
        g['_cycles_support'] = CS
        added = {}
        s.add_cycle_metric = lambda name, vals, dtype=None: added.__setitem__(name, (vals, dtype))
        rec['added'] = added
        return f(*a, **kw)

    def post_p(c, a, kw, r):
        s, rec = c.ghost['self'], c.ghost['rec']
        c.oblige('post:conditions-remembered', z3.BoolVal(s.mask_conditions == ['m0>V0'] and rec.get('gmc') == ['m0>V0']), 'post')
        c.oblige('post:subset-built-from-exactly-the-matching-cycles', z3.BoolVal(rec.get('gsv_arg') is c.ghost['valids'] and s.subset_vect is rec.get('sv')), 'post')
        c.oblige('post:chains-built-from-the-subset-vector', z3.BoolVal(rec.get('gcv_arg') is rec.get('sv') and s.chain_vect is rec.get('ch')), 'post')
        c.oblige('post:chain-index-metric-projected-through-both-vectors', z3.BoolVal(rec.get('proj') == (rec.get('ch'), rec.get('sv')) and 'chain_ind' in rec['added'] and rec['added']['chain_ind'][1] in (int, verify.s_int)), 'post')
    U.append(Unit('pick_cycle_subset', CY, 'Cycles.pick_cycle_subset', mk_p, post_p, module=EC, wrap_call=call_p))

    # ---- functional content reused from C16 / C14
    U += [u for u in C16.units(tier) if u.name in ('get_subset_vector', 'get_chain_vector')]
    U += [u for u in C14.units(tier) if u.name == 'get_cycle_stat_from_samples']
    # the slice cache (the cache-on route of every per-cycle metric): the run decomposition of the label vector at its unit steps (C13 unit)
    from contracts import C13
    U.append(C13.slice_cache_unit())
    U += augmented_units()
    return U


# ----------------------------------------------------------------------------- augmented cycles: the two routes to "the cycle plus the run back to the trough on its left"
#
# spec: for a cycle occupying the samples [a, b) of a phase series, the augmented cycle starts right after the CLOSEST sample on the left whose
# phase is below 3 pi / 2 (so: every sample of [a2, a) is at or above 3 pi / 2 and sample a2 - 1 is below), and it does not exist when no
# sample on the left is below 3 pi / 2.  augment_slice (cache on) and map_cycle_to_samples_augmented (cache off) both have to say exactly this.
NA = z3.Int('NA')
A0, B0 = z3.Ints('cyc_start cyc_stop')
PHA = z3.Function('aug_phase', I, R)


def _aug_spec(c, start, stop_ok, none):
    i = z3.Int('aq')
    lim = 3 * PI / 2
    if none:
        c.oblige('post:no-augmented-cycle-only-when-no-sample-on-the-left-is-below-3pi/2', z3.Implies(z3.And(0 <= i, i < A0), PHA(i) >= lim), 'post')
        return
    c.oblige('post:augmented-cycle-ends-where-the-cycle-ends', stop_ok, 'post')
    c.oblige('post:starts-right-after-the-closest-sample-below-3pi/2-on-the-left', z3.And(1 <= start, start <= A0, PHA(start - 1) < lim), 'post')
    # (stated by the offset from the cycle start, the form in which the code's `np.where(np.flipud(...))` enumerates the samples; the
    #  statement by sample index follows from it)
    c.oblige('post:every-added-sample-is-at-or-above-3pi/2:by-offset', z3.Implies(z3.And(0 <= i, i < A0 - start), PHA(A0 - 1 - i) >= lim), 'post')
    c.oblige('post:every-added-sample-is-at-or-above-3pi/2', z3.Implies(z3.And(start <= i, i < A0), PHA(i) >= lim), 'post')


def augmented_units():
    import emd._cycles_support as CS

    def common(c):
        for ax in npshim.pi_axioms():
            c.assume(ax)
        c.assume(z3.And(NA >= 1, 0 <= A0, A0 < B0, B0 <= NA))
        return SArr((NA,), lambda i: PHA(i), 'f')

    def mk_slice(c):
        ph = common(c)
        return (slice(SInt(A0), SInt(B0)), ph), {}

    def post_slice(c, a, kw, r):
        if r is None:
            _aug_spec(c, None, None, True)
        else:
            _aug_spec(c, lift(r.start), lift(r.stop) == B0, False)

    def mk_map(c):
        ph = common(c)
        ii = z3.Int('cyc_index')
        CV = z3.Function('aug_cv', I, I)
        i = z3.Int('cvi')
        c.assume(ii >= 0)
        # the label vector carries label ii exactly on [A0, B0)
        c.assume(z3.ForAll([i], z3.Implies(z3.And(0 <= i, i < NA), (CV(i) == ii) == z3.And(A0 <= i, i < B0)), patterns=[CV(i)]))
        return (SArr((NA,), lambda q: CV(q), 'i'), SInt(ii), ph), {}

    def post_map(c, a, kw, r):
        if r is None:
            _aug_spec(c, None, None, True)
            return
        n = r.shape_e[0]
        q = z3.Int('mq')
        c.oblige('post:consecutive-sample-indices', z3.And(n >= 1, z3.Implies(z3.And(0 <= q, q < n), r.elem(q) == r.elem(z3.IntVal(0)) + q)), 'post')
        _aug_spec(c, r.elem(z3.IntVal(0)), r.elem(n - 1) == B0 - 1, False)
    CSP = 'emd/_cycles_support.py'
    return [Unit('augment_slice', CSP, 'augment_slice', mk_slice, post_slice, module=CS),
            Unit('map_cycle_to_samples_augmented', CSP, 'map_cycle_to_samples_augmented', mk_map, post_map, module=CS)]


def model_witness(unit_name, model):
    return None


# ----------------------------------------------------------------------------- native contract: operation sequences vs a reference model

def make_phase(r, n=None):
    n = n or int(r.randint(60, 400))
    f = np.abs(0.03 + 0.015 * r.randn() + 0.02 * np.cumsum(r.randn(n)) / np.sqrt(n)) + 0.01
    return (r.rand() * 2 * np.pi + np.cumsum(2 * np.pi * f)) % (2 * np.pi)


def make_phase_jumpy(r):
    """phase ramps of abruptly changing length (5..40 samples per cycle, the first and last cycle truncated): short cycles right after long ones"""
    parts = []
    for q in range(int(r.randint(4, 12))):
        m = int(r.choice([5, 6, 7, 8, 12, 24, 30, 40]))
        parts.append(np.linspace(0, 2 * np.pi, m, endpoint=False) + np.pi / m)
    ph = np.concatenate(parts)
    a, b = int(r.randint(0, len(parts[0]))), int(r.randint(0, len(parts[-1])))
    return ph[a:len(ph) - b]


def ref_cycles(ph, step=1.5 * np.pi):
    n = len(ph)
    lab = -np.ones(n, dtype=int)
    w = [s for s in range(1, n) if abs(ph[s] - ph[s - 1]) > step]
    if not w:
        return lab
    B = [0] + w + [n]
    for k in range(len(B) - 1):
        lab[B[k]:B[k + 1]] = k
    return lab


LITS = ['0', '1', '-1', '0.5', '-0.25', '1e1', '2.5e-1', '-1E0', '3.', '.5', '+2', '100', '1e-3', '12.75', '-0', '7e+0']
CMPS = {'==': np.equal, '!=': np.not_equal, '<': np.less, '<=': np.less_equal, '>': np.greater, '>=': np.greater_equal}


def _cond_name(cn):
    import re
    return re.split(r'[=<>!]', cn)[0]


def apply_op(C, model, op, x):
    """apply one operation to the real container C and to the reference model (dict); returns error string or None"""
    import emd
    cv = model['cv']
    K = model['K']
    kind = op[0]
    if kind in ('compute', 'compute_aug', 'add') and model.get('conds') and any(_cond_name(cn) == op[1] for cn in model['conds']):
        # REPLACING a metric the current selection was made on leaves "the selected subset" ambiguous (the subset / chain vectors are
        # those of the pick, queries and exports re-evaluate the stored conditions): outside the property's scope - operation skipped
        return None
    if kind == 'compute':
        name, fn = op[1], op[2]
        f = {'mean': np.mean, 'max': np.max, 'len': len, 'range': lambda v: float(np.max(v) - np.min(v))}[fn]
        C.compute_cycle_metric(name, x, f)
        model['metrics'][name] = np.array([float(f(x[cv == c])) for c in range(K)])
    elif kind == 'compute_aug':
        # augmented mode: the cycle plus the samples before it back to the closest trough on its left (the run of samples with phase >= 3pi/2
        # that ends where the cycle starts); no sample below 3pi/2 anywhere on the left (the first cycle): no augmented cycle, NaN
        name, fn = op[1], op[2]
        f = {'mean': np.mean, 'max': np.max, 'len': len, 'range': lambda v: float(np.max(v) - np.min(v))}[fn]
        C.compute_cycle_metric(name, x, f, mode='augmented')
        ph = model['phase']
        exp = np.full(K, np.nan)
        for c in range(K):
            idx = np.where(cv == c)[0]
            below = np.where(ph[:idx[0]] < 1.5 * np.pi)[0]
            if len(below):
                exp[c] = float(f(x[below[-1] + 1:idx[-1] + 1]))
        model['metrics'][name] = exp
    elif kind == 'add':
        name = op[1]
        vals = np.arange(K, dtype=float) * op[2]
        C.add_cycle_metric(name, vals.copy())
        model['metrics'][name] = vals
    elif kind == 'timings':
        C.compute_cycle_timings()
        model['metrics']['start_sample'] = np.array([np.where(cv == c)[0][0] for c in range(K)])
        model['metrics']['stop_sample'] = np.array([np.where(cv == c)[0][-1] for c in range(K)])
        model['metrics']['duration'] = np.array([np.sum(cv == c) for c in range(K)])
    elif kind == 'subset':
        conds = op[1]
        if any(cn.split('=')[0].split('<')[0].split('>')[0].split('!')[0] not in model['metrics'] for cn in conds):
            return None
        C.pick_cycle_subset(conds)
        valid = np.ones(K, dtype=bool)
        for cn in conds:
            for sym in ('==', '!=', '<=', '>=', '<', '>'):
                if sym in cn:
                    nm, lit = cn.split(sym)
                    valid &= CMPS[sym](model['metrics'][nm], float(lit))
                    break
        model['valid'] = valid
        model['conds'] = conds
        sv, ch = C16.ref_subset_chain(valid.astype(int))
        model['sv'], model['ch'] = np.array(sv), np.array(ch)
        ci = np.array([(-1 if sv[c] == -1 else ch[sv[c]]) for c in range(K)])
        model['metrics']['chain_ind'] = ci
    elif kind == 'chain_timings':
        if model.get('sv') is None or len(model['ch']) == 0:
            return None
        C.compute_chain_timings()
        sv, ch = model['sv'], model['ch']
        nH = ch.max() + 1
        cs, ce, cl, cc, cp = (np.full(K, -1) for _ in range(5))
        for h in range(nH):
            cyc = [c for c in range(K) if sv[c] >= 0 and ch[sv[c]] == h]
            samp = np.where(np.isin(cv, cyc))[0]
            for pos, c in enumerate(cyc):
                cs[c], ce[c], cl[c], cc[c], cp[c] = samp[0], samp[-1], len(samp), len(cyc), pos
        model['metrics'].update({'chain_start': cs, 'chain_end': ce, 'chain_len_samples': cl, 'chain_len_cycles': cc, 'chain_position': cp})
    elif kind == 'table':
        mode = op[1]
        if mode == 'subset' and model.get('conds') is None:
            return None
        if mode == 'all':
            d = C.get_metric_dataframe()
            rows = K
        elif mode == 'subset':
            d = C.get_metric_dataframe(subset=True)
            rows = int(model['valid'].sum())
        else:
            conds = op[2]
            if any(cn.split('>')[0].split('<')[0].split('=')[0].split('!')[0] not in model['metrics'] for cn in conds):
                return None
            d = C.get_metric_dataframe(conditions=conds)
            valid = np.ones(K, dtype=bool)
            for cn in conds:
                for sym in ('==', '!=', '<=', '>=', '<', '>'):
                    if sym in cn:
                        nm, lit = cn.split(sym)
                        valid &= CMPS[sym](model['metrics'][nm], float(lit))
                        break
            rows = int(valid.sum())
        if len(d) != rows:
            return 'table export (%s) has %d rows, expected %d' % (mode, len(d), rows)
        for nm in model['metrics']:
            if nm not in d.columns:
                return 'table export misses metric %r' % nm
    return None


def compare(C, model):
    K = model['K']
    if C.ncycles != K:
        return 'container has %d cycles, the phase has %d' % (C.ncycles, K)
    for nm, exp in model['metrics'].items():
        if nm not in C.metrics:
            return 'metric %r missing' % nm
        got = np.asarray(C.metrics[nm])
        if got.shape != (K,):
            return 'metric %r has %s entries for %d cycles' % (nm, got.shape, K)
        if not np.allclose(got.astype(float), np.asarray(exp, dtype=float), equal_nan=True):
            bad = np.where(~np.isclose(got.astype(float), np.asarray(exp, dtype=float), equal_nan=True))[0]
            return 'metric %r differs from the function applied to each cycle\'s samples at cycles %s: got %s expected %s' % (nm, bad[:5].tolist(), got[bad[:5]].tolist(), np.asarray(exp)[bad[:5]].tolist())
    for nm in C.metrics:
        if len(C.metrics[nm]) != K:
            return 'stored metric %r has %d entries for %d cycles' % (nm, len(C.metrics[nm]), K)
    if model.get('sv') is not None:
        if list(C.subset_vect) != list(model['sv']):
            return 'subset vector %s, expected %s (conditions %s)' % (list(C.subset_vect), list(model['sv']), model['conds'])
        if list(C.chain_vect) != list(model['ch']):
            return 'chain vector %s, expected maximal runs %s' % (list(C.chain_vect), list(model['ch']))
        # (the subset and chain vectors are those of the last pick; a query is answered from the metrics as they are NOW -
        #  a metric may have been replaced since)
        now = np.ones(K, dtype=bool)
        for cn in model['conds']:
            for sym in ('==', '!=', '<=', '>=', '<', '>'):
                if sym in cn:
                    nm, lit = cn.split(sym)
                    now &= CMPS[sym](model['metrics'][nm], float(lit))
                    break
        got = C.get_matching_cycles(model['conds'])
        if list(np.asarray(got, dtype=bool)) != list(now):
            return 'get_matching_cycles(%s) = %s, expected %s' % (model['conds'], list(got), list(now))
    return None


def run_history(ph, x, ops, use_cache):
    import emd
    import warnings
    with warnings.catch_warnings():
        warnings.simplefilter('ignore')
        C = emd.cycles.Cycles(ph, use_cache=use_cache)
        cv = ref_cycles(ph)
        K = int(cv.max() + 1)
        if K == 0:
            # a wrap-free phase: a container without cycles stores no per-cycle metric at all (nothing to be coherent about)
            return None if (C.ncycles == 0 and all(len(v) == 0 for v in C.metrics.values())) else 'a wrap-free phase gave a container with %d cycles / metrics %s' % (C.ncycles, {k_: len(v) for k_, v in C.metrics.items()})
        model = {'cv': cv, 'K': K, 'metrics': {}, 'sv': None, 'phase': np.asarray(ph, float)}
        good = []
        for c in range(K):
            seg = ph[cv == c]
            good.append(int(np.all(np.diff(seg) > 0) and 0 <= seg[0] <= np.pi / 12 and 2 * np.pi - np.pi / 12 <= seg[-1] <= 2 * np.pi))
        model['metrics']['is_good'] = np.array(good)
        err = compare(C, model)
        if err:
            return 'after construction: ' + err
        for i, op in enumerate(ops):
            try:
                e = apply_op(C, model, op, x)
            except Exception as ex:
                return 'operation %d %s raised %s: %s' % (i, op, type(ex).__name__, str(ex)[:200])
            if e:
                return 'operation %d %s: %s' % (i, op, e)
            err = compare(C, model)
            if err:
                return 'after operation %d %s: %s' % (i, op, err)
    return None


def gen_ops(r, n):
    ops = []
    names = []
    for _ in range(n):
        k = r.randint(0, 9)
        if k == 8:
            nm = 'g%d' % r.randint(0, 2)
            ops.append(('compute_aug', nm, ['mean', 'max', 'len', 'range'][r.randint(0, 4)]))
            names.append(nm)
        elif k == 0:
            nm = 'm%d' % r.randint(0, 3)
            ops.append(('compute', nm, ['mean', 'max', 'len', 'range'][r.randint(0, 4)]))
            names.append(nm)
        elif k == 1:
            nm = 'a%d' % r.randint(0, 2)
            ops.append(('add', nm, float(r.choice([0.5, -1.0, 2.0]))))
            names.append(nm)
        elif k == 2:
            ops.append(('timings',))
            names += ['duration', 'start_sample']
        elif k in (3, 4):
            pool = names + ['is_good']
            conds = []
            for _c in range(r.randint(1, 4)):
                nm = pool[r.randint(0, len(pool))]
                sym = list(CMPS)[r.randint(0, 6)]
                lit = {'is_good': ['1', '0', '1.0', '0.5'], 'duration': ['20', '3e1', '12.5', '-1']}.get(nm, LITS)
                conds.append('%s%s%s' % (nm, sym, lit[r.randint(0, len(lit))]))
            ops.append(('subset', conds))
        elif k == 5:
            ops.append(('chain_timings',))
        elif k == 6:
            ops.append(('table', ['all', 'subset'][r.randint(0, 2)]))
        else:
            pool = names + ['is_good']
            nm = pool[r.randint(0, len(pool))]
            ops.append(('table', 'conditions', ['%s%s%s' % (nm, list(CMPS)[r.randint(0, 6)], LITS[r.randint(0, len(LITS))])]))
    return ops


def replay(w):
    kind = w.get('kind')
    if kind == 'history':
        ph = np.array(w['phase'])
        x = np.array(w['x'])
        ops = [tuple(o) for o in w['ops']]
        e1 = run_history(ph, x, ops, w['use_cache'])
        if e1:
            return True, 'use_cache=%s: %s' % (w['use_cache'], e1)
        return False, 'ok'
    if kind == 'parse':
        import emd
        C = emd.cycles.Cycles.__new__(emd.cycles.Cycles)
        cond = w['cond']
        try:
            name, func, val = C._parse_condition(cond)
        except Exception as ex:
            return True, '_parse_condition(%r) raised %s: %s' % (cond, type(ex).__name__, ex)
        if name != w['name'] or func is not CMPS[w['op']] or val != float(w['lit']):
            return True, '_parse_condition(%r) = (%r, %s, %r), expected (%r, %s, %r)' % (cond, name, getattr(func, '__name__', func), val, w['name'], CMPS[w['op']].__name__, float(w['lit']))
        return False, 'ok'
    return False, 'unknown witness kind'


def refute(tier, seed, emit):
    emit.scope('_parse_condition: every comparator x %d literal shapes (sign, decimal, exponent) x 5 metric names, with and without spaces' % len(LITS), exhaustive=True)
    for nm in ('is_good', 'duration', 'max_amp', 'a1', 'x_2'):
        for sym in CMPS:
            for lit in LITS:
                emit.case(('parse', nm, sym, lit), contract='_parse_condition')
                w = {'kind': 'parse', 'cond': nm + sym + lit, 'name': nm, 'op': sym, 'lit': lit}
                ok, msg = replay(w)
                if ok:
                    emit.violation('condition-comparators-mean-what-they-say', w, msg)
        if emit.full:
            return
    r = rng(seed, 15)
    nh = 120 if tier == 'quick' else 15000
    maxops = 8 if tier == 'quick' else 12
    emit.scope('%d seeded operation sequences of length 3..%d over {compute metric (cycle and augmented mode), add metric, timings, pick subset with 1-3 conditions over all six comparators, chain timings, export table (all / subset / conditions)} on containers from random phases (smooth frequency drifts, and ramps of abruptly changing length), each run with the slice cache on and off, compared after every operation with a reference model' % (nh, maxops))
    for h in range(nh):
        ph = make_phase(r) if h % 3 else make_phase_jumpy(r)
        x = np.sin(ph) * (1 + 0.3 * r.randn(len(ph)))
        ops = gen_ops(r, int(r.randint(3, maxops + 1)))
        for uc in (True, False):
            emit.case(('hist', h, uc), contract='Cycles')
            w = {'kind': 'history', 'phase': ph.tolist(), 'x': x.tolist(), 'ops': [list(o) for o in ops], 'use_cache': uc}
            ok, msg = replay(w)
            if ok:
                cl = 'cache-on-off' if False else ('table-export' if 'table' in msg else 'subset-and-chains' if ('subset' in msg or 'chain' in msg) else 'metric-per-cycle')
                emit.violation('container-coherent:%s:%s' % (cl, 'cache' if uc else 'nocache'), w, msg[:500])
        if emit.full:
            return
