"""C01 - the classic sift is a complete additive decomposition of its input.

Function under contract: emd.sift.sift (get_next_imf by its C04 contract; ensure_1d_with_singleton and _nsamples_warn inlined).
Loop invariant of the sifting loop (layer = number of components so far):
   residual   : proto_imf = X - rowsum(imf)                        (the running residual is input minus the IMFs so far)
   res-spec   : proto_imf = RES(layer),  RES(0) = X, RES(k+1) = RES(k) - COMP(k),  COMP(k) = G(RES(k))      (shared with C03)
   components : column k of imf = COMP(k) for k < layer
   exit-reason: once the loop has decided to stop, either the cap was reached, or the last component's absolute sum is below
                sift_thresh, or (the extraction flagged its input as final, hence) rowsum(imf) = X and the last column has no envelopes.
Postcondition (from the statement; no IMF cap, no energy threshold):
   sum|last column| >= sift_thresh  =>  the columns sum to the input at every sample  and  the last column is non-oscillatory
   (fewer than two interior maxima or fewer than two interior minima = its envelopes are undefined).
"""
import numpy as np
import z3
from contracts.common import *
from contracts.siftspec import *
from pyvc.verify import Unit

PROPERTY = 'C01'
LEVEL = 'proof'
SIFT = 'emd/sift.py'
FUNCTIONS = ['emd.sift.get_next_imf (its C04 contract units re-run here)', 'emd.sift.sift', 'emd.support.ensure_1d_with_singleton (inlined)', 'emd.sift._nsamples_warn (inlined)']
ASSUMPTIONS = [
    'floats are mathematical reals ("to within floating-point rounding" is not modelled)',
    'get_next_imf is replaced by its C04 contract: a pure function G of its input vector (options fixed) whose flag is cleared only for an input without envelopes, which is then returned unmodified; no energy threshold',
    'assumed numpy contracts: concatenate, sum(axis=1) with "the sum of a concatenation is the sum of the sums of its pieces", abs, slicing, newaxis',
    '"non-oscillatory" is expressed as "at least one of the two envelopes is undefined" (interp_envelope contract of C05: undefined iff fewer than two extrema of that kind)',
]
NOT_COVERED = ['floating-point rounding of the reconstruction (bounded stand-in measures it)', 'termination of the outer loop (no variant exists in general; the property does not claim it)']

N = z3.Int('N')
XV = z3.Const('Xv', V)
THR = z3.Real('sift_thresh')
CAP = z3.Int('max_imfs')


def _rowsum(a):
    return npshim.sum_(a, axis=1)


def _last_abs_sum(a):
    return npshim.sum_(npshim.abs_(a[:, -1]))


def _mk(cap, opts):
    def mk(c):
        c.assume(z3.And(N >= 3, THR >= 0))
        for ax in g_axioms(XV, N) + npshim.sum_axioms():
            c.assume(ax)
        X = vec_of(XV, N)
        kw = dict(sift_thresh=SReal(THR))
        if cap:
            c.assume(CAP >= 1)
            kw['max_imfs'] = SInt(CAP)
        if opts:
            kw['imf_opts'] = {'env_step_size': 0.5, 'stop_method': 'rilling'}
            kw['envelope_opts'] = {'interp_method': 'pchip'}
            kw['extrema_opts'] = {'pad_width': 3}
            c.ghost['caller_opts'] = {k_: dict(v_) for k_, v_ in kw.items() if k_.endswith('_opts')}
        return (X,), kw
    return mk


def _decl_imf(e):
    c = core.C()
    k = c.fresh('ncols', I)
    f = c.fresh_fun('imf', I, I, R)
    c.assume(k >= 0)
    return SArr((N, k), lambda i, j: f(i, j), 'f')


def _inv(cap):
    def X_at(t):
        return XV[lift(t)]

    def residual(e):
        with core.SpecMode():
            rs = _rowsum(e.imf)
        return and_(implies(e.layer >= 1, lambda: forall(0, N, lambda t: e.proto_imf.elem(lift(t), z3.IntVal(0)) == X_at(t) - rs.elem(lift(t)))),
                    implies(e.layer == 0, lambda: forall(0, N, lambda t: e.proto_imf.elem(lift(t), z3.IntVal(0)) == X_at(t))))

    def exit_reason(e):
        with core.SpecMode():
            rs = _rowsum(e.imf)
            S = lift(_last_abs_sum(e.imf))
            last = npshim.reify1(lambda t: z3.If(z3.And(0 <= t, t < N), e.imf.elem(t, lift(e.layer) - 1), z3.RealVal(0)), 'f')
        xt = z3.Int('xt')
        complete = z3.And(z3.ForAll([xt], z3.Implies(z3.And(0 <= xt, xt < N), rs.elem(xt) == XV[xt])), z3.Not(has(last, N)))
        reasons = [S < THR, complete]
        if cap:
            reasons.append(lift(e.layer) == CAP)
        return implies(and_(not_(e.continue_sift), e.layer >= 1), SBool(z3.Or(*reasons)))
    inv = [
        ('layer', lambda e: e.layer >= 0),
        ('shape', lambda e: and_(e.proto_imf.shape[0] == N, e.imf.shape[0] == N, implies(e.layer >= 1, lambda: e.imf.shape[1] == e.layer))),
        ('first-iteration-continues', lambda e: implies(e.layer == 0, e.continue_sift)),
        ('residual', residual),
        ('res-spec', lambda e: SBool(vreify(e.proto_imf) == RES(XV, N, lift(e.layer)))),
        ('components', lambda e: forall(0, e.layer, lambda k: forall(0, N, lambda t: e.imf.elem(lift(t), lift(k)) == COMP(XV, N, lift(k))[lift(t)]))),
        ('exit-reason', exit_reason),
        # the sift never extracts again after an extraction that cleared the continue flag (so a capped run is a prefix of the uncapped one)
        ('earlier-extractions-continued', lambda e: SBool(z3.ForAll([z3.Int('fk')], z3.Implies(z3.And(0 <= z3.Int('fk'), z3.Int('fk') < lift(e.layer) - 1), GF(RES(XV, N, z3.Int('fk')), N))))),
        ('continuing-means-the-last-extraction-continued', lambda e: implies(and_(e.continue_sift, e.layer >= 1), SBool(GF(RES(XV, N, lift(e.layer) - 1), N)))),
    ]
    if cap:
        inv.append(('cap', lambda e: and_(e.layer <= wrap(CAP), implies(e.continue_sift, lambda: e.layer < wrap(CAP)))))
    return inv


def _post(cap):
    def post(c, a, kw, ret):
        ncols = ret.shape_e[1]
        c.oblige('post:samples-by-components', z3.And(z3.BoolVal(ret.ndim == 2), ret.shape_e[0] == N, ncols >= 1), 'post')
        with core.SpecMode():
            rs = _rowsum(ret)
            S = lift(_last_abs_sum(ret))
            last = npshim.reify1(lambda t: z3.If(z3.And(0 <= t, t < N), ret.elem(t, ncols - 1), z3.RealVal(0)), 'f')
        t = z3.Int('pt')
        k = z3.Int('pk')
        not_cut_short = S >= THR
        if cap:
            not_cut_short = z3.And(not_cut_short, ncols < CAP)
            c.oblige('post:cap-respected', ncols <= CAP, 'post')
        c.oblige('post:components-sum-to-the-input-unless-cut-short', z3.Implies(z3.And(not_cut_short, 0 <= t, t < N), rs.elem(t) == XV[t]), 'post')
        c.oblige('post:final-component-non-oscillatory-unless-cut-short', z3.Implies(not_cut_short, z3.Not(has(last, N))), 'post')
        c.oblige('post:kth-component-is-extraction-from-input-minus-previous-components',
                 z3.Implies(z3.And(0 <= k, k < ncols, 0 <= t, t < N), ret.elem(t, k) == COMP(XV, N, k)[t]), 'post')
        c.oblige('post:no-extraction-after-one-that-cleared-the-continue-flag', z3.Implies(z3.And(0 <= k, k < ncols - 1), GF(RES(XV, N, k), N)), 'post')
    return post


def units(tier):
    import emd.sift as ES
    U = []
    inl = [('emd/support.py', 'ensure_1d_with_singleton', {}), (SIFT, '_nsamples_warn', {})]
    for cap in (False, True):
        for opts in (False, True):
            if cap and opts and tier == 'quick':
                continue

            def call(f, c, a, kw):
                f.__globals__['get_next_imf'] = get_next_imf_stub
                return f(*a, **kw)
            u = Unit('sift[%s%s]' % ('max_imfs' if cap else 'no-cap', ',options' if opts else ''), SIFT, 'sift', _mk(cap, opts), _post(cap),
                     loops={0: {'inv': _inv(cap), 'decl': {'imf': _decl_imf}}}, module=ES, inline=inl, wrap_call=call)
            U.append(u)
    # the callee contract the sift units rely on is discharged in this check as well (the C04 units of get_next_imf without energy test),
    # so that a change inside get_next_imf that breaks what `sift` assumes about it fails a named obligation here
    from contracts import C04
    U += [u for u in C04.units(tier) if u.name in ('get_next_imf[sd]', 'get_next_imf[rilling]', 'get_next_imf[fixed]')]
    return U


def model_witness(unit_name, model):
    return None


# ----------------------------------------------------------------------------- native contract

def n_ext(x):
    x = np.asarray(x, float).ravel()
    d = np.diff(x)
    pk = int(np.sum((d[:-1] > 0) & (d[1:] < 0)))
    tr = int(np.sum((d[:-1] < 0) & (d[1:] > 0)))
    return pk, tr


def replay(w):
    import emd
    import warnings
    if w.get('kind') != 'sift':
        return False, 'unknown witness kind'
    x = np.array(w['x'], float)
    if w.get('dtype'):
        x = x.astype(w['dtype'])         # the same (integer-valued) samples stored as integers / single precision
    o = w.get('opts', {})
    kw = {}
    if o:
        kw = {'imf_opts': {'stop_method': o.get('rule', 'sd'), 'env_step_size': o.get('step', 1), 'max_iters': o.get('max_iters', 1000)},
              'envelope_opts': {'interp_method': o.get('interp', 'splrep')}, 'extrema_opts': {'pad_width': o.get('pad', 2)}}
        if 'sd_thresh' in o:
            kw['imf_opts']['sd_thresh'] = o['sd_thresh']
        if 'rilling_thresh' in o:
            kw['imf_opts']['rilling_thresh'] = tuple(o['rilling_thresh'])
    thr = w.get('sift_thresh', 1e-8)
    with warnings.catch_warnings():
        warnings.simplefilter('ignore')
        try:
            imf = emd.sift.sift(x.copy(), sift_thresh=thr, **kw)
        except emd.support.EMDSiftCovergeError:
            return False, 'documented convergence error (C04)'
        except Exception as ex:
            return True, 'sift raised %s: %s' % (type(ex).__name__, ex)
    if imf.ndim != 2 or imf.shape[0] != len(x):
        return True, 'result shape %s' % (imf.shape,)
    last = imf[:, -1]
    if np.abs(last).sum() < thr:
        return False, 'cut short by sift_thresh'
    scale = max(np.abs(x).max(), np.abs(imf).max()) or 1.0      # relative to the largest magnitude involved (small-amplitude recordings count too)
    err = np.abs(imf.sum(axis=1) - x).max()
    if not (err <= 1e-9 * scale * imf.shape[1]):       # (NaN-aware: a non-finite component is not a decomposition of x)
        return True, 'the %d components do not sum back to the input: max |sum - x| = %.3g (x=%s opts=%s)' % (imf.shape[1], err, np.round(x, 3).tolist()[:14], o)
    pk, tr = n_ext(last)
    if pk >= 2 and tr >= 2:
        return True, 'the sift ended of its own accord but the final component still oscillates (%d maxima, %d minima)' % (pk, tr)
    return False, 'complete decomposition with a non-oscillatory residual'


def refute(tier, seed, emit):
    from contracts.C04 import _signals
    maxlen = 7 if tier == 'quick' else 9
    emit.scope('every sequence of length 3..%d over the 3-level alphabet {-1,0,1} with default options (plateaus / integer-valued / constants / ramps included); non-trivial = at least one interior extremum' % maxlen, exhaustive=True)
    for t in seqs([-1.0, 0.0, 1.0], maxlen, 3):
        pk, tr = n_ext(t)
        emit.case(('seq', t), nontrivial=(pk + tr) > 0, contract='sift')
        w = {'kind': 'sift', 'x': list(t)}
        ok, msg = replay(w)
        if ok:
            emit.violation('complete-decomposition' if 'sum back' in msg else 'final-component-non-oscillatory' if 'oscillates' in msg else 'sift-raises', w, msg)
        if emit.full:
            return
    r = rng(seed, 1)
    nr = 300 if tier == 'quick' else 2000
    sigs = _signals(r, nr // 3) + [r.randn(int(r.randint(5, 14))) for _ in range(nr)]
    emit.scope('%d seeded signals (noise, random walks, multi-tone + trend, AM/FM, integer-valued; short random signals of length 5..13) x stop rule {sd, rilling, fixed} x step {1, 1/3} x {splrep, pchip, mono_pchip} x pad {1,2,3}, no cap, no energy threshold' % len(sigs))
    for si, x in enumerate(sigs):
        o = {} if si % 4 == 0 else {'rule': ['sd', 'rilling', 'fixed'][si % 3], 'step': [1, 1 / 3][si % 2], 'interp': ['splrep', 'pchip', 'mono_pchip'][(si // 2) % 3], 'pad': 1 + (si // 3) % 3,
                                     'max_iters': 10 if si % 3 == 2 else 1000}
        emit.case(('sig', si), contract='sift')
        w = {'kind': 'sift', 'x': np.asarray(x).tolist(), 'opts': o}
        ok, msg = replay(w)
        if ok:
            emit.violation('complete-decomposition' if 'sum back' in msg else 'final-component-non-oscillatory' if 'oscillates' in msg else 'sift-raises', w, msg)
        if emit.full:
            return
    # stopping rules that cannot be met within the iteration limit: the documented convergence error, or a complete decomposition - never a silent partial one
    ntight = 60 if tier == 'quick' else 600
    emit.scope('%d seeded noise signals (length 32..128) x {sd with sd_thresh 1e-4 / 1e-6, rilling with thresholds (1e-3, 1e-2, 1e-3)} x max_iters {5, 50}: the sift raises the convergence error or returns a complete decomposition' % ntight)
    for q in range(ntight):
        xq = r.randn(int(r.randint(32, 129)))
        o = [{'rule': 'sd', 'sd_thresh': 1e-4}, {'rule': 'sd', 'sd_thresh': 1e-6}, {'rule': 'rilling', 'rilling_thresh': [1e-3, 1e-2, 1e-3]}][q % 3]
        o = dict(o, max_iters=[5, 50][(q // 3) % 2])
        emit.case(('tight', q), contract='sift')
        w = {'kind': 'sift', 'x': xq.tolist(), 'opts': o}
        ok, msg = replay(w)
        if ok:
            emit.violation(('complete-decomposition' if 'sum back' in msg else 'final-component-non-oscillatory' if 'oscillates' in msg else 'sift-raises') + ':iteration-limit-reached', w, msg)
        if emit.full:
            return
    # integer-typed recordings (raw ADC counts, integer random walks) and single precision: still a complete decomposition
    nint = 120 if tier == 'quick' else 1200
    emit.scope('%d seeded integer-valued signals (random walks in counts, rounded multi-tone signals; length 8..200) stored as int64 / int32 / float32 x stop rule {sd, rilling, fixed}' % nint)
    for q in range(nint):
        n = int(r.randint(8, 201))
        xi = np.cumsum(r.randint(-3, 4, size=n)) if q % 2 else np.round(40 * np.sin(2 * np.pi * r.uniform(2, 9) * np.linspace(0, 1, n)) + 15 * np.sin(2 * np.pi * r.uniform(0.5, 2) * np.linspace(0, 1, n)) + 3 * r.randn(n))
        dt = ['int64', 'int32', 'float32'][q % 3]
        o = {} if q % 4 == 0 else {'rule': ['sd', 'rilling', 'fixed'][q % 3], 'max_iters': 10 if q % 3 == 2 else 1000}
        emit.case(('int', q), nontrivial=dt != 'float32', contract='sift')
        w = {'kind': 'sift', 'x': np.asarray(xi, float).tolist(), 'opts': o, 'dtype': dt}
        ok, msg = replay(w)
        if ok:
            emit.violation(('complete-decomposition' if 'sum back' in msg else 'final-component-non-oscillatory' if 'oscillates' in msg else 'sift-raises') + ':%s-input' % dt, w, msg)
        if emit.full:
            return
    # the same decomposition at other amplitudes: exact power-of-two rescaling of input and threshold (Volt / Tesla scale recordings, raw ADC counts)
    short = [r.randn(int(r.randint(5, 40))).cumsum() for _ in range(nr)] + sigs[:nr // 6]
    emit.scope('%d seeded signals (random walks of length 5..39, and the signals above) rescaled by 2**-40 and 2**30 with sift_thresh rescaled alike x stop rule {sd, rilling}' % len(short))
    for si, x in enumerate(short):
        f = [2.0 ** -40, 2.0 ** 30][si % 2]
        o = {} if si % 4 < 2 else {'rule': 'rilling'}
        emit.case(('scaled', si), contract='sift')
        w = {'kind': 'sift', 'x': (np.asarray(x) * f).tolist(), 'opts': o, 'sift_thresh': 1e-8 * f}
        ok, msg = replay(w)
        if ok:
            emit.violation(('complete-decomposition' if 'sum back' in msg else 'final-component-non-oscillatory' if 'oscillates' in msg else 'sift-raises') + ':rescaled', w, msg)
        if emit.full:
            return
