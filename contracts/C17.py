"""C17 - feature matching returns a valid one-to-one pairing.

Functions under contract:
  emd.cycles._unique_inds : uni strictly increasing, every uni[j] occurs in the input AND every input value occurs in uni (least-index
                            induction, lemmas least-index:base / :step), and inds[j] is exactly the (non-empty) list of
                            positions r *of the original array* with ar[r] == uni[j]   (np.sort / np.where: assumed contracts)
  emd.cycles.kdt_match    : the whole function (K enumerated; scipy cKDTree.query: assumed contract; _unique_inds: called through
                            the contract proved above):
                            - greedy column-by-column assignment loop, cut with the invariants
                                 marks in different x rows never carry the same y row     (=> one-to-one)
                                 every marked y row is recorded in `selected`
                                 marks are 0 or 1
                              The loop body runs on symbolic lists: the three comprehensions in closure form, `u in selected` on a
                              ghost set, np.argmin as a Skolem function of its argument, the scatter store
                              uni_matches[closest_uni_inds] = ... with an arbitrary index list.
                            - final selection loop and return statement:
                              equal lengths, x indices strictly increasing and in range, every y index in [0, len(y)), NO y ROW TWICE,
                              each y index among the K neighbours the tree returned for its partner, and no pair farther apart than
                              distance_upper_bound.
"""
import builtins
import itertools
import numpy as np
import z3
from contracts.common import *
from pyvc.verify import Unit

PROPERTY = 'C17'
LEVEL = 'proof'
FUNCTIONS = ['emd.cycles._unique_inds', 'emd.cycles.kdt_match (whole function: greedy assignment loop, final loop, return)']
ASSUMPTIONS = [
    'floats are mathematical reals; numpy ints unbounded',
    'assumed numpy contracts (cross-checked natively): sort (non-decreasing permutation), where (as a function of the compared value), boolean-mask gather, != on shifted slices, argmax(axis=1), argmin (an index in range holding a minimum; a function of its argument), sum, sum(mask, axis=1) (per-row count: 0..ncols, positive iff the row has a True entry), out[index_list] = values (position r written iff r is in the list, with the value of some occurrence), int_array != inf (all True), zeros, unique (shape only)',
    'assumed scipy contract: cKDTree(y).query(x, k=K, distance_upper_bound=b) with eps == 0 and p == 2 (both obligations at the call; workers is ignored) returns the K nearest neighbours in the Euclidean distance: D, inds of shape (n,K) ((n,) when K == 1) with 0 <= inds <= len(y) and inds < len(y) => D <= b',
    'kdt_match calls _unique_inds through its contract (modular): the clauses assumed at the call site are the postconditions the unit _unique_inds discharges',
    '`selected` (a python list used as a set: extend / in) is a ghost set; `a in b` is rewritten mechanically to a call that answers natively for native operands',
    '_unique_inds: "every input value is represented in uni" rests on a least-index induction over the sorted copy (start of the run of equal values): base and step are lemmas of this check (least-index:base / :step); the induction principle itself is applied by the harness, which assumes the claim for every position',
]
NOT_COVERED = ['"closest claimant wins" (which of several x rows gets a contested y row) is not part of the property and is not specified']

N = z3.Int('N')
NX = z3.Int('NX')
NY = z3.Int('NY')
BOUND = z3.Real('bound')


def _mk_ui(c):
    ar, A = vec('ar', N, 'i')
    c.assume(N >= 1)
    KK, WW, PP = npshim.register_param_where(c, A, N, 'ar')
    c.ghost['A'] = A
    return (ar,), {}


def _post_ui(c, a, kw, ret):
    A = c.ghost['A']
    uni, inds = ret
    L = uni.shape_e[0]
    j, j2, q, q2, r = z3.Ints('uj uj2 uq uq2 ur')
    c.oblige('post:uni-strictly-increasing', z3.Implies(z3.And(0 <= j, j < j2, j2 < L), uni.elem(j) < uni.elem(j2)), 'post')
    rr = z3.Int('wit_r')
    c.oblige('post:uni-values-occur-in-input', z3.Implies(z3.And(0 <= j, j < L), z3.Exists([rr], z3.And(0 <= rr, rr < N, A(rr) == uni.elem(j)))), 'post')
    n_inds = lift(verify.s_len(inds))
    c.oblige('post:one-index-list-per-unique-value', n_inds == L, 'post')
    with core.SpecMode():
        item = inds.at(SInt(j)) if isinstance(inds, core.SymList) else None
    if item is None:
        c.oblige('post:index-lists-are-a-function-of-the-unique-value', z3.BoolVal(False), 'post')
        return
    rng = z3.And(0 <= j, j < L)
    c.oblige('post:inds-point-at-their-value-in-the-ORIGINAL-array', z3.Implies(z3.And(rng, 0 <= q, q < item.shape_e[0]),
                                                                                 z3.And(0 <= item.elem(q), item.elem(q) < N, A(item.elem(q)) == uni.elem(j))), 'post')
    c.oblige('post:inds-increasing', z3.Implies(z3.And(rng, 0 <= q, q < q2, q2 < item.shape_e[0]), item.elem(q) < item.elem(q2)), 'post')
    c.oblige('post:every-index-list-nonempty', z3.Implies(rng, item.shape_e[0] >= 1), 'post')
    qq = z3.Int('wit_q')
    c.oblige('post:inds-complete', z3.Implies(z3.And(rng, 0 <= r, r < N, A(r) == uni.elem(j)), z3.Exists([qq], z3.And(0 <= qq, qq < item.shape_e[0], item.elem(qq) == r))), 'post')
    # completeness of the value list: every input value is represented.  uni = aux[mask] with aux the sorted input and mask[i] = "aux[i] starts
    # a run of equal values"; the run of position p starts at FIRST(p), defined by recursion, and FIRST(p) <= p carries the value of p and
    # is marked - an induction over p whose base and step are the lemmas `least-index:*` of this check (the induction principle itself is
    # applied here, by the harness)
    g = getattr(uni, 'gather_of', None)
    srt = getattr(g[0], 'sorted_from', None) if g is not None else None
    pos = getattr(g[1], 'pos', None) if g is not None else None
    rr2 = z3.Int('ur2')
    if srt is not None and pos is not None:
        S = g[0].elem
        old, PERM, INV = srt
        FIRST = c.fresh_fun('first', I, I)
        pp = z3.Int('fp')
        c.assume(FIRST(0) == 0)
        c.assume(z3.ForAll([pp], z3.Implies(pp >= 1, FIRST(pp) == z3.If(S(pp) != S(pp - 1), pp, FIRST(pp - 1))), patterns=[FIRST(pp)]), feas=False)
        c.assume(z3.ForAll([pp], z3.Implies(z3.And(0 <= pp, pp < N), _first_claim(S, FIRST, pp)), patterns=[FIRST(pp)]), feas=False)
        jw = pos(FIRST(INV(rr2)))
        c.oblige('post:every-input-value-is-represented', z3.Implies(z3.And(0 <= rr2, rr2 < N), z3.And(0 <= jw, jw < L, uni.elem(jw) == A(rr2))), 'post')
    else:
        jx = z3.Int('wit_jx')
        c.oblige('post:every-input-value-is-represented', z3.Implies(z3.And(0 <= rr2, rr2 < N), z3.Exists([jx], z3.And(0 <= jx, jx < L, uni.elem(jx) == A(rr2)))), 'post')


def _first_claim(S, FIRST, p):
    f = FIRST(p)
    return z3.And(0 <= f, f <= p, S(f) == S(p), z3.Or(f == 0, S(f) != S(f - 1)))


def lemmas(tier):
    """least-index induction used by _unique_inds' completeness clause: FIRST(0) = 0, FIRST(p) = p if S(p) != S(p-1) else FIRST(p-1);
    claim(p): 0 <= FIRST(p) <= p, S(FIRST(p)) = S(p), and FIRST(p) is 0 or differs from its predecessor"""
    S = z3.Function('lemS', I, I)
    FIRST = z3.Function('lemFIRST', I, I)
    p = z3.Int('lemp')
    return [('least-index:base', [FIRST(0) == 0], _first_claim(S, FIRST, z3.IntVal(0))),
            ('least-index:step', [p >= 1, _first_claim(S, FIRST, p - 1), FIRST(p) == z3.If(S(p) != S(p - 1), p, FIRST(p - 1))], _first_claim(S, FIRST, p))]


class KDTreeStub:
    def __init__(self, y):
        self.y = y
        self.n = core._c_or_s(y.shape_e[0])            # cKDTree attributes: number of data points / of dimensions
        self.m = core._c_or_s(y.shape_e[1]) if y.ndim == 2 else 1

    def query(self, x, k=1, eps=0, p=2, distance_upper_bound=None, workers=1):
        # the library's real signature. The assumed contract below ("the K columns are the K nearest neighbours in the Euclidean distance") is the
        # one of an EXACT search in the 2-norm: eps > 0 only guarantees the k-th returned neighbour within (1 + eps) of the true one, another p is
        # another metric - so both are preconditions of the contract and obligations at the call (clause of the property: every matched candidate
        # is among the K nearest neighbours of its partner)
        c = core.C()
        if not core.Ctx.spec:
            c.oblige('cKDTree.query:requires-exact-search(eps == 0)', lift(eps) == 0, 'pre')
            c.oblige('cKDTree.query:requires-euclidean-metric(p == 2)', lift(p) == 2, 'pre')
        nx = x.shape_e[0]
        ny = self.y.shape_e[0]
        kk = core.concrete(k)
        if kk is None:
            raise core.Unsupported('symbolic K')
        DD = z3.Function('DD', I, I, R)
        II_ = z3.Function('INDS', I, I, I)
        i, j = z3.Ints('qi qj')
        b = lift(distance_upper_bound) if not isinstance(distance_upper_bound, float) else None
        body = [0 <= II_(i, j), II_(i, j) <= ny, DD(i, j) >= 0]
        if b is not None:
            body.append(z3.Implies(II_(i, j) < ny, DD(i, j) <= b))
        c.assume(z3.ForAll([i, j], z3.Implies(z3.And(0 <= i, i < nx, 0 <= j, j < kk), z3.And(*body)), patterns=[II_(i, j)]))
        c.ghost['query'] = (DD, II_, kk, b)
        if kk == 1:
            return SArr((nx,), lambda i_: DD(i_, z3.IntVal(0)), 'f'), SArr((nx,), lambda i_: II_(i_, z3.IntVal(0)), 'i')
        return SArr((nx, kk), lambda i_, j_: DD(i_, j_), 'f'), SArr((nx, kk), lambda i_, j_: II_(i_, j_), 'i')


class SpatialShim:
    cKDTree = KDTreeStub


def _import(name, globals=None, locals=None, fromlist=(), level=0):
    if name == 'scipy' and fromlist and 'spatial' in fromlist:
        class _M:
            spatial = SpatialShim
        return _M
    return builtins.__import__(name, globals, locals, fromlist, level)


def _mk_kdt(K, F, bounded):
    def mk(c):
        x, X = mat('x', NX, F)
        y, Y = mat('y', NY, F)
        c.assume(z3.And(NX >= 1, NY >= 1))
        kw = dict(K=K)
        if bounded:
            c.assume(BOUND > 0)
            kw['distance_upper_bound'] = SReal(BOUND)
        return (x, y), kw
    return mk


def unique_inds_stub(ar):
    """emd.cycles._unique_inds at its call site in kdt_match, by its CONTRACT: every clause assumed here is a postcondition the unit
    '_unique_inds' discharges on the real function (same names)."""
    c = core.C()
    if not (isinstance(ar, SArr) and ar.ndim == 1 and ar.kind == 'i'):
        raise core.Unsupported('_unique_inds contract stub: argument is not a 1-d integer array')
    n = ar.shape_e[0]
    A, _ = ar._snapshot()
    L = c.fresh('nuniq', I)
    U = c.fresh_fun('uniq', I, I)
    UL = c.fresh_fun('ulen', I, I)
    UI = c.fresh_fun('upos', I, I, I)
    UP = c.fresh_fun('urank', I, I, I)
    j, j2, q, q2, r = z3.Ints('sj sj2 sq sq2 sr')
    c.assume(L >= 0)
    # post:uni-strictly-increasing
    c.assume(z3.ForAll([j, j2], z3.Implies(z3.And(0 <= j, j < j2, j2 < L), U(j) < U(j2)), patterns=[z3.MultiPattern(U(j), U(j2))]), feas=False)
    # post:every-index-list-nonempty
    c.assume(z3.ForAll([j], z3.Implies(z3.And(0 <= j, j < L), UL(j) >= 1), patterns=[UL(j)]), feas=False)
    # post:inds-point-at-their-value-in-the-ORIGINAL-array  (with q = 0 and the clause above: post:uni-values-occur-in-input)
    c.assume(z3.ForAll([j, q], z3.Implies(z3.And(0 <= j, j < L, 0 <= q, q < UL(j)), z3.And(0 <= UI(j, q), UI(j, q) < n, A(UI(j, q)) == U(j))), patterns=[UI(j, q)]), feas=False)
    # post:inds-increasing
    c.assume(z3.ForAll([j, q, q2], z3.Implies(z3.And(0 <= j, j < L, 0 <= q, q < q2, q2 < UL(j)), UI(j, q) < UI(j, q2)), patterns=[z3.MultiPattern(UI(j, q), UI(j, q2))]), feas=False)
    # post:inds-complete (witness function: the rank of row r among the occurrences of its value)
    c.assume(z3.ForAll([j, r], z3.Implies(z3.And(0 <= j, j < L, 0 <= r, r < n, A(r) == U(j)), z3.And(0 <= UP(j, r), UP(j, r) < UL(j), UI(j, UP(j, r)) == r)), patterns=[UP(j, r)]), feas=False)
    uni = SArr((L,), lambda k: U(k), 'i', incr=True)

    def item(jj):
        je = lift(jj)
        it = SArr((UL(je),), lambda k: UI(je, k), 'i', incr=True)
        it.nonneg = True
        return it
    c.ghost['unique_inds_calls'] = c.ghost.get('unique_inds_calls', 0) + 1
    return uni, core.SymList(L, item)       # post:one-index-list-per-unique-value


def _valid_final(e, r):
    """what the return statement needs of final[r] (stated in terms of the property, not of the selection expression):
    -1, or a row of y that is one of the K neighbours returned for x row r (within the distance bound) AND that the greedy
    assignment marked for this row (II != 0)"""
    DD, II_, kk, b = core.C().ghost['query']
    ny = e.y.shape_e[0]
    v = e.final.elem(r)
    jj = z3.Int('inv_j%d' % next(core._buf_ids))
    nb = z3.And(0 <= jj, jj < kk, v == II_(r, jj), e.II.elem(r, jj) != 0)
    if b is not None:
        nb = z3.And(nb, DD(r, jj) <= b)
    return z3.Or(v == -1, z3.And(0 <= v, v < ny, z3.Exists([jj], nb)))


def _marks(e):
    nx, kk = e.II.shape_e
    r1, c1, r2, c2 = z3.Ints('ir1 ic1 ir2 ic2')
    rng = z3.And(0 <= r1, r1 < nx, 0 <= r2, r2 < nx, 0 <= c1, c1 < kk, 0 <= c2, c2 < kk)
    return nx, kk, r1, c1, r2, c2, rng


def _inv_injective(e):
    """two marks in different rows never carry the same y row"""
    nx, kk, r1, c1, r2, c2, rng = _marks(e)
    m1, m2 = e.II.elem(r1, c1), e.II.elem(r2, c2)
    pats = [z3.MultiPattern(m1, m2)] if (core._pat_ok_core(m1, [r1, c1]) and core._pat_ok_core(m2, [r2, c2])) else []
    return z3.ForAll([r1, c1, r2, c2], z3.Implies(z3.And(rng, r1 != r2, m1 != 0, m2 != 0), e.inds.elem(r1, c1) != e.inds.elem(r2, c2)), patterns=pats)


def _inv_selected(e):
    """every marked y row has been recorded in `selected`"""
    nx, kk, r1, c1, r2, c2, rng = _marks(e)
    sel = core.SymSet.of(e.selected)
    m1 = e.II.elem(r1, c1)
    pats = [m1] if core._pat_ok_core(m1, [r1, c1]) else []
    return z3.ForAll([r1, c1], z3.Implies(z3.And(0 <= r1, r1 < nx, 0 <= c1, c1 < kk, m1 != 0), sel(e.inds.elem(r1, c1))), patterns=pats)


def _inv_01(e):
    nx, kk, r1, c1, r2, c2, rng = _marks(e)
    m1 = e.II.elem(r1, c1)
    pats = [m1] if core._pat_ok_core(m1, [r1, c1]) else []
    return z3.ForAll([r1, c1], z3.Implies(z3.And(0 <= r1, r1 < nx, 0 <= c1, c1 < kk), z3.Or(m1 == 0, m1 == 1)), patterns=pats)


_loops_kdt = {
    # the greedy column-by-column assignment
    0: {'inv': [('marked-y-rows-pairwise-distinct-across-x-rows', _inv_injective),
                ('marked-y-rows-are-recorded-as-selected', _inv_selected),
                ('marks-are-0-or-1', _inv_01)],
        'decl': {'selected': lambda e: core.SymSet.fresh('selected')}},
    1: {'inv': [('final-prefix-valid', lambda e: forall(0, e.ii, lambda r: _valid_final(e, lift(r)))),
                ('shape', lambda e: e.final.shape[0] == e.II.shape[0])]},
}


def _post_kdt(K, bounded):
    def post(c, a, kw, ret):
        x_inds, y_inds = ret
        DD, II_, kk, b = c.ghost['query']
        L = x_inds.shape_e[0]
        k, k2 = z3.Ints('mk mk2')
        rng = z3.And(0 <= k, k < L)
        c.oblige('post:equally-long', x_inds.shape_e[0] == y_inds.shape_e[0], 'post')
        c.oblige('post:x-indices-strictly-increasing', z3.Implies(z3.And(0 <= k, k < k2, k2 < L), x_inds.elem(k) < x_inds.elem(k2)), 'post')
        c.oblige('post:x-indices-in-range', z3.Implies(rng, z3.And(0 <= x_inds.elem(k), x_inds.elem(k) < NX)), 'post')
        c.oblige('post:y-indices-in-range', z3.Implies(rng, z3.And(0 <= y_inds.elem(k), y_inds.elem(k) < NY)), 'post')
        jj = z3.Int('wit_j')
        nb = z3.And(0 <= jj, jj < kk, y_inds.elem(k) == II_(x_inds.elem(k), jj))
        if b is not None:
            nb = z3.And(nb, DD(x_inds.elem(k), jj) <= b)
        c.oblige('post:partner-among-K-neighbours' + ('-and-within-distance-bound' if b is not None else ''), z3.Implies(rng, z3.Exists([jj], nb)), 'post')
        c.oblige('post:no-y-row-twice', z3.Implies(z3.And(0 <= k, k < k2, k2 < L), y_inds.elem(k) != y_inds.elem(k2)), 'post')
    return post


def units(tier):
    import emd.cycles as EC
    U = [Unit('_unique_inds', 'emd/cycles.py', '_unique_inds', _mk_ui, _post_ui, module=EC,
              observables=[{'kind': 'scalar', 'name': 'N'}, {'kind': 'array', 'name': 'ar', 'shape': ['N']}])]
    U[0].bound_scalars = [('N', 0)]
    bi = dict(builtins.__dict__)
    bi['__import__'] = _import
    Ks = (1, 2, 3) if tier == 'quick' else (1, 2, 3, 5, 15)
    for K in Ks:
        for bounded in (True, False):
            if not bounded and K > 2:
                continue
            u = Unit('kdt_match[K=%d,%s]' % (K, 'bounded' if bounded else 'inf'), 'emd/cycles.py', 'kdt_match', _mk_kdt(K, 2, bounded), _post_kdt(K, bounded),
                     loops=_loops_kdt, module=EC, ns={'__builtins__': bi, '_unique_inds': unique_inds_stub},
                     observables=[{'kind': 'scalar', 'name': 'NX'}, {'kind': 'scalar', 'name': 'NY'}])
            u.meta = {'K': K}
            U.append(u)
    return U


def model_witness(unit_name, model):
    if unit_name == '_unique_inds':
        ar = model_vec(model, 'ar')
        if ar:
            return {'kind': 'unique_inds', 'ar': [int(v) for v in ar]}
    if unit_name.startswith('kdt_match'):
        K = int(unit_name.split('K=')[1].split(',')[0])
        return {'kind': 'kdt', 'x': [[0.0, 0.0], [1.0, 0.5]], 'y': [[0.1, 0.0], [1.0, 0.4], [3.0, 3.0]], 'K': K, 'bound': None}
    return None


# ----------------------------------------------------------------------------- native contract

def check_unique_inds(ar):
    import emd.cycles as EC
    ar = np.asarray(ar)
    orig = ar.copy()
    try:
        uni, inds = EC._unique_inds(ar.copy())
    except Exception as ex:
        return '_unique_inds raised %s: %s' % (type(ex).__name__, ex)
    exp_u = sorted(set(orig.tolist()))
    if list(np.asarray(uni).tolist()) != exp_u:
        return 'unique values %s, expected %s' % (list(uni), exp_u)
    for j, u in enumerate(exp_u):
        exp = [r for r in range(len(orig)) if orig[r] == u]
        if list(np.asarray(inds[j]).tolist()) != exp:
            return 'occurrences of value %s reported at %s but they are at %s in the original array %s' % (u, list(inds[j]), exp, orig.tolist())
    return None


def check_kdt(x, y, K, bound, dtype=None):
    import emd.cycles as EC
    from scipy.spatial.distance import cdist
    x, y = np.asarray(x, float), np.asarray(y, float)
    kw = {} if bound is None else {'distance_upper_bound': bound}
    try:
        # (integer-valued feature tables may be stored as integers / single precision: the pairing is that of the stored values)
        xi, yi = EC.kdt_match(x.copy() if dtype is None else x.astype(dtype), y.copy() if dtype is None else y.astype(dtype), K=K, **kw)
    except Exception as ex:
        return 'raises', 'kdt_match(K=%d) raised %s: %s' % (K, type(ex).__name__, ex)
    xi, yi = np.asarray(xi), np.asarray(yi)
    if xi.shape != yi.shape or xi.ndim != 1:
        return 'equally-long', 'index lists of shapes %s and %s' % (xi.shape, yi.shape)
    if len(set(xi.tolist())) != len(xi):
        return 'no-x-row-twice', 'a row of x is matched twice: %s' % xi.tolist()
    if len(set(yi.tolist())) != len(yi):
        return 'no-y-row-twice', 'a row of y is matched twice: x rows %s -> y rows %s' % (xi.tolist(), yi.tolist())
    if len(xi) and (xi.min() < 0 or xi.max() >= len(x) or yi.min() < 0 or yi.max() >= len(y)):
        return 'indices-in-range', 'index out of range: %s %s' % (xi.tolist(), yi.tolist())
    x2 = x if x.ndim == 2 else x[:, None]
    y2 = y if y.ndim == 2 else y[:, None]
    Dm = cdist(x2, y2)
    for a_, b_ in zip(xi, yi):
        d = Dm[a_, b_]
        kth = np.sort(Dm[a_])[min(K, len(y2)) - 1]
        if d > kth + 1e-9:
            return 'partner-among-K-nearest', 'x row %d matched to y row %d at distance %.4g, beyond its %d-th nearest neighbour (%.4g)' % (a_, b_, d, K, kth)
        if bound is not None and d > bound + 1e-12:
            return 'within-distance-bound', 'x row %d matched to y row %d at distance %.4g > bound %.4g' % (a_, b_, d, bound)
    return None


def replay(w):
    if w.get('kind') == 'unique_inds':
        msg = check_unique_inds(np.array(w['ar']))
        return (msg is not None), (msg or 'ok')
    if w.get('kind') == 'kdt':
        r = check_kdt(np.array(w['x']), np.array(w['y']), w['K'], w.get('bound'), w.get('dtype'))
        if r is None:
            return False, 'ok'
        return True, '%s (x=%s y=%s K=%d bound=%s)' % (r[1], np.round(np.array(w['x']), 3).tolist()[:8], np.round(np.array(w['y']), 3).tolist()[:8], w['K'], w.get('bound'))
    return False, 'unknown witness kind'


def refute(tier, seed, emit):
    ml = 5 if tier == 'quick' else 7
    emit.scope('_unique_inds on every integer array of length 1..%d over {0,1,2} and on permuted arrays: positions must refer to the original array; non-trivial = unsorted input' % ml, exhaustive=True)
    for t in seqs([0, 1, 2], ml):
        emit.case(('ui', t), nontrivial=list(t) != sorted(t), contract='_unique_inds')
        w = {'kind': 'unique_inds', 'ar': list(t)}
        ok, msg = replay(w)
        if ok:
            emit.violation('unique-inds-positions-in-original-array', w, msg)
        if emit.full:
            return
    r = rng(seed, 17)
    nr = 150 if tier == 'quick' else 20000
    emit.scope('%d seeded random kdt_match instances: 1..4 features, 1..%d rows each, arbitrary row order, with and without exact ties (integer-valued features, also stored as int64 / int32 / float32), K in 1..15, distance bounds {inf, moderate, tight}; plus every pair of 1-d instances with <= 3 rows over 3 values' % (nr, 60 if tier == 'quick' else 200), exhaustive=False)
    for k in range(nr):
        F = int(r.randint(1, 5))
        nx, ny = int(r.randint(1, 61 if tier == 'quick' else 201)), int(r.randint(1, 61 if tier == 'quick' else 201))
        K = int(r.choice([1, 1, 2, 3, 5, 8, 15]))
        ties = (k % 3 == 0)
        x = r.randint(0, 4, size=(nx, F)).astype(float) if ties else r.randn(nx, F)
        y = r.randint(0, 4, size=(ny, F)).astype(float) if ties else x[r.randint(0, nx, size=ny)] + 0.3 * r.randn(ny, F) if k % 2 else r.randn(ny, F)
        bound = [None, 1.0, 0.2][k % 3 if not ties else (k // 3) % 3]
        if F == 1 and k % 4 == 0:
            x, y = x[:, 0], y[:, 0]
        emit.case(('kdt', k), contract='kdt_match')
        dt = ['int64', 'float32', 'int32'][(k // 3) % 3] if (ties and k % 2 == 0) else None      # integer-valued tables stored as such
        res = check_kdt(x, y, K, bound, dt)
        if res is not None:
            emit.violation(res[0] + (':K=1' if K == 1 and res[0] == 'raises' else '') + (':%s-features' % dt if dt else ''), {'kind': 'kdt', 'x': x.tolist(), 'y': y.tolist(), 'K': K, 'bound': bound, 'dtype': dt}, res[1])
        if emit.full:
            return
    for nx_, ny_ in itertools.product((1, 2, 3), repeat=2):
        for xs in itertools.product((0.0, 1.0, 2.0), repeat=nx_):
            for ys in itertools.product((0.0, 1.0, 2.0), repeat=ny_):
                for K in (1, 2, 3):
                    emit.case(('kdt1d', xs, ys, K), contract='kdt_match')
                    res = check_kdt(np.array(xs), np.array(ys), K, None)
                    if res is not None:
                        emit.violation(res[0] + (':K=1' if K == 1 and res[0] == 'raises' else ''), {'kind': 'kdt', 'x': list(xs), 'y': list(ys), 'K': K, 'bound': None}, res[1])
        if emit.full:
            return
