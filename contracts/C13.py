"""C13 - good cycles are exactly those meeting the documented phase criteria.

Functions under contract: emd.cycles.is_good (mode='cycle', no waveform), emd.cycles.get_cycle_vector (good / mask paths;
ensure_2d and ensure_equal_dims rebuilt from emd/support.py and verified inline; is_good by its contract).

is_good(phi) (requires len >= 1):  c0 <=> phi strictly increasing;  c1 <=> 0 <= phi[0] <= edge;
                                   c2 <=> 2pi-edge <= phi[-1] <= 2pi;  c3 = True;  result = c0 & c1 & c2 & c3.
get_cycle_vector: with B = (0, wrap positions, N) and ACCEPT(k) <=> (not return_good or is_good(phi[B_k:B_k+1])) and
                  (no mask or mask true on the whole segment):  every sample of segment k carries
                  ACC(k) = #accepted segments before k  if ACCEPT(k)  else -1     (order-preserving renumbering).
Cycles.__init__: the function handed to compute_cycle_metric for the metric 'is_good' is, on every segment, the criteria with the
                  container's own edge tolerance; it is applied to the container's phase in 'cycle' mode and stored as int.
"""
import numpy as np
import z3
from contracts.common import *
from contracts import C12
from pyvc.verify import Unit

PROPERTY = 'C13'
LEVEL = 'proof'
FUNCTIONS = ['emd.cycles.is_good', 'emd.cycles.get_cycle_vector', 'emd.cycles.Cycles.__init__', 'emd._cycles_support.make_slice_cache', 'emd.support.ensure_2d (inlined)', 'emd.support.ensure_equal_dims (inlined)']
ASSUMPTIONS = C12.ASSUMPTIONS[:3] + [
    'units `unwrapped phase`: some sample lies beyond 2 pi, emd.utils.wrap_phase is a contract stub (same shape, values in [0, 2pi); congruence proved under C09), boundaries / criteria / renumbering are stated about the re-wrapped array',
    'single column in the unbounded proof; mask is a boolean vector of the same layout',
    'is_good is replaced by its contract at the call site in get_cycle_vector (and verified against it separately)',
    'Cycles.__init__ unit: get_cycle_vector, ensure_vector, the slice caches and compute_cycle_metric are contract stubs; compute_cycle_metric(name, vals, func) is taken to apply func to the samples of each cycle (C14 contract of get_cycle_stat_from_samples; the slice-cache route is in the bounded stand-in); at least one cycle',
]
NOT_COVERED = ["the route from compute_cycle_metric to the stored flag vector: the slice cache is proved to be the run decomposition of the label vector at its unit steps (consecutive non-empty slices covering [0, N), boundaries exactly at the steps); that slice k carries label k (a counting induction) and get_slice_stat_from_samples are bounded stand-in only",
               'waveform / control-point check (c3) and augmented mode: outside the property']

N = z3.Int('N')
STEP = z3.Real('phase_step')
EDGE = z3.Real('phase_edge')
ACC = z3.Function('ACC', I, I)
ACCEPT = z3.Function('ACCEPT', I, B)
KK = z3.Int('kk')


def good_spec(phi_at, lo, hi, edge):
    """is_good criteria on the slice [lo, hi) of a phase closure (z3 terms)"""
    i = z3.Int('gi')
    c0 = z3.ForAll([i], z3.Implies(z3.And(lo <= i, i < hi - 1), phi_at(i + 1) > phi_at(i)))
    c1 = z3.And(phi_at(lo) >= 0, phi_at(lo) <= edge)
    c2 = z3.And(phi_at(hi - 1) <= 2 * PI, phi_at(hi - 1) >= 2 * PI - edge)
    return z3.And(c0, c1, c2)


# ----------------------------------------------------------------------------- is_good

def _mk_is_good(ret_all):
    def mk(c):
        n = z3.Int('n')
        ph, P = vec('phi', n)
        for ax in npshim.pi_axioms():
            c.assume(ax)
        c.assume(n >= 1)
        return (ph,), dict(ret_all_checks=ret_all, phase_edge=SReal(EDGE))
    return mk


def _post_is_good(ret_all):
    def post(c, a, kw, r):
        ph = a[0]
        n = ph.shape_e[0]
        spec = good_spec(lambda i: ph.elem(i), z3.IntVal(0), n, EDGE)
        if ret_all:
            c.oblige('post:four-checks', r.shape_e[0] == 4, 'post')
            conj = z3.And(*[r.elem(z3.IntVal(q)) for q in range(4)])
            c.oblige('post:checks-iff-criteria', conj == spec, 'post')
            i = z3.Int('gi2')
            c.oblige('post:c0-monotone', r.elem(z3.IntVal(0)) == z3.ForAll([i], z3.Implies(z3.And(0 <= i, i < n - 1), ph.elem(i + 1) > ph.elem(i))), 'post')
            c.oblige('post:c1-start-edge', r.elem(z3.IntVal(1)) == z3.And(ph.elem(0) >= 0, ph.elem(0) <= EDGE), 'post')
            c.oblige('post:c2-end-edge', r.elem(z3.IntVal(2)) == z3.And(ph.elem(n - 1) <= 2 * PI, ph.elem(n - 1) >= 2 * PI - EDGE), 'post')
            c.oblige('post:c3-no-waveform', r.elem(z3.IntVal(3)), 'post')
        else:
            c.oblige('post:result-iff-criteria', lift(r) == spec, 'post')
    return post


# ----------------------------------------------------------------------------- get_cycle_vector, general

def is_good_stub(phase, waveform=None, ret_all_checks=False, phase_edge=None, mode='cycle'):
    """contract stub: requires len >= 1; ensures the four checks are the documented criteria"""
    c = core.C()
    n = phase.shape_e[0]
    c.oblige('is_good:requires-nonempty-segment', n >= 1, 'pre')
    spec0 = lambda: None
    i = z3.Int('gi%d' % next(core._buf_ids))
    edge = lift(phase_edge)
    # c0 is named, with an explicit witness for its negation (helps the solver on the rejecting path)
    c0 = c.fresh('mono', B)
    wit = c.fresh('monowit', I)
    o = phase.off[0] if phase.off is not None else z3.IntVal(0)     # quantify in base coordinates
    at = lambda q: z3.simplify(phase.elem(z3.simplify(q - o)))
    c.assume(z3.Implies(c0, z3.ForAll([i], z3.Implies(z3.And(o <= i, i < o + n - 1), at(i + 1) > at(i)))))
    c.assume(z3.Implies(z3.Not(c0), z3.And(o <= wit, wit < o + n - 1, at(wit + 1) <= at(wit))))
    c1 = z3.And(phase.elem(z3.IntVal(0)) >= 0, phase.elem(z3.IntVal(0)) <= edge)
    c2 = z3.And(phase.elem(n - 1) <= 2 * PI, phase.elem(n - 1) >= 2 * PI - edge)
    vals = [c0, c1, c2, z3.BoolVal(True)]
    if ret_all_checks:
        return npshim.array([SBool(v) for v in vals])
    return SBool(z3.And(*vals))


WRAPPED = z3.Function('wrapped_phase', I, I, R)


class _UtilsShim:
    """emd.utils.wrap_phase by contract (range [0, 2 pi); congruence is proved under C09): returns the array the harness has prepared, so that
    the criteria are stated about the very array the routine goes on to work with"""
    @staticmethod
    def wrap_phase(x):
        c = core.C()
        WA = c.ghost.get('WA')
        if WA is None:
            raise core.Unsupported('wrap_phase called in a unit that assumes a wrapped phase')
        i = z3.Int('wpi')
        # (the whole [N x 1] array, or its one column)
        at = (lambda q: x.elem(q, z3.IntVal(0))) if x.ndim == 2 else (lambda q: x.elem(q))
        c.oblige('wrap_phase:called-on-the-callers-phase', z3.And(x.shape_e[0] == N, z3.BoolVal(x.ndim in (1, 2)),
                                                                 z3.Implies(z3.And(0 <= i, i < N), at(i) == c.ghost['P'](i))), 'pre')
        return WA if x.ndim == 2 else WA[:, 0]


def _mk_general(return_good, with_mask, unwrapped=False):
    def mk(c):
        ph, P = vec('phase', N)
        s = z3.Int('s')
        for ax in npshim.pi_axioms():
            c.assume(ax)
        c.assume(N >= 1)
        c.assume(EDGE > 0)
        if unwrapped:
            # an UNWRAPPED phase: some sample lies beyond 2 pi, the routine re-wraps the array first (wrap_phase by contract) and every
            # criterion below is about the re-wrapped array
            s0 = z3.Int('beyond_2pi_at')
            c.assume(z3.And(0 <= s0, s0 < N, P(s0) > 2 * PI))
            c.ghost['extreme_hints'] = [(s0,), (s0, z3.IntVal(0))]      # (phase.max() is bounded below by this very sample: decides the wrap branch)
            q = z3.Int('wq')
            c.assume(z3.ForAll([s, q], z3.And(0 <= WRAPPED(s, q), WRAPPED(s, q) < 2 * PI), patterns=[WRAPPED(s, q)]))
            c.ghost['WA'] = SArr((N, z3.IntVal(1)), lambda a_, b_: WRAPPED(a_, b_), 'f')
            c.ghost['P'] = P
            P_in, P = P, (lambda i_: WRAPPED(i_, z3.IntVal(0)))
        else:
            c.assume(z3.ForAll([s], z3.And(0 <= P(s), P(s) <= 2 * PI), patterns=[P(s)]))
        kw = dict(return_good=return_good, phase_step=SReal(STEP), phase_edge=SReal(EDGE))
        M = None
        if with_mask:
            mk_, M = vec('mask', N, 'b')
            kw['mask'] = mk_
        # spec boundaries: the same np.where term the code computes (np.where is deterministic)
        with core.SpecMode():
            ph2 = c.ghost['WA'] if unwrapped else ph[:, None]
            W = npshim.where(npshim.abs(npshim.diff(ph2[:, 0])) > SReal(STEP))[0]
        Kw = W.shape_e[0]
        Bs = lambda k: z3.If(k == 0, z3.IntVal(0), z3.If(k <= Kw, W.elem(k - 1) + 1, N))
        nb = Kw + 1
        c.ghost['Bs'], c.ghost['nb'], c.ghost['Kw'] = Bs, nb, Kw
        # ACCEPT / ACC definitions
        sm = z3.Int('sm')

        def accept_def(k):
            parts = []
            if return_good:
                parts.append(good_spec(lambda i: P(i), Bs(k), Bs(k + 1), EDGE))
            if with_mask:
                parts.append(z3.ForAll([sm], z3.Implies(z3.And(Bs(k) <= sm, sm < Bs(k + 1)), M(sm))))
            return z3.And(*parts) if parts else z3.BoolVal(True)
        c.assume(z3.ForAll([KK], z3.Implies(z3.And(0 <= KK, KK < nb), ACCEPT(KK) == accept_def(KK)), patterns=[ACCEPT(KK)]))
        c.assume(ACC(0) == 0)
        c.assume(z3.ForAll([KK], z3.Implies(KK >= 0, ACC(KK + 1) == ACC(KK) + z3.If(ACCEPT(KK), 1, 0)), patterns=[ACC(KK + 1)]))
        return (ph,), kw
    return mk


def _cyc(e, s):
    return e.cycles[s, e.ii]


def _seg_label(k):
    return wrap(z3.If(ACCEPT(lift(k)), ACC(lift(k)), z3.IntVal(-1)))


_inner_general = [
    ('count', lambda e: e.count == wrap(ACC(lift(e.jj)))),
    ('jjrange', lambda e: and_(0 <= e.jj, e.jj <= e.inds.shape[0] - 1)),
    ('bounds', lambda e: forall(0, e.inds.shape[0], lambda k: e.inds[k] == wrap(core.C().ghost['Bs'](lift(k))))),
    ('nbounds', lambda e: e.inds.shape[0] == wrap(core.C().ghost['nb'] + 1)),
    ('done', lambda e: forall(0, e.jj, lambda k: forall(e.inds[k], e.inds[k + 1], lambda s: _cyc(e, s) == _seg_label(k)))),
    ('rest', lambda e: forall(e.inds[e.jj], e.phase.shape[0], lambda s: _cyc(e, s) == -1)),
]


def _post_general(c, a, kw, r):
    Bs, nb, Kw = c.ghost['Bs'], c.ghost['nb'], c.ghost['Kw']
    k = z3.Int('pk')
    s = z3.Int('ps')
    lab = lambda q: r.elem(q, z3.IntVal(0))
    c.oblige('post:shape', z3.And(r.shape_e[0] == N, r.shape_e[1] == 1), 'post')
    c.oblige('post:segment-labelled-iff-criteria-and-mask', z3.Implies(z3.And(Kw >= 1, 0 <= k, k < nb, Bs(k) <= s, s < Bs(k + 1)),
                                                                        lab(s) == z3.If(ACCEPT(k), ACC(k), z3.IntVal(-1))), 'post')
    c.oblige('post:no-wrap-no-cycles', z3.Implies(z3.And(Kw == 0, 0 <= s, s < N), lab(s) == -1), 'post')


def units(tier):
    import emd.cycles as EC
    U = []
    for ra in (True, False):
        U.append(Unit('is_good[ret_all_checks=%s]' % ra, 'emd/cycles.py', 'is_good', _mk_is_good(ra), _post_is_good(ra), module=EC,
                      observables=[{'kind': 'scalar', 'name': 'n'}, {'kind': 'scalar', 'name': 'phase_edge'}, {'kind': 'array', 'name': 'phi', 'shape': ['n']}]))
        U[-1].bound_scalars = [('n', 0)]
    for rg, wm in ((True, False), (True, True), (False, True)):
        u = Unit('get_cycle_vector[return_good=%s,mask=%s]' % (rg, 'given' if wm else 'None'), 'emd/cycles.py', 'get_cycle_vector',
                 _mk_general(rg, wm), _post_general, loops={1: {'inv': _inner_general}}, module=EC,
                 ns={'is_good': is_good_stub},
                 inline=[('emd/support.py', 'ensure_2d', {}), ('emd/support.py', 'ensure_equal_dims', {})],
                 observables=[{'kind': 'scalar', 'name': 'N'}, {'kind': 'scalar', 'name': 'phase_step'}, {'kind': 'scalar', 'name': 'phase_edge'},
                              {'kind': 'array', 'name': 'phase', 'shape': ['N']}, {'kind': 'array', 'name': 'mask', 'shape': ['N']}])
        u.bound_scalars = [('N', 1)]
        U.append(u)
    for rg, wm in ((True, False), (True, True)):
        U.append(Unit('get_cycle_vector[return_good=%s,mask=%s,unwrapped phase]' % (rg, 'given' if wm else 'None'), 'emd/cycles.py', 'get_cycle_vector',
                      _mk_general(rg, wm, unwrapped=True), _post_general, loops={1: {'inv': _inner_general}}, module=EC,
                      ns={'is_good': is_good_stub, 'utils': _UtilsShim},
                      inline=[('emd/support.py', 'ensure_2d', {}), ('emd/support.py', 'ensure_equal_dims', {})]))
    U.append(container_unit())
    U.append(slice_cache_unit())
    U += multi_units()
    return U


# ----------------------------------------------------------------------------- get_cycle_vector, general, several columns
#
# Same contract per column as the single-column units, over the column-indexed spec vocabulary of C12 (np.where as a function of the
# column): ACCEPT2(c, k) <=> segment k of column c meets the criteria (and the mask is true on it), ACC2(c, k) = #accepted before k.
ACC2 = z3.Function('ACC2', I, I, I)
ACCEPT2 = z3.Function('ACCEPT2', I, I, B)
MM = C12.M


def _mk_general_multi(return_good, with_mask):
    def mk(c):
        ph, P = mat('phase2', N, MM)
        s, q = z3.Ints('s q')
        for ax in npshim.pi_axioms():
            c.assume(ax)
        c.assume(z3.And(N >= 1, MM >= 1, EDGE > 0))
        c.assume(z3.ForAll([s, q], z3.And(0 <= P(s, q), P(s, q) <= 2 * PI), patterns=[P(s, q)]))
        KW, WW, PP = npshim.register_pred_where(c, C12._Wd, z3.If(N >= 1, N - 1, 0), 'wraps')
        c.ghost['KW'], c.ghost['WW'], c.ghost['PP'] = KW, WW, PP
        kw = dict(return_good=return_good, phase_step=SReal(STEP), phase_edge=SReal(EDGE))
        Mk = None
        if with_mask:
            mk_, Mk = vec('mask', N, 'b')
            kw['mask'] = mk_
        cq, kq, sm = z3.Ints('ac ak sm')

        # ACCEPT2(c, k) <=> criteria(c, k) and mask true on the segment - the definition in skolemised form: the universally quantified
        # parts follow from ACCEPT2, and a rejected segment comes with a witness of what fails (WITG: a non-increasing step, WITM: a masked sample)
        WITG = z3.Function('WITG', I, I, I)
        WITM = z3.Function('WITM', I, I, I)
        gi = z3.Int('agi')
        lo, hi = C12._Bc(cq, kq), C12._Bc(cq, kq + 1)
        rng_ = z3.And(0 <= cq, cq < MM, 0 <= kq, kq <= KW(cq))
        pos, neg = [], []
        if return_good:
            pos.append(z3.ForAll([gi], z3.Implies(z3.And(lo <= gi, gi < hi - 1), P(gi + 1, cq) > P(gi, cq))))
            pos.append(z3.And(P(lo, cq) >= 0, P(lo, cq) <= EDGE))
            pos.append(z3.And(P(hi - 1, cq) <= 2 * PI, P(hi - 1, cq) >= 2 * PI - EDGE))
            wg = WITG(cq, kq)
            neg.append(z3.And(lo <= wg, wg < hi - 1, P(wg + 1, cq) <= P(wg, cq)))
            neg.append(z3.Not(z3.And(P(lo, cq) >= 0, P(lo, cq) <= EDGE)))
            neg.append(z3.Not(z3.And(P(hi - 1, cq) <= 2 * PI, P(hi - 1, cq) >= 2 * PI - EDGE)))
        if with_mask:
            pos.append(z3.ForAll([sm], z3.Implies(z3.And(lo <= sm, sm < hi), Mk(sm))))
            wm_ = WITM(cq, kq)
            neg.append(z3.And(lo <= wm_, wm_ < hi, z3.Not(Mk(wm_))))
        c.assume(z3.ForAll([cq, kq], z3.Implies(z3.And(rng_, ACCEPT2(cq, kq)), z3.And(*pos) if pos else z3.BoolVal(True)), patterns=[ACCEPT2(cq, kq)]))
        c.assume(z3.ForAll([cq, kq], z3.Implies(z3.And(rng_, z3.Not(ACCEPT2(cq, kq))), z3.Or(*neg) if neg else z3.BoolVal(False)), patterns=[ACCEPT2(cq, kq)]))
        c.assume(z3.ForAll([cq], ACC2(cq, 0) == 0, patterns=[ACC2(cq, 0)]))
        c.assume(z3.ForAll([cq, kq], z3.Implies(kq >= 0, ACC2(cq, kq + 1) == ACC2(cq, kq) + z3.If(ACCEPT2(cq, kq), 1, 0)), patterns=[ACC2(cq, kq + 1)]))
        return (ph,), kw
    return mk


def _lab2(c_, k):
    return z3.If(ACCEPT2(c_, k), ACC2(c_, k), z3.IntVal(-1))


def _outer_general():
    cq, sq, kq = z3.Int('oc'), z3.Int('os'), z3.Int('ok')
    KWf = lambda: core.C().ghost['KW']
    return [
        ('shape', lambda e: and_(SBool(e.cycles.shape_e[0] == N), SBool(e.cycles.shape_e[1] == MM), SBool(e.phase.shape_e[0] == N), SBool(e.phase.shape_e[1] == MM))),
        ('iirange', lambda e: and_(0 <= e.ii, e.ii <= e.phase.shape[1])),
        ('done-columns:segment-labelled-iff-criteria-and-mask', lambda e: SBool(z3.ForAll([cq, kq, sq], z3.Implies(
            z3.And(0 <= cq, cq < lift(e.ii), KWf()(cq) >= 1, 0 <= kq, kq <= KWf()(cq), C12._Bc(cq, kq) <= sq, sq < C12._Bc(cq, kq + 1)), e.cycles.elem(sq, cq) == _lab2(cq, kq))))),
        ('done-columns:no-wrap-no-cycles', lambda e: SBool(z3.ForAll([cq, sq], z3.Implies(z3.And(0 <= cq, cq < lift(e.ii), KWf()(cq) == 0, 0 <= sq, sq < N), e.cycles.elem(sq, cq) == -1)))),
        ('later-columns-untouched', lambda e: SBool(z3.ForAll([cq, sq], z3.Implies(z3.And(lift(e.ii) <= cq, cq < MM, 0 <= sq, sq < N), e.cycles.elem(sq, cq) == -1)))),
    ]


def _inner_general_multi():
    cq, sq, kq = z3.Int('fc'), z3.Int('fs'), z3.Int('fk')
    lab = lambda e, s: e.cycles.elem(s, lift(e.ii))
    KWi = lambda e: core.C().ghost['KW'](lift(e.ii))
    return [
        ('count', lambda e: SBool(lift(e.count) == ACC2(lift(e.ii), lift(e.jj)))),
        ('jjrange', lambda e: and_(0 <= e.jj, e.jj <= e.inds.shape[0] - 1)),
        ('nbounds', lambda e: SBool(e.inds.shape_e[0] == KWi(e) + 2)),
        ('bounds', lambda e: SBool(z3.ForAll([kq], z3.Implies(z3.And(0 <= kq, kq <= KWi(e) + 1), e.inds.elem(kq) == C12._Bc(lift(e.ii), kq))))),
        ('done', lambda e: SBool(z3.ForAll([kq, sq], z3.Implies(z3.And(0 <= kq, kq < lift(e.jj), C12._Bc(lift(e.ii), kq) <= sq, sq < C12._Bc(lift(e.ii), kq + 1)),
                                                                  lab(e, sq) == _lab2(lift(e.ii), kq))))),
        ('rest', lambda e: SBool(z3.ForAll([sq], z3.Implies(z3.And(C12._Bc(lift(e.ii), lift(e.jj)) <= sq, sq < N), lab(e, sq) == -1)))),
        ('other-columns-unchanged', lambda e: SBool(z3.ForAll([cq, sq], z3.Implies(z3.And(0 <= cq, cq < MM, cq != lift(e.ii), 0 <= sq, sq < N),
                                                                               e.cycles.elem(sq, cq) == e.pre.cycles.elem(sq, cq))))),
        ('shape', lambda e: and_(SBool(e.cycles.shape_e[0] == N), SBool(e.cycles.shape_e[1] == MM))),
    ]


def _post_general_multi(c, a, kw, r):
    KW = c.ghost['KW']
    c0, k0, s0 = z3.Ints('c0 k0 s0')
    c.oblige('post:shape', z3.And(r.shape_e[0] == N, r.shape_e[1] == MM), 'post')
    inr = z3.And(0 <= c0, c0 < MM)
    c.oblige('post:segment-labelled-iff-criteria-and-mask', z3.Implies(z3.And(inr, KW(c0) >= 1, 0 <= k0, k0 <= KW(c0), C12._Bc(c0, k0) <= s0, s0 < C12._Bc(c0, k0 + 1)),
                                                                        r.elem(s0, c0) == _lab2(c0, k0)), 'post')
    c.oblige('post:no-wrap-no-cycles', z3.Implies(z3.And(inr, KW(c0) == 0, 0 <= s0, s0 < N), r.elem(s0, c0) == -1), 'post')


def multi_units():
    import emd.cycles as EC
    U = []
    for rg, wm in ((True, False), (True, True), (False, True)):
        u = Unit('get_cycle_vector[return_good=%s,mask=%s,multi-column]' % (rg, 'given' if wm else 'None'), 'emd/cycles.py', 'get_cycle_vector',
                 _mk_general_multi(rg, wm), _post_general_multi, loops={0: {'inv': _outer_general()}, 1: {'inv': _inner_general_multi()}}, module=EC,
                 ns={'is_good': is_good_stub},
                 inline=[('emd/support.py', 'ensure_2d', {}), ('emd/support.py', 'ensure_equal_dims', {})])
        U.append(u)
    return U


# ----------------------------------------------------------------------------- the container's flag (Cycles.__init__)

class _Opaque:
    def __init__(self, what):
        self.what = what


def _mk_container(c):
    """Cycles.__init__ on a symbolic phase vector and a symbolic edge tolerance; every collaborator is a contract stub.
    The object under construction is a bare instance whose compute_cycle_metric is the CONTRACT of that method for the call
    the property speaks about: the function handed over for the metric 'is_good' must be the documented criteria with the
    CONTAINER's edge tolerance, applied to the container's phase, in 'cycle' mode, stored as integers."""
    ph, P = vec('phase', N)
    for ax in npshim.pi_axioms():
        c.assume(ax)
    c.assume(N >= 1)
    c.assume(EDGE > 0)
    n = z3.Int('seg_n')
    seg, S = vec('segment', n)
    c.assume(n >= 1)
    calls = []

    class Container:
        def compute_cycle_metric(self, name, vals, func, dtype=None, mode='cycle'):
            calls.append(name)
            if name != 'is_good':
                return
            c.oblige('container:is_good-metric-computed-from-the-containers-phase', SBool(z3.BoolVal(vals is self.phase)), 'post')
            # ... and that phase is the VALIDATED vector (ensure_vector flattens a column [n x 1]; a phase kept two-dimensional would make
            # the monotonicity test of is_good run along the singleton axis)
            c.oblige('container:phase-is-the-validated-vector', SBool(z3.BoolVal(self.phase is c.ghost.get('validated_phase'))), 'post')
            c.oblige('container:is_good-metric-in-cycle-mode-stored-as-int', SBool(z3.BoolVal(mode == 'cycle' and (dtype is int or dtype is verify.s_int))), 'post')
            got = func(seg)
            spec = good_spec(lambda i: seg.elem(i), z3.IntVal(0), n, EDGE)
            c.oblige('container:flag-function-is-the-criteria-with-the-containers-edge', lift(got) == spec, 'post')

        def compute_cycle_timings(self):
            calls.append('timings')
    me = Container()
    c.ghost['calls'] = calls
    c.ghost['me'] = me
    use_cache = [True, False][c.choose(2, 'use_cache')]
    return (me, ph), dict(phase_edge=SReal(EDGE), phase_step=SReal(STEP), use_cache=use_cache)


def _post_container(c, a, kw, r):
    me = c.ghost['me']
    c.oblige('container:is_good-metric-is-computed', SBool(z3.BoolVal('is_good' in c.ghost['calls'])), 'post')
    c.oblige('container:keeps-its-edge', lift(me.phase_edge) == EDGE, 'post')


def _container_ns():
    def gcv_stub(phase, return_good=True, mask=None, imf=None, phase_step=None, phase_edge=None):
        # contract of get_cycle_vector as far as __init__ needs it: an (N, 1) integer label vector with labels >= -1
        lab, L = vec('labels', N, 'i')
        q = z3.Int('lq')
        core.C().assume(z3.ForAll([q], L(q) >= -1, patterns=[L(q)]))
        core.C().assume(L(0) >= 0)      # unit precondition: at least one cycle (a container without cycles has no flags; its log line divides numpy scalars by zero, which the engine would take for an exception)
        return core.SArr((N, z3.IntVal(1)), lambda i, j: L(i), 'i')
    cs = type('cs', (), {'make_slice_cache': staticmethod(lambda cv: _Opaque('slice_cache')),
                         'make_aug_slice_cache': staticmethod(lambda sc, ph: _Opaque('aug_slice_cache'))})
    def ensure_vector_stub(xs, names, fn):
        # contract of the validator (proved under C19): the same elements as a vector - a NEW object, so that "the validated phase" is identifiable
        v = xs[0][:]
        core.C().ghost['validated_phase'] = v
        return v
    return {'is_good': is_good_default_stub, 'get_cycle_vector': gcv_stub, 'ensure_vector': ensure_vector_stub, '_cycles_support': cs}


def is_good_default_stub(phase, waveform=None, ret_all_checks=False, phase_edge=None, mode='cycle'):
    """is_good by its contract, with the REAL default of phase_edge read from the source"""
    if phase_edge is None:
        import emd.cycles as EC
        phase_edge = real_defaults('emd/cycles.py', 'is_good', EC)['phase_edge']
    return is_good_stub(phase, waveform=waveform, ret_all_checks=ret_all_checks, phase_edge=phase_edge, mode=mode)


# ----------------------------------------------------------------------------- the slice cache the container computes its flag through

def _mk_slice_cache(c):
    """an all-cycles label vector as the container hands it over: starts at cycle 0, every step is 0 or +1 (no unlabelled samples)"""
    cv, CV = vec('cycle_vect', N, 'i')
    s = z3.Int('cs')
    c.assume(N >= 2)
    c.assume(CV(0) == 0)
    c.assume(z3.ForAll([s], z3.Implies(z3.And(0 <= s, s < N - 1), z3.Or(CV(s + 1) == CV(s), CV(s + 1) == CV(s) + 1)), patterns=[CV(s + 1)]))
    c.ghost['CV'] = CV
    return (cv,), {}


def _post_slice_cache(c, a, kw, ret):
    """the cache is the run decomposition of the label vector at its unit steps: consecutive, non-empty slices that cover [0, N) exactly,
    a boundary exactly where the label steps up, no step inside a slice"""
    CV = c.ghost['CV']
    if not isinstance(ret, core.SymList):
        c.oblige('post:one-slice-per-run', z3.BoolVal(False), 'post', note='result is not a list built over the run starts')
        return
    L = ret.n
    k, s = z3.Ints('sk ss')
    with core.SpecMode():
        sl = ret.at(SInt(k))
        sl1 = ret.at(SInt(k + 1))
        first = ret.at(SInt(z3.IntVal(0)))
        last = ret.at(SInt(L - 1))
    st, sp = lift(sl.start), lift(sl.stop)
    rng_k = z3.And(0 <= k, k < L)
    c.oblige('post:at-least-one-slice', L >= 1, 'post')
    c.oblige('post:first-slice-starts-at-sample-0', lift(first.start) == 0, 'post')
    c.oblige('post:last-slice-stops-at-the-number-of-samples', lift(last.stop) == N, 'post')
    c.oblige('post:slices-are-non-empty-and-in-range', z3.Implies(rng_k, z3.And(0 <= st, st < sp, sp <= N)), 'post')
    c.oblige('post:slices-are-consecutive', z3.Implies(z3.And(0 <= k, k < L - 1), sp == lift(sl1.start)), 'post')
    c.oblige('post:a-new-slice-starts-exactly-where-the-label-steps-up', z3.Implies(z3.And(0 <= k, k < L - 1), CV(sp) == CV(sp - 1) + 1), 'post')
    c.oblige('post:no-label-step-inside-a-slice', z3.Implies(z3.And(rng_k, st <= s, s < sp - 1), CV(s + 1) == CV(s)), 'post')


def slice_cache_unit():
    import emd._cycles_support as CS
    return Unit('make_slice_cache', 'emd/_cycles_support.py', 'make_slice_cache', _mk_slice_cache, _post_slice_cache, module=CS)


def container_unit():
    import emd.cycles as EC
    return Unit('Cycles.__init__[is_good flag]', 'emd/cycles.py', 'Cycles.__init__', _mk_container, _post_container, module=EC, ns=_container_ns())


def model_witness(unit_name, model):
    if unit_name.startswith('is_good'):
        ph = model_vec(model, 'phi')
        if ph is None:
            return None
        return {'kind': 'is_good', 'phase': [float(x) for x in ph], 'phase_edge': float(model.get('phase_edge', np.pi / 12))}
    ph = model_vec(model, 'phase')
    if ph is None:
        return None
    m = model_vec(model, 'mask') if 'mask=given' in unit_name else None
    return {'kind': 'good_cycles', 'phase': [float(x) for x in ph], 'phase_step': float(model.get('phase_step', 4.7)),
            'phase_edge': float(model.get('phase_edge', np.pi / 12)), 'return_good': 'return_good=True' in unit_name,
            'mask': None if m is None else [bool(x) for x in m]}


# ----------------------------------------------------------------------------- native contract

def ref_is_good(phi, edge):
    phi = np.asarray(phi, dtype=float)
    return bool(np.all(np.diff(phi) > 0) and 0 <= phi[0] <= edge and (2 * np.pi - edge) <= phi[-1] <= 2 * np.pi)


def ref_labels(ph, step, edge, return_good, mask):
    ph = np.asarray(ph, dtype=float)
    n = len(ph)
    wraps = [s for s in range(1, n) if abs(ph[s] - ph[s - 1]) > step]
    out = -np.ones(n, dtype=int)
    if not wraps:
        return out
    B = [0] + wraps + [n]
    cnt = 0
    for k in range(len(B) - 1):
        lo, hi = B[k], B[k + 1]
        ok = True
        if return_good and not ref_is_good(ph[lo:hi], edge):
            ok = False
        if mask is not None and not np.all(np.asarray(mask)[lo:hi]):
            ok = False
        if ok:
            out[lo:hi] = cnt
            cnt += 1
    return out


def replay(w):
    import emd.cycles as EC
    if w.get('kind') == 'is_good':
        ph = np.array(w['phase'])
        try:
            got = bool(EC.is_good(ph, phase_edge=w['phase_edge']))
            allc = EC.is_good(ph, phase_edge=w['phase_edge'], ret_all_checks=True)
        except Exception as ex:
            return True, 'is_good raised %s: %s' % (type(ex).__name__, ex)
        exp = ref_is_good(ph, w['phase_edge'])
        if got != exp or bool(np.all(allc)) != exp:
            return True, 'is_good(%s, edge=%.4f) = %s / checks %s, criteria say %s' % (np.round(ph, 4).tolist(), w['phase_edge'], got, allc.tolist(), exp)
        return False, 'is_good agrees with the criteria'
    if w.get('kind') == 'good_cycles':
        ph = np.array(w['phase'], dtype=float)
        kw = dict(return_good=w['return_good'], phase_step=w['phase_step'], phase_edge=w['phase_edge'])
        if w.get('mask') is not None:
            kw['mask'] = np.array(w['mask'], dtype=bool)
        try:
            # (a copy: the reference below is computed from `ph` itself.  `unwrapped`: the same phase handed over as a continuous, ever-growing
            #  phase - the routine wraps it itself - must give the same good cycles)
            out2 = EC.get_cycle_vector(np.unwrap(ph, axis=0) if w.get('unwrapped') else ph.copy(), **kw)
        except Exception as ex:
            return True, 'get_cycle_vector(%s, %s) raised %s: %s' % (np.round(ph, 3).tolist(), {k: v for k, v in kw.items() if k != 'mask'}, type(ex).__name__, ex)
        cols = ph.reshape(len(ph), -1)
        if out2.shape != cols.shape:
            return True, 'result shape %s for phase of shape %s' % (out2.shape, cols.shape)
        for cc in range(cols.shape[1]):          # every column is labelled on its own
            out = out2[:, cc]
            exp = ref_labels(cols[:, cc], w['phase_step'], w['phase_edge'], w['return_good'], kw.get('mask'))
            if out.tolist() != exp.tolist():
                return True, 'column %d: labels %s, criteria give %s (phase %s mask %s)' % (cc, out.tolist(), exp.tolist(), np.round(cols[:, cc], 3).tolist(), w.get('mask'))
        return False, 'labels agree with the criteria'
    if w.get('kind') == 'container_flag':
        ph = np.array(w['phase'], dtype=float)
        try:
            C = EC.Cycles(ph[:, None] if w.get('layout') == 'column' else ph, phase_edge=w['phase_edge'], use_cache=w['use_cache'])     # (a phase column [n x 1] is a documented vector layout)
            got = [int(v) for v in C.metrics['is_good']]
        except Exception as ex:
            return True, 'Cycles(...) raised %s: %s' % (type(ex).__name__, ex)
        allc = ref_labels(ph, 1.5 * np.pi, w['phase_edge'], False, None)
        exp = [int(ref_is_good(ph[allc == c], w['phase_edge'])) for c in range(allc.max() + 1)]
        if got != exp:
            return True, "metrics['is_good'] = %s, criteria give %s (use_cache=%s%s)" % (got, exp, w['use_cache'], ', phase given as a column [n x 1]' if w.get('layout') == 'column' else '')
        return False, 'container flag agrees'
    return False, 'unknown witness kind'


def refute(tier, seed, emit):
    import emd.cycles as EC
    maxlen = 5 if tier == 'quick' else 7
    step = 1.5 * np.pi
    # alphabet with values inside both edge tolerances
    alpha = [0.1, 1.6, 3.1, 4.7, 6.2]
    edges = [0.05, np.pi / 12, np.pi / 2] if tier == 'quick' else [0.05, np.pi / 12, np.pi / 4, np.pi / 2]
    emit.scope('every phase sequence of length 1..%d over %s x phase_edge in %s x masks {none, every single-False mask, block} x return_good {True, False}: labels compared with the criteria; container flag compared for cache on/off and for the phase given as a vector or as a column [n x 1]; non-trivial = at least one wrap' % (maxlen, alpha, [round(e, 3) for e in edges]), exhaustive=True)
    for t in seqs(alpha, maxlen):
        ph = np.array(t)
        n = len(ph)
        haswrap = bool((np.abs(np.diff(ph)) > step).any())
        masks = [None] + [[j != q for j in range(n)] for q in range(n)] + ([[j >= n // 2 for j in range(n)]] if n > 1 else [])
        for edge in edges:
            for mk in masks:
                for rg in (True, False):
                    if mk is None and not rg:
                        continue
                    emit.case((t, edge, tuple(mk) if mk else None, rg), nontrivial=haswrap, contract='get_cycle_vector')
                    w = {'kind': 'good_cycles', 'phase': list(t), 'phase_step': step, 'phase_edge': edge, 'return_good': rg, 'mask': mk}
                    ok, msg = replay(w)
                    if ok:
                        cl = 'good-iff-criteria-and-mask' if 'raised' not in msg else 'detection-never-fails:' + msg.split('raised ')[1].split(':')[0]
                        emit.violation(cl + (':mask' if mk is not None else ''), w, msg)
            if haswrap:
                for uc in (True, False):
                    for lay in ('vector', 'column'):
                        emit.case((t, edge, 'container', uc, lay), contract='Cycles.is_good')
                        w = {'kind': 'container_flag', 'phase': list(t), 'phase_edge': edge, 'use_cache': uc, 'layout': lay}
                        ok, msg = replay(w)
                        if ok:
                            emit.violation('container-flag-agrees-with-criteria' + ('' if lay == 'vector' else ':column-input'), w, msg)
        if emit.full:
            return
    # is_good itself on boundary values
    emit.scope('is_good on every sequence of length 1..4 over boundary values {0, edge, edge+eps, 2pi-edge-eps, 2pi-edge, 2pi, 2pi+eps, -eps}', exhaustive=True)
    for edge in edges:
        vals = [0.0, edge, edge + 1e-9, 2 * np.pi - edge - 1e-9, 2 * np.pi - edge, 2 * np.pi, 2 * np.pi + 1e-9, -1e-9]
        for t in seqs(vals, 3 if tier == 'quick' else 4):
            emit.case(('isgood', t, edge), contract='is_good')
            w = {'kind': 'is_good', 'phase': list(t), 'phase_edge': edge}
            ok, msg = replay(w)
            if ok:
                emit.violation('is_good-iff-criteria', w, msg)
        if emit.full:
            return
    # several columns: each column on its own (a good column next to a bad one, a wrap-free one, with and without a mask)
    import itertools as _it
    ml2 = 3 if tier == 'quick' else 4
    emit.scope('every pair of columns of length %d over %s x return_good=True x masks {none, one False}: every column labelled as if alone' % (ml2, alpha), exhaustive=True)
    cols = list(_it.product(alpha, repeat=ml2))
    for ca, cb in _it.product(cols, repeat=2):
        ph2 = np.array([ca, cb]).T
        for mk in (None, [True] * (ml2 - 1) + [False]):
            emit.case(('2col', ca, cb, mk is None), nontrivial=True, contract='get_cycle_vector')
            w = {'kind': 'good_cycles', 'phase': ph2.tolist(), 'phase_step': step, 'phase_edge': np.pi / 2, 'return_good': True, 'mask': mk}
            ok, msg = replay(w)
            if ok:
                emit.violation('good-iff-criteria-and-mask:multi-column', w, msg[:300])
        if emit.full:
            return
    r = rng(seed, 13)
    nlong = 20 if tier == 'quick' else 200
    emit.scope('%d seeded long synthetic phases with random / block masks, each also handed over unwrapped (values beyond 2pi)' % nlong)
    for k in range(nlong):
        n = int(r.randint(100, 800))
        f = np.abs(0.03 + 0.01 * r.randn() + 0.02 * np.cumsum(r.randn(n)) / np.sqrt(n))
        ph = (np.cumsum(2 * np.pi * f) + 0.02 * r.randn(n)) % (2 * np.pi)
        mk = None
        if k % 3 == 1:
            mk = (r.rand(n) > 0.02).tolist()
        elif k % 3 == 2:
            mk = np.ones(n, dtype=bool)
            a0 = int(r.randint(0, n - 10))
            mk[a0:a0 + int(r.randint(1, n // 3))] = False
            mk = mk.tolist()
        for unw in (False, True):
            emit.case(('long', k, unw), contract='get_cycle_vector')
            w = {'kind': 'good_cycles', 'phase': ph.tolist(), 'phase_step': step, 'phase_edge': np.pi / 12, 'return_good': True, 'mask': mk, 'unwrapped': unw}
            ok, msg = replay(w)
            if ok:
                emit.violation('good-iff-criteria-and-mask' + (':mask' if mk is not None else '') + (':unwrapped-phase' if unw else ''), w, msg[:300])
        if emit.full:
            return
