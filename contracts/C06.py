"""C06 - every sift option takes effect at the stage it configures, in every variant.

Modular option-forwarding contracts.  The option dictionaries supplied by the caller are tokens (distinct dict objects holding
distinctive values); each stage boundary is a stub with exactly the real callee's signature (read from the real source on every
run, so CPython binds positional/keyword arguments as it would for the real callee) that turns what it receives into obligations:

   sift, _sift_with_noise, ensemble_sift, complete_ensemble_sift, mask_sift (-> get_mask_freqs, get_next_imf_mask),
   sift_second_layer, mask_sift_second_layer                         : every call of the next stage receives the caller's
   imf_opts / envelope_opts / extrema_opts (and sift_thresh, max_imfs, noise_mode where they apply), on every path and
   for an arbitrary loop iteration (loops cut with a trivial invariant);
   get_next_imf -> interp_envelope : envelope_opts entries and extrema_opts on both the upper and the lower call;
   get_next_imf -> sd_stop / rilling_stop / fixed_stop : the supplied threshold(s), entry by entry, and the iteration count;
   interp_envelope -> get_padded_extrema : every entry of extrema_opts;
   get_padded_extrema -> _find_extrema / np.pad : parabolic flag; location / magnitude padding options and pad width on every padding round.
multiprocessing.Pool.starmap is the assumed contract [f(*a) for a in args] (real functools.partial is used).
"""
import copy
import functools
import os
import numpy as np
import z3
from contracts.common import *
from pyvc.verify import Unit

PROPERTY = 'C06'
LEVEL = 'proof'
FUNCTIONS = ['emd.sift.' + f for f in ('sift', '_sift_with_noise', 'ensemble_sift', 'complete_ensemble_sift', 'mask_sift', 'get_mask_freqs', 'get_next_imf_mask',
                                       'get_next_imf', 'interp_envelope', 'get_padded_extrema', 'sift_second_layer', 'mask_sift_second_layer')]
ASSUMPTIONS = [
    'assumed stdlib contract: multiprocessing.Pool(n).starmap(f, args) == [f(*a) for a in args] (order preserving); functools.partial is the real one',
    'stage callees are replaced by recording stubs with the real signatures and arbitrary results (modular verification: each callee is itself a unit here)',
    'numpy calls between the stages are the assumed shim contracts; loops are cut with the trivial invariant (the forwarding obligations sit in the loop body, checked for an arbitrary iteration)',
    'SiftConfig / get_func routes are covered under C18 (same recorder) and by the bounded stand-in here',
]
NOT_COVERED = ["mask_sift with mask_freqs='if' (instantaneous-frequency route through frequency_transform): bounded stand-in only"]

N = z3.Int('N')
SIFT = 'emd/sift.py'


def tokens():
    I_ = {'env_step_size': 0.75, 'max_iters': 77, 'stop_method': 'rilling', 'rilling_thresh': (0.04, 0.4, 0.04)}
    E_ = {'interp_method': 'mono_pchip'}
    X_ = {'pad_width': 3, 'parabolic_extrema': True, 'loc_pad_opts': {'mode': 'reflect', 'reflect_type': 'odd'}, 'mag_pad_opts': {'mode': 'median', 'stat_length': 2}}
    return I_, E_, X_


def _same(a, b):
    """the option reaches the stage unchanged (same object, or an equal copy)"""
    return a is b or (a is not None and b is not None and a == b and type(a) is type(b))


def _obl(c, name, ok, note=''):
    c.oblige(name, z3.BoolVal(bool(ok)), 'post', note=note)


def _sig(c):
    X, F = vec('X', N)
    c.assume(N >= 4)
    return X


def _fresh_cols(name, n, ncols):
    f = core.C().fresh_fun(name, I, I, R)
    return SArr((n, lift(ncols)), lambda i, j: f(i, j), 'f')


# ----- recorders ---------------------------------------------------------------------------------

def rec_get_next_imf(c, who, expect_imf='token', expect_env=True):
    import emd.sift as ES
    I_, E_, X_ = c.ghost['tok']

    def handler(b):
        c2 = core.C()
        c2.ghost['n_gni'] = c2.ghost.get('n_gni', 0) + 1
        if expect_env:
            _obl(c2, '%s->get_next_imf:envelope_opts-forwarded' % who, _same(b['envelope_opts'], E_), 'received %r' % (b['envelope_opts'],))
            _obl(c2, '%s->get_next_imf:extrema_opts-forwarded' % who, _same(b['extrema_opts'], X_), 'received %r' % (b['extrema_opts'],))
        if expect_imf == 'token':
            dfl = real_defaults(SIFT, 'get_next_imf', ES)
            for k, v in I_.items():
                _obl(c2, '%s->get_next_imf:imf_opts[%s]-forwarded' % (who, k), _same(b[k], v), 'received %r' % (b[k],))
            for k in ('energy_thresh', 'sd_thresh'):
                if k not in I_:
                    _obl(c2, '%s->get_next_imf:%s-left-at-its-default' % (who, k), _same(b[k], dfl[k]) or b[k] == dfl[k])
        elif expect_imf == 'default':
            _obl(c2, '%s->get_next_imf:documented-default-imf_opts' % who, b['env_step_size'] == 1 and b['sd_thresh'] == .1 and b['stop_method'] == 'sd')
        n = b['X'].shape_e[0]
        f = c2.fresh_fun('imf', I, R)
        return SArr((n, 1), lambda i, j: f(i), 'f'), SBool(c2.fresh('cont', B))
    return sig_stub(SIFT, 'get_next_imf', handler, ES)


def rec_sift(c, who, ncols=2):
    import emd.sift as ES
    I_, E_, X_ = c.ghost['tok']

    def handler(b):
        c2 = core.C()
        c2.ghost['n_sift'] = c2.ghost.get('n_sift', 0) + 1
        _obl(c2, '%s->sift:imf_opts-forwarded' % who, _same(b['imf_opts'], I_), 'received imf_opts=%r verbose=%r' % (b['imf_opts'], b['verbose']))
        _obl(c2, '%s->sift:envelope_opts-forwarded' % who, _same(b['envelope_opts'], E_), 'received %r' % (b['envelope_opts'],))
        _obl(c2, '%s->sift:extrema_opts-forwarded' % who, _same(b['extrema_opts'], X_), 'received %r' % (b['extrema_opts'],))
        _obl(c2, '%s->sift:verbose-is-not-an-options-dict' % who, b['verbose'] is None or isinstance(b['verbose'], str), 'verbose=%r' % (b['verbose'],))
        exp = c2.ghost.get('expect_sift', {})
        for k, v in exp.items():
            _obl(c2, '%s->sift:%s-forwarded' % (who, k), b[k] is v or b[k] == v, 'received %r' % (b[k],))
        n = b['X'].shape_e[0]
        k = b['max_imfs'] if isinstance(b['max_imfs'], int) else ncols
        return _fresh_cols('imfs', n, k)
    return sig_stub(SIFT, 'sift', handler, ES)


def rec_sift_with_noise(c, who):
    import emd.sift as ES
    I_, E_, X_ = c.ghost['tok']

    def handler(b):
        c2 = core.C()
        c2.ghost['n_swn'] = c2.ghost.get('n_swn', 0) + 1
        _obl(c2, '%s->_sift_with_noise:imf_opts-forwarded' % who, _same(b['imf_opts'], I_), 'received %r' % (b['imf_opts'],))
        _obl(c2, '%s->_sift_with_noise:envelope_opts-forwarded' % who, _same(b['envelope_opts'], E_), 'received %r' % (b['envelope_opts'],))
        _obl(c2, '%s->_sift_with_noise:extrema_opts-forwarded' % who, _same(b['extrema_opts'], X_), 'received %r' % (b['extrema_opts'],))
        for k, v in c2.ghost.get('expect_swn', {}).items():
            _obl(c2, '%s->_sift_with_noise:%s-forwarded' % (who, k), b[k] is v or b[k] == v, 'received %r' % (b[k],))
        n = b['X'].shape_e[0]
        k = b['max_imfs'] if isinstance(b['max_imfs'], int) else 2
        return _fresh_cols('imfs', n, k)
    return sig_stub(SIFT, '_sift_with_noise', handler, ES)


def _trivial_loop(decl=None):
    return {'inv': [('true', lambda e: True)], 'decl': decl or {}}


def _decl_imf(e):
    c = core.C()
    k = c.fresh('ncols', I)
    c.assume(k >= 1)
    return _fresh_cols('imf', e.X.shape_e[0], k)


def _post_called(key, name):
    def post(c, a, kw, r):
        _obl(c, 'post:%s' % name, c.ghost.get(key, 0) >= 1 or c.ghost.get('in_loop_ok', False))
    return post


# ----- units --------------------------------------------------------------------------------------

def units(tier):
    import emd.sift as ES
    U = []
    inl_support = [('emd/support.py', 'ensure_1d_with_singleton', {}), ('emd/support.py', 'ensure_2d', {}), (SIFT, '_nsamples_warn', {})]

    def add(name, qual, mk, ns_fn, loops=None, inline=(), post=None, raises=None, wrap=None):
        def mk2(c):
            c.ghost['tok'] = tokens()
            return mk(c)

        def call(f, c, a, kw):
            f.__globals__.update(ns_fn(c))
            f.__globals__['mp'] = MPShim
            f.__globals__['functools'] = functools
            return f(*a, **kw)
        u = Unit(name, SIFT, qual, mk2, post, loops=loops or {}, module=ES, inline=inl_support + list(inline), wrap_call=call, raises=raises or {})
        U.append(u)
        return u

    # sift -> get_next_imf
    def mk_sift(c):
        I_, E_, X_ = c.ghost['tok']
        return (_sig(c),), dict(imf_opts=I_, envelope_opts=E_, extrema_opts=X_)
    add('sift[direct]', 'sift', mk_sift, lambda c: {'get_next_imf': rec_get_next_imf(c, 'sift')}, loops={0: _trivial_loop({'imf': _decl_imf})})

    def mk_sift_d(c):
        I_, E_, X_ = c.ghost['tok']
        return (_sig(c),), dict(envelope_opts=E_, extrema_opts=X_)
    add('sift[imf_opts omitted]', 'sift', mk_sift_d, lambda c: {'get_next_imf': rec_get_next_imf(c, 'sift', expect_imf='default')}, loops={0: _trivial_loop({'imf': _decl_imf})})

    # _sift_with_noise -> sift
    for mode in ('single', 'flip'):
        def mk_swn(c, mode=mode):
            I_, E_, X_ = c.ghost['tok']
            X = _sig(c)[:, None]
            c.ghost['expect_sift'] = {'sift_thresh': 1e-7, 'max_imfs': 3}
            return (X,), dict(noise_scaling=0.1, noise_mode=mode, sift_thresh=1e-7, max_imfs=3, job_ind=None, imf_opts=I_, envelope_opts=E_, extrema_opts=X_)
        add('_sift_with_noise[%s]' % mode, '_sift_with_noise', mk_swn, lambda c: {'sift': rec_sift(c, '_sift_with_noise')},
            post=lambda c, a, kw, r, mode=mode: _obl(c, 'post:sift-called-for-each-sign', c.ghost.get('n_sift', 0) == (2 if mode == 'flip' else 1)))

    # ensemble_sift -> starmap(_sift_with_noise)
    def mk_ens(c):
        I_, E_, X_ = c.ghost['tok']
        c.ghost['expect_swn'] = {'noise_mode': 'flip', 'sift_thresh': 1e-7, 'max_imfs': 2}
        return (_sig(c),), dict(nensembles=2, noise_mode='flip', nprocesses=2, sift_thresh=1e-7, max_imfs=2, imf_opts=I_, envelope_opts=E_, extrema_opts=X_)
    add('ensemble_sift', 'ensemble_sift', mk_ens, lambda c: {'_sift_with_noise': rec_sift_with_noise(c, 'ensemble_sift')},
        post=lambda c, a, kw, r: _obl(c, 'post:one-job-per-ensemble-member', c.ghost.get('n_swn', 0) == 2))

    # complete_ensemble_sift -> starmap(_sift_with_noise), starmap(sift)
    def mk_ce(c):
        I_, E_, X_ = c.ghost['tok']
        c.ghost['expect_swn'] = {'noise_mode': 'single', 'sift_thresh': 1e-7}
        return (_sig(c),), dict(nensembles=2, nprocesses=2, sift_thresh=1e-7, max_imfs=3, imf_opts=I_, envelope_opts=E_, extrema_opts=X_)

    def ns_ce(c):
        def fe(x, **kw):
            k = core.C().fresh('npk', I)
            core.C().assume(k >= 0)
            f = core.C().fresh_fun('pk', I, I)
            return SArr((k,), lambda i: f(i), 'i'), SArr((k,), lambda i: z3.ToReal(f(i)), 'f')
        return {'_sift_with_noise': rec_sift_with_noise(c, 'complete_ensemble_sift'), 'sift': rec_sift(c, 'complete_ensemble_sift', ncols=1), '_find_extrema': fe}
    add('complete_ensemble_sift', 'complete_ensemble_sift', mk_ce, ns_ce,
        loops={0: _trivial_loop({'imf': _decl_imf, 'noise': lambda e: _fresh_cols('noise', e.X.shape_e[0], 2)})})

    # mask_sift -> get_mask_freqs -> get_next_imf ; -> get_next_imf_mask -> partial(get_next_imf)
    for src in ('zc', 0.2, 'list'):
        def mk_ms(c, src=src):
            I_, E_, X_ = c.ghost['tok']
            mf = npshim.array([0.2, 0.1, 0.05]) if src == 'list' else src      # user-specified frequencies (as an array: indexable by a symbolic layer)
            return (_sig(c),), dict(mask_freqs=mf, nphases=2, nprocesses=2, max_imfs=3, imf_opts=I_, envelope_opts=E_, extrema_opts=X_)

        def ns_ms(c):
            def zcc(x):
                return npshim.array([[SInt(core.C().fresh('nzc', I))]])
            return {'get_next_imf': rec_get_next_imf(c, 'mask_sift'), 'zero_crossing_count': zcc}
        ms_loop = _trivial_loop({'imf': _decl_imf})
        ms_loop['inv'] = [('layer-bounded', lambda e: and_(e.imf_layer >= 0, implies(e.continue_sift, lambda: e.imf_layer < e.max_imfs)))]
        add('mask_sift[mask_freqs=%s]' % src, 'mask_sift', mk_ms, ns_ms, loops={0: ms_loop},
            inline=[(SIFT, 'get_mask_freqs', {}), (SIFT, 'get_next_imf_mask', {})])

    # get_next_imf -> interp_envelope (upper and lower)
    for rule in ('sd', 'rilling', 'fixed'):
        def mk_gni(c, rule=rule):
            I_, E_, X_ = c.ghost['tok']
            return (_sig(c),), dict(stop_method=rule, max_iters=7, sd_thresh=0.37, rilling_thresh=(0.04, 0.4, 0.011), env_step_size=0.75, envelope_opts=E_, extrema_opts=X_)

        def ns_gni(c):
            I_, E_, X_ = c.ghost['tok']

            def h(b):
                c2 = core.C()
                c2.ghost.setdefault('modes', []).append(b['mode'])
                _obl(c2, 'get_next_imf->interp_envelope:interp_method-forwarded', b['interp_method'] == E_['interp_method'], 'received %r' % (b['interp_method'],))
                _obl(c2, 'get_next_imf->interp_envelope:extrema_opts-forwarded', _same(b['extrema_opts'], X_), 'received %r' % (b['extrema_opts'],))
                _obl(c2, 'get_next_imf->interp_envelope:mode-is-upper-or-lower', b['mode'] in ('upper', 'lower'))
                if c2.branch(c2.fresh('has_env', B)):
                    f = c2.fresh_fun('env', I, R)
                    return SArr((b['X'].shape_e[0],), lambda i: f(i), 'f')
                return None

            # the stopping rules receive the thresholds the caller supplied (distinct token values), each in its own slot
            def h_sd(b):
                c2 = core.C()
                _obl(c2, 'get_next_imf->sd_stop:sd_thresh-forwarded', b['sd'] == 0.37, 'received sd=%r' % (b['sd'],))
                return SBool(c2.fresh('stop', B)), None

            def h_rill(b):
                c2 = core.C()
                got = (b['sd1'], b['sd2'], b['tol'])
                _obl(c2, 'get_next_imf->rilling_stop:rilling_thresh-forwarded-entry-by-entry', got == (0.04, 0.4, 0.011), 'received (sd1, sd2, tol)=%r' % (got,))
                return SBool(c2.fresh('stop', B)), None

            def h_fixed(b):
                c2 = core.C()
                _obl(c2, 'get_next_imf->fixed_stop:max_iters-forwarded', b['max_iters'] == 7, 'received max_iters=%r' % (b['max_iters'],))
                return SBool(c2.fresh('stop', B))
            return {'interp_envelope': sig_stub(SIFT, 'interp_envelope', h, ES), 'sd_stop': sig_stub(SIFT, 'sd_stop', h_sd, ES),
                    'rilling_stop': sig_stub(SIFT, 'rilling_stop', h_rill, ES), 'fixed_stop': sig_stub(SIFT, 'fixed_stop', h_fixed, ES),
                    'EMDSiftCovergeError': ES.EMDSiftCovergeError}
        add('get_next_imf[%s]' % rule, 'get_next_imf', mk_gni, ns_gni, loops={0: _trivial_loop()}, raises={ES.EMDSiftCovergeError: lambda c, a, kw, ex: None})

    # interp_envelope -> get_padded_extrema
    for method in ('splrep', 'mono_pchip', 'pchip'):
        for mode in ('upper', 'lower', 'combined'):
            if tier == 'quick' and method != 'splrep' and mode != 'upper':
                continue

            def mk_ie(c, method=method, mode=mode):
                I_, E_, X_ = c.ghost['tok']
                return (_sig(c),), dict(mode=mode, interp_method=method, extrema_opts=X_)

            def ns_ie(c, mode=mode):
                I_, E_, X_ = c.ghost['tok']

                def h(b):
                    c2 = core.C()
                    c2.ghost['n_gpe'] = c2.ghost.get('n_gpe', 0) + 1
                    for k, v in X_.items():
                        _obl(c2, 'interp_envelope->get_padded_extrema:extrema_opts[%s]-forwarded' % k, _same(b[k], v), 'received %r' % (b[k],))
                    _obl(c2, 'interp_envelope->get_padded_extrema:mode-matches', b['mode'] == {'upper': 'peaks', 'lower': 'troughs', 'combined': 'abs_peaks'}[mode])
                    if c2.branch(c2.fresh('has_ext', B)):
                        k = c2.fresh('next', I)
                        c2.assume(k >= 2)
                        L = c2.fresh_fun('locs', I, I)
                        P = c2.fresh_fun('pks', I, R)
                        qi, qj = z3.Ints('qi qj')
                        c2.assume(z3.ForAll([qi, qj], z3.Implies(z3.And(0 <= qi, qi < qj, qj < k), L(qi) < L(qj)), patterns=[z3.MultiPattern(L(qi), L(qj))]))
                        return SArr((k,), lambda i: L(i), 'i'), SArr((k,), lambda i: P(i), 'f')
                    return None, None

                class Interp:
                    @staticmethod
                    def splrep(locs, pks):
                        return ('tck', locs, pks)

                    @staticmethod
                    def splev(t, f):
                        g = core.C().fresh_fun('spl', I, R)
                        return SArr(t.shape_e, lambda i: g(i), 'f')

                    @staticmethod
                    def PchipInterpolator(locs, pks):
                        def ev(t):
                            g = core.C().fresh_fun('pch', I, R)
                            return SArr(t.shape_e, lambda i: g(i), 'f')
                        return ev
                    pchip = PchipInterpolator
                return {'get_padded_extrema': sig_stub(SIFT, 'get_padded_extrema', h, ES), 'interp': Interp}
            add('interp_envelope[%s,%s]' % (method, mode), 'interp_envelope', mk_ie, ns_ie, raises={ValueError: lambda c, a, kw, ex: None},
                post=lambda c, a, kw, r: _obl(c, 'post:extrema-stage-called-once', c.ghost.get('n_gpe', 0) == 1))

    # get_padded_extrema -> np.pad : the caller's location / magnitude padding options and pad width on EVERY padding round
    def _role(arr):
        """'L' / 'M' if the array derives from the extrema locations / magnitudes (by the spec function its elements are built on)"""
        seen, todo, roles = set(), [z3.simplify(arr.elem(*[z3.Int('rq%d' % d) for d in range(arr.ndim)]))], set()
        while todo:
            t = todo.pop()
            if t.get_id() in seen:
                continue
            seen.add(t.get_id())
            if z3.is_app(t):
                nm = t.decl().name()
                if nm.startswith('roleL'):
                    roles.add('L')
                if nm.startswith('roleM'):
                    roles.add('M')
                todo.extend(t.children())
            elif z3.is_quantifier(t):
                todo.append(t.body())
        return roles.pop() if len(roles) == 1 else None

    def _role_arr(c2, role, n, kind):
        f = c2.fresh_fun('role%s' % role, I, core.SORT[kind])
        return SArr((n,), lambda i: f(i), kind)

    for gmode in ('peaks', 'troughs', 'abs_peaks'):
        for supplied in (True, False):
            if tier == 'quick' and gmode != 'peaks' and not supplied:
                continue

            def mk_gpe(c, gmode=gmode, supplied=supplied):
                I_, E_, X_ = c.ghost['tok']
                kw = dict(pad_width=X_['pad_width'], mode=gmode, parabolic_extrema=X_['parabolic_extrema'])
                if supplied:
                    kw.update(loc_pad_opts=X_['loc_pad_opts'], mag_pad_opts=X_['mag_pad_opts'])
                c.ghost['pads'] = []
                return (_sig(c),), kw

            def ns_gpe(c, supplied=supplied):
                I_, E_, X_ = c.ghost['tok']
                want = {'L': dict(X_['loc_pad_opts']) if supplied else {'mode': 'reflect', 'reflect_type': 'odd'},
                        'M': dict(X_['mag_pad_opts']) if supplied else {'mode': 'median', 'stat_length': 1}}

                def fe(b):
                    c2 = core.C()
                    _obl(c2, 'get_padded_extrema->_find_extrema:parabolic_extrema-forwarded', b['parabolic_extrema'] == X_['parabolic_extrema'])
                    k = c2.fresh('next', I)
                    c2.assume(k >= 0)
                    c2.ghost['next'] = k
                    return _role_arr(c2, 'L', k, 'f'), _role_arr(c2, 'M', k, 'f')

                def pad(a, pad_width, mode='constant', **kw):
                    c2 = core.C()
                    role = _role(a)
                    if role is None:
                        raise core.Unsupported('np.pad on an array that is neither the extrema locations nor their magnitudes')
                    nm = {'L': 'location', 'M': 'magnitude'}[role]
                    c2.ghost['pads'].append(role)
                    got = dict(kw, mode=mode)
                    if supplied:
                        _obl(c2, 'get_padded_extrema->np.pad:%s-padding-options-as-supplied' % nm, got == want[role], 'np.pad received %r, the supplied options are %r' % (got, want[role]))
                    else:       # nothing supplied: whatever default is in force, it is the same on every padding round
                        first = c2.ghost.setdefault('first_' + role, got)
                        _obl(c2, 'get_padded_extrema->np.pad:%s-padding-options-the-same-on-every-round' % nm, got == first, 'np.pad received %r after %r' % (got, first))
                    k = c2.ghost['next']
                    c2.oblige('get_padded_extrema->np.pad:pad-width-is-min(pad_width, number of extrema)', lift(pad_width) == z3.If(k < X_['pad_width'], k, z3.IntVal(X_['pad_width'])), 'post')
                    return _role_arr(c2, role, a.shape_e[0] + 2 * lift(pad_width), 'f')

                class NP:
                    def __getattr__(self, nme):
                        return getattr(npshim, nme)
                npo = NP()
                npo.pad = pad
                return {'_find_extrema': sig_stub(SIFT, '_find_extrema', fe, ES), 'np': npo}

            def post_gpe(c, a, kw, r):
                if r[0] is None:
                    return
                k = c.ghost['next']
                pads = c.ghost['pads']
                _obl(c, 'post:locations-and-magnitudes-padded-equally-often', pads.count('L') == pads.count('M') and len(pads) >= 2)
            def _padded(role):
                def mkd(e):
                    c2 = core.C()
                    n = c2.fresh('npad' + role, I)
                    c2.assume(n >= 1)      # (a padded extrema array is never empty: at least two extrema plus the padding)
                    return _role_arr(c2, role, n, 'f')
                return mkd
            decl = {'ret_max_locs': _padded('L'), 'ret_max_ext': _padded('M')}
            add('get_padded_extrema[%s,%s]' % (gmode, 'pad options supplied' if supplied else 'pad options omitted'), 'get_padded_extrema', mk_gpe, ns_gpe,
                loops={0: _trivial_loop(decl)}, post=post_gpe, raises={ValueError: lambda c, a, kw, ex: None})

    # second-layer sifts -> sift_func / mask_sift with the caller's sift_args
    def mk_sl(c):
        T = z3.Int('T')
        c.assume(T >= 4)
        IA, F = mat('IA', T, 2)
        args = {'imf_opts': c.ghost['tok'][0], 'envelope_opts': c.ghost['tok'][1], 'extrema_opts': c.ghost['tok'][2], 'sift_thresh': 1e-7}
        c.ghost['expect_sift'] = {'sift_thresh': 1e-7}
        c.ghost['sl_args'] = args
        return (IA,), dict(sift_args=args)

    def ns_sl(c):
        return {'sift': rec_sift(c, 'sift_second_layer')}

    def call_sl(f, c, a, kw):
        f.__globals__.update(ns_sl(c))
        return f(*a, **dict(kw, sift_func=f.__globals__['sift']))
    u = Unit('sift_second_layer', SIFT, 'sift_second_layer', lambda c: (c.ghost.__setitem__('tok', tokens()), mk_sl(c))[1],
             lambda c, a, kw, r: _obl(c, 'post:one-sift-per-first-level-imf', c.ghost.get('n_sift', 0) == 2), module=ES, inline=inl_support, wrap_call=call_sl)
    U.append(u)

    def ns_msl(c):
        I_, E_, X_ = c.ghost['tok']

        def h(b):
            c2 = core.C()
            c2.ghost['n_ms'] = c2.ghost.get('n_ms', 0) + 1
            _obl(c2, 'mask_sift_second_layer->mask_sift:imf_opts-forwarded', _same(b['imf_opts'], I_))
            _obl(c2, 'mask_sift_second_layer->mask_sift:envelope_opts-forwarded', _same(b['envelope_opts'], E_))
            _obl(c2, 'mask_sift_second_layer->mask_sift:extrema_opts-forwarded', _same(b['extrema_opts'], X_))
            return _fresh_cols('imf2', b['X'].shape_e[0], 2)
        return {'mask_sift': sig_stub(SIFT, 'mask_sift', h, ES)}

    def call_msl(f, c, a, kw):
        f.__globals__.update(ns_msl(c))
        return f(*a, **kw)

    def mk_msl(c):
        c.ghost['tok'] = tokens()
        (IA,), kw = mk_sl(c)
        return (IA, npshim.array([0.25, 0.125, 0.0625])), kw
    U.append(Unit('mask_sift_second_layer', SIFT, 'mask_sift_second_layer', mk_msl,
                  lambda c, a, kw, r: _obl(c, 'post:one-mask_sift-per-first-level-imf', c.ghost.get('n_ms', 0) == 2), module=ES, inline=inl_support, wrap_call=call_msl))
    # the partial-function route: get_func binds every option of the configuration AS IT IS when the callable is asked for - also the second time
    # (the C18 units of get_func, re-run here; imported lazily, C18 builds on this module)
    from contracts import C18
    U += [u for u in C18.units(tier) if u.name.startswith('get_func')]
    return U


def model_witness(unit_name, model):
    v = unit_name.split('[')[0]
    if v in ('get_next_imf', 'interp_envelope', 'get_padded_extrema'):
        return None
    return {'kind': 'trace', 'variant': v if v != '_sift_with_noise' else 'ensemble_sift', 'route': 'kwargs', 'nprocesses': 1}


# ----------------------------------------------------------------------------- native contract: effective-kwargs trace (fork-inherited)

def _x(n=256):
    t = np.linspace(0, 1, n)
    return np.sin(2 * np.pi * 19 * t) * (1 + 0.4 * np.sin(2 * np.pi * 2 * t)) + 0.7 * np.sin(2 * np.pi * 5 * t + 0.3) + 0.3 * t


VARIANTS = {
    'sift': lambda S, x, o, npr: S.sift(x, max_imfs=2, **o),
    'mask_sift': lambda S, x, o, npr: S.mask_sift(x, max_imfs=2, nprocesses=npr, **o),
    'mask_sift[float]': lambda S, x, o, npr: S.mask_sift(x, max_imfs=2, mask_freqs=0.1, nprocesses=npr, **o),
    'ensemble_sift': lambda S, x, o, npr: S.ensemble_sift(x, max_imfs=2, nensembles=2, nprocesses=npr, **o),
    'ensemble_sift[flip]': lambda S, x, o, npr: S.ensemble_sift(x, max_imfs=2, nensembles=2, noise_mode='flip', nprocesses=npr, **o),
    'complete_ensemble_sift': lambda S, x, o, npr: S.complete_ensemble_sift(x, max_imfs=2, nensembles=2, nprocesses=npr, **o)[0],
    'sift_second_layer': lambda S, x, o, npr: S.sift_second_layer(np.c_[np.abs(x) + 1, np.abs(x[::-1]) + 1], sift_args=dict(o, max_imfs=2)),
    'mask_sift_second_layer': lambda S, x, o, npr: S.mask_sift_second_layer(np.c_[np.abs(x) + 1, np.abs(x[::-1]) + 1], np.array([0.1, 0.05, 0.02]), sift_args=dict(o, max_imfs=2, nprocesses=npr)),
}


def trace_call(variant, opts, route, nprocesses):
    """Run one variant with instrumented stage functions (monkeypatched in the parent: forked pool workers inherit them).
    Returns the list of (stage, effective kwargs) seen anywhere (parent or workers) and the output."""
    import multiprocessing as mp
    import emd
    S = emd.sift
    import tempfile
    fd_, logpath = tempfile.mkstemp(prefix='c06trace', dir=os.environ.get('TMPDIR', '/tmp'))
    os.close(fd_)
    real = {n: getattr(S, n) for n in ('get_next_imf', 'interp_envelope', 'get_padded_extrema', 'sd_stop', 'rilling_stop', 'fixed_stop')}

    def mkwrap(name, f):
        @functools.wraps(f)
        def w(*a, **k):
            import inspect
            ba = inspect.signature(f).bind(*a, **k)
            ba.apply_defaults()
            eff = {kk: vv for kk, vv in ba.arguments.items() if kk != 'X' and not isinstance(vv, np.ndarray)}
            # one O_APPEND write per record: atomic across the forked workers and never blocks (a pipe / queue would fill up)
            with open(logpath, 'a') as fh:
                fh.write(name + '\t' + repr(eff).replace('\n', ' ') + '\n')
            return f(*a, **k)
        return w
    for n, f in real.items():
        setattr(S, n, mkwrap(n, f))
    try:
        x = _x()
        call = VARIANTS[variant]
        o = copy.deepcopy(opts)
        if route == 'kwargs':
            out = call(S, x, o, nprocesses)
        elif route == 'config':
            base = variant.split('[')[0]
            cfg = S.get_config(base)
            for k, v in o.items():
                for kk, vv in v.items():
                    cfg[k + '/' + kk] = vv
            cfg['max_imfs'] = 2
            if 'nprocesses' in cfg:
                cfg['nprocesses'] = nprocesses
            if 'nensembles' in cfg:
                cfg['nensembles'] = 2
            if variant == 'mask_sift[float]':
                cfg['mask_freqs'] = 0.1
            if variant == 'ensemble_sift[flip]':
                cfg['noise_mode'] = 'flip'
            out = getattr(S, base)(x, **cfg)
            out = out[0] if isinstance(out, tuple) else out
        elif route in ('partial', 'partial-reconfigured'):
            base = variant.split('[')[0]
            cfg = S.get_config(base)
            if route == 'partial-reconfigured':
                # a history on ONE config object: a callable is obtained (and used) before the options are supplied, then every option
                # dictionary is replaced wholesale (the idiom of the sift docstring), then a callable is obtained again
                try:
                    cfg.get_func()(x)
                except Exception:
                    pass
                open(logpath, 'w').close()          # (the stage calls of the warm-up run are not the ones judged)
                for k, v in o.items():
                    cfg[k] = dict(cfg[k], **v)
            else:
                for k, v in o.items():
                    for kk, vv in v.items():
                        cfg[k + '/' + kk] = vv
            cfg['max_imfs'] = 2
            if 'nprocesses' in cfg:
                cfg['nprocesses'] = nprocesses
            if 'nensembles' in cfg:
                cfg['nensembles'] = 2
            if variant == 'mask_sift[float]':
                cfg['mask_freqs'] = 0.1
            if variant == 'ensemble_sift[flip]':
                cfg['noise_mode'] = 'flip'
            out = cfg.get_func()(x)
            out = out[0] if isinstance(out, tuple) else out
    except BaseException:
        if os.path.exists(logpath):
            os.unlink(logpath)
        raise
    finally:
        for n, f in real.items():
            setattr(S, n, f)
    recs = []
    try:
        for line in open(logpath):
            if '\t' in line:
                nm, rep = line.rstrip('\n').split('\t', 1)
                recs.append((nm, rep))
    finally:
        os.unlink(logpath)
    return recs, out


OPTS_GRID = [
    {'imf_opts': {'env_step_size': 0.5, 'stop_method': 'rilling', 'rilling_thresh': (0.06, 0.6, 0.021)}, 'envelope_opts': {'interp_method': 'mono_pchip'},
     'extrema_opts': {'pad_width': 3, 'parabolic_extrema': True}},
    {'imf_opts': {'stop_method': 'fixed', 'max_iters': 3}, 'envelope_opts': {'interp_method': 'pchip'},
     'extrema_opts': {'pad_width': 4, 'loc_pad_opts': {'mode': 'reflect', 'reflect_type': 'odd'}, 'mag_pad_opts': {'mode': 'mean', 'stat_length': 2}}},
    {'imf_opts': {'sd_thresh': 0.02, 'env_step_size': 0.9}, 'envelope_opts': {'interp_method': 'splrep'}, 'extrema_opts': {'pad_width': 1}},
]


def check_trace(recs, opts):
    """every call of every stage must carry the supplied options"""
    import ast as _ast
    bad = []
    seen = {'get_next_imf': 0, 'interp_envelope': 0, 'get_padded_extrema': 0, 'sd_stop': 0, 'rilling_stop': 0, 'fixed_stop': 0}
    io = opts['imf_opts']
    for stage, rep in recs:
        seen[stage] += 1
        if stage == 'rilling_stop':
            th = io.get('rilling_thresh', (0.05, 0.5, 0.05))
            for k, v in zip(('sd1', 'sd2', 'tol'), th):
                if ("'%s': %r" % (k, v)) not in rep:
                    bad.append('rilling_stop ran with %s != %r (rilling_thresh=%r)' % (k, v, tuple(th)))
            continue
        if stage == 'sd_stop':
            if ("'sd': %r" % io.get('sd_thresh', 0.1)) not in rep:
                bad.append('sd_stop ran with sd != %r' % io.get('sd_thresh', 0.1))
            continue
        if stage == 'fixed_stop':
            if ("'max_iters': %r" % io.get('max_iters', 1000)) not in rep:
                bad.append('fixed_stop ran with max_iters != %r' % io.get('max_iters', 1000))
            continue
        if stage == 'get_next_imf':
            for k, v in opts['imf_opts'].items():
                if ("'%s': %r" % (k, v)) not in rep:
                    bad.append('get_next_imf ran with %s != %r' % (k, v))
            for grp in ('envelope_opts', 'extrema_opts'):
                for k, v in opts[grp].items():
                    if ("'%s': %r" % (k, v)) not in rep:
                        bad.append('get_next_imf received %s without %s=%r' % (grp, k, v))
        elif stage == 'interp_envelope':
            for k, v in opts['envelope_opts'].items():
                if ("'%s': %r" % (k, v)) not in rep:
                    bad.append('interp_envelope ran with %s != %r' % (k, v))
            for k, v in opts['extrema_opts'].items():
                if ("'%s': %r" % (k, v)) not in rep:
                    bad.append('interp_envelope received extrema_opts without %s=%r' % (k, v))
        elif stage == 'get_padded_extrema':
            for k, v in opts['extrema_opts'].items():
                if ("'%s': %r" % (k, v)) not in rep:
                    bad.append('get_padded_extrema ran with %s != %r' % (k, v))
    rule = {'sd': 'sd_stop', 'rilling': 'rilling_stop', 'fixed': 'fixed_stop'}[io.get('stop_method', 'sd')]
    if not all(seen[k] for k in ('get_next_imf', 'interp_envelope', 'get_padded_extrema', rule)):
        bad.append('a stage was never reached: %s' % seen)
    if any(seen[k] for k in ('sd_stop', 'rilling_stop', 'fixed_stop') if k != rule):
        bad.append('a stopping rule other than the requested %r ran: %s' % (io.get('stop_method', 'sd'), seen))
    return sorted(set(bad))


PAD_SIGNALS = {
    'slow-onset': lambda n: np.sin(2 * np.pi * np.linspace(0, 1, n) ** 2 * 9) * np.linspace(0.2, 1, n),
    'chirp': lambda n: np.cos(2 * np.pi * (2 * np.linspace(0, 1, n) + 14 * np.linspace(0, 1, n) ** 3)),
    'stationary': lambda n: np.sin(2 * np.pi * 13 * np.linspace(0, 1, n) + 0.4) + 0.3 * np.sin(2 * np.pi * 31 * np.linspace(0, 1, n)),
    'late-burst': lambda n: np.where(np.arange(n) > n // 2, np.sin(2 * np.pi * 17 * np.linspace(0, 1, n)), 0.02 * np.linspace(0, 1, n)),
}


def _replay_padding(w):
    """get_padded_extrema against np.pad applied with the SUPPLIED options on every padding round"""
    import emd
    from scipy import signal
    x = PAD_SIGNALS[w['signal']](w.get('n', 200))
    pw, mode = w['pad_width'], w['mode']
    lo, mo = dict(w['loc_pad_opts']), dict(w['mag_pad_opts'])
    y = {'peaks': x, 'troughs': -x, 'abs_peaks': np.abs(x)}[mode]
    locs = signal.argrelextrema(y, np.greater, order=1)[0]
    mags = y[locs] * (-1 if mode == 'troughs' else 1)
    got = emd.sift.get_padded_extrema(x.copy(), pad_width=pw, mode=mode, loc_pad_opts=dict(lo), mag_pad_opts=dict(mo))
    if len(locs) <= 1:
        return (got[0] is not None), 'fewer than two extrema but a result was returned'
    p = min(pw, len(locs))
    L, M = np.pad(locs, p, **lo), np.pad(mags, p, **mo)
    rounds = 1
    while max(L) < len(x) or min(L) >= 0:
        L, M = np.pad(L, p, **lo), np.pad(M, p, **mo)
        rounds += 1
        if rounds > 50:
            return False, 'reference padding does not terminate for these options'
    if got[0] is None or len(got[0]) != len(L) or not np.allclose(got[0], L) or not np.allclose(got[1], M):
        return True, 'get_padded_extrema(%s, pad_width=%d, mode=%s, loc_pad_opts=%s, mag_pad_opts=%s): padded magnitudes %s differ from np.pad with the supplied options over %d round(s) %s' % (
            w['signal'], pw, mode, lo, mo, None if got[1] is None else np.round(got[1], 4).tolist()[:8], rounds, np.round(M, 4).tolist()[:8])
    return False, 'padded extrema are np.pad of the extrema with the supplied options (%d rounds)' % rounds


def replay(w):
    if w.get('kind') == 'padding':
        return _replay_padding(w)
    if w.get('kind') != 'trace':
        return False, 'unknown witness kind'
    import warnings
    opts = w.get('opts') or OPTS_GRID[0]
    with warnings.catch_warnings():
        warnings.simplefilter('ignore')
        try:
            recs, out = trace_call(w['variant'], opts, w.get('route', 'kwargs'), w.get('nprocesses', 1))
        except Exception as ex:
            return True, '%s via %s raised %s: %s' % (w['variant'], w.get('route'), type(ex).__name__, str(ex)[:200])
    bad = check_trace(recs, opts)
    if bad:
        return True, '%s (route %s, nprocesses %s) with options %s: %s' % (w['variant'], w.get('route', 'kwargs'), w.get('nprocesses', 1), opts, '; '.join(bad[:4]))
    return False, 'every stage call carried the supplied options (%d stage calls)' % len(recs)


def refute(tier, seed, emit):
    routes = ('kwargs', 'config', 'partial', 'partial-reconfigured')
    nps = (1, 2) if tier == 'quick' else (1, 2, 3)
    grid = OPTS_GRID[:2] if tier == 'quick' else OPTS_GRID
    emit.scope('%d variants x %d option sets (stop rule / step / thresholds, interpolation method, pad width / parabolic / custom np.pad options) x delivery routes %s x nprocesses %s: effective keyword arguments seen by get_next_imf, interp_envelope and get_padded_extrema in the parent and in forked workers' % (len(VARIANTS), len(grid), list(routes), list(nps)), exhaustive=True)
    for variant in VARIANTS:
        for oi, opts in enumerate(grid):
            for route in routes:
                if route != 'kwargs' and 'second_layer' in variant:
                    continue
                for npr in nps:
                    if npr > 1 and variant in ('sift', 'sift_second_layer'):
                        continue
                    emit.case((variant, oi, route, npr), contract=variant)
                    w = {'kind': 'trace', 'variant': variant, 'opts': opts, 'route': route, 'nprocesses': npr}
                    ok, msg = replay(w)
                    if ok:
                        emit.violation('option-dropped:%s' % variant.split('[')[0] + (':' + route if route != 'kwargs' else ''), w, msg)
        if emit.full:
            return
    MAGS = [{'mode': 'median', 'stat_length': 1}, {'mode': 'reflect', 'reflect_type': 'even'}, {'mode': 'mean', 'stat_length': 3}, {'mode': 'symmetric'}, {'mode': 'wrap'}]
    LOCS = [{'mode': 'reflect', 'reflect_type': 'odd'}]
    emit.scope('get_padded_extrema on %d signals (slow onset / chirp / late burst need several padding rounds) x pad_width {1,2,3} x mode {peaks, troughs, abs_peaks} x %d magnitude-padding option sets: result = np.pad with the supplied options on every round; non-trivial = more than one round' % (len(PAD_SIGNALS), len(MAGS)), exhaustive=True)
    for sg in PAD_SIGNALS:
        for pw in (1, 2, 3):
            for gm in ('peaks', 'troughs', 'abs_peaks'):
                for mo in MAGS:
                    w = {'kind': 'padding', 'signal': sg, 'pad_width': pw, 'mode': gm, 'loc_pad_opts': LOCS[0], 'mag_pad_opts': mo}
                    ok, msg = replay(w)
                    emit.case(('pad', sg, pw, gm, mo['mode']), nontrivial='1 rounds' not in msg and '1 round(s)' not in msg, contract='get_padded_extrema')
                    if ok:
                        emit.violation('custom-np.pad-options-govern-every-padding-round', w, msg)
