"""C08 - ensemble sifts average genuinely independent noise realisations.

Functions under contract (emd/sift.py): _sift_with_noise, ensemble_sift, complete_ensemble_sift (sift by contract: a function SF of its input).
Ghost random stream: every process owns a stream state; a draw returns DRAW(state) and advances the state; states reached after
different numbers of draws from the same start are different and DRAW is injective in the state (assumed).
ASSUMED fork-Pool contract: Pool(n) gives each of the n workers a COPY of the parent's stream state at pool creation; starmap runs job i
on worker w(i) for an ARBITRARY assignment w; a worker runs its jobs in order on its own stream.
Obligations, for enumerated ensemble sizes / process counts and symbolic signal, noise level and assignment w:
   distinct noise : the stream positions used for members i != j differ, for EVERY assignment w;
   mean           : result[:, k] = mean over members of member[:, k];   flip: member = (sift(X + n) + sift(X - n)) / 2;
   zero noise     : ensemble_noise = 0  =>  result = sift(X, max_imfs);
   complete ensemble: member i uses column i of the single noise matrix drawn in the parent; no draw happens in a worker.
"""
import hashlib
import os
import tempfile
import numpy as np
import z3
from contracts.common import *
from contracts.siftspec import V, vreify
from pyvc.verify import Unit

PROPERTY = 'C08'
LEVEL = 'proof'
SIFT = 'emd/sift.py'
FUNCTIONS = ['emd.sift._sift_with_noise', 'emd.sift.ensemble_sift', 'emd.sift.complete_ensemble_sift']
ASSUMPTIONS = [
    'floats are mathematical reals',
    'ghost random stream: DRAW is injective in the stream state and successive states are pairwise different (RNG quality is assumed, not verified)',
    'ASSUMED fork-Pool contract: workers start from copies of the parent stream state at pool creation; job-to-worker assignment is arbitrary; starmap preserves order',
    'sift is a function SF of its input array and its options (modular, C01/C19)',
    'ensemble size and process count enumerated concretely (quick 1..3, thorough 1..5 resp. 1..4); signal, noise level and the job-to-worker assignment symbolic',
]
NOT_COVERED = ['statistical independence / quality of the noise itself', 'nensembles / nprocesses beyond the enumerated range in the unbounded units (bounded stand-in goes to 8 x 8)']

N = z3.Int('N')
XV = z3.Const('Xv', V)
ENOISE = z3.Real('ensemble_noise')
W = z3.Function('worker_of_job', I, I)
DRAWF = z3.Function('DRAW', I, I, I, R)        # DRAW(stream position, sample, column)
SF = z3.Function('SF', V, I, I, R)              # sift(x)[t, k] as a function of the (canonical) input vector


class Stream:
    """ghost stream bookkeeping for one verification path"""

    def __init__(self, c, nproc):
        self.c = c
        self.nproc = nproc
        self.parent_draws = 0
        self.pool_created_at = None
        self.job = None
        self.job_draws = {}           # job index -> number of draws made inside the job
        self.positions = []           # (where, position term, job)
        self.worker_draws = 0

    def position(self):
        if self.job is None:
            p = z3.IntVal(self.parent_draws)
            self.parent_draws += 1
            return p, None
        i = self.job
        base = z3.IntVal(self.pool_created_at if self.pool_created_at is not None else 0)
        rank = z3.IntVal(0)
        for j in range(i):
            rank = rank + z3.If(W(j) == W(i), z3.IntVal(self.job_draws.get(j, 0)), z3.IntVal(0))
        local = self.job_draws.get(i, 0)
        self.job_draws[i] = local + 1
        self.worker_draws += 1
        # positions in a worker stream and in the parent stream after the fork are different streams only if the worker drew:
        # we label worker positions by (fork point + draws on that worker before this one); the parent continues from the same fork point,
        # so a parent draw after the fork can coincide with a worker draw - modelled faithfully by using the same numbering.
        return z3.simplify(base + rank + local), i

    def draw(self, kindname, shape):
        pos, job = self.position()
        self.positions.append((kindname, pos, job))
        shape = tuple(shape)
        nd = len(shape)
        r = SArr(shape, (lambda t, col=None: DRAWF(pos, t, col if col is not None else z3.IntVal(0))) if nd <= 2 else None, 'f')
        r.stream_pos = pos
        return r


class PoolC08:
    def __init__(self, processes=None):
        c = core.C()
        st = c.ghost['stream']
        st.pool_created_at = st.parent_draws
        self.processes = processes
        c.ghost.setdefault('pools', []).append(self)

    def starmap(self, f, args):
        st = core.C().ghost['stream']
        out = []
        for i, a in enumerate(args):
            st.job = i
            try:
                out.append(f(*a))
            finally:
                st.job = None
        return out

    def close(self):
        pass


class MPC08:
    Pool = PoolC08

    @staticmethod
    def current_process():
        class _P:
            _identity = (1,)
        return _P()


def _sift_stub_factory(c, ncols):
    def sift_stub(X, sift_thresh=1e-8, max_imfs=None, verbose=None, imf_opts=None, envelope_opts=None, extrema_opts=None):
        c2 = core.C()
        x = vreify(X)
        k = max_imfs if isinstance(max_imfs, int) else ncols
        c2.ghost.setdefault('sift_inputs', []).append({'x': x, 'X': X, 'job': c2.ghost['stream'].job, 'max_imfs': max_imfs,
                                                        'opts': {'imf_opts': imf_opts, 'envelope_opts': envelope_opts, 'extrema_opts': extrema_opts}})
        return SArr((X.shape_e[0], k), lambda t, j: SF(x, t, j), 'f')
    return sift_stub


# the caller's (non-default) option set: every decomposition of every member - both signs of a flip member included - must run under it
# (SF models the sift as a function of its input vector under ONE fixed option set; that every call uses that set is this obligation)
OPTS = {'imf_opts': {'stop_method': 'rilling', 'env_step_size': 0.75}, 'envelope_opts': {'interp_method': 'mono_pchip'}, 'extrema_opts': {'pad_width': 3, 'parabolic_extrema': True}}


def _opts_kw():
    return {k_: dict(v_) for k_, v_ in OPTS.items()}


def _oblige_opts(c, calls):
    bad = [cl['opts'] for cl in calls if {k_: (dict(v_) if isinstance(v_, dict) else v_) for k_, v_ in cl['opts'].items()} != OPTS]
    c.oblige('post:every-decomposition-runs-under-the-callers-option-set', z3.BoolVal(not bad), 'post', note='first deviating call: %r' % (bad[:1],))


def _setup(c, nproc):
    c.assume(N >= 3)
    c.assume(z3.ForAll([z3.Int('wj')], z3.And(0 <= W(z3.Int('wj')), W(z3.Int('wj')) < nproc), patterns=[W(z3.Int('wj'))]))
    t = z3.Int('ct')
    c.assume(z3.ForAll([t], z3.Implies(z3.Not(z3.And(0 <= t, t < N)), XV[t] == 0), patterns=[XV[t]]))
    st = Stream(c, nproc)
    c.ghost['stream'] = st
    c.ghost['rng_hook'] = st.draw


def _mk_ens(nens, nproc, mode, zero):
    def mk(c):
        _setup(c, nproc)
        X = SArr((N,), lambda t: XV[t], 'f')
        kw = dict(nensembles=nens, nprocesses=nproc, noise_mode=mode, max_imfs=2, ensemble_noise=SReal(z3.RealVal(0)) if zero else SReal(ENOISE), **_opts_kw())
        return (X,), kw
    return mk


def _post_ens(nens, nproc, mode, zero):
    def post(c, a, kw, ret):
        st = c.ghost['stream']
        calls = c.ghost.get('sift_inputs', [])
        per = 2 if mode == 'flip' else 1
        c.oblige('post:samples-by-max_imfs', z3.And(ret.shape_e[0] == N, ret.shape_e[1] == 2), 'post')
        c.oblige('post:one-decomposition-per-member-and-sign', z3.BoolVal(len(calls) == nens * per), 'post')
        _oblige_opts(c, calls)
        draws = [p for p in st.positions]
        c.oblige('post:one-noise-realisation-per-member', z3.BoolVal(len(draws) == nens), 'post')
        # distinct noise for every job-to-worker assignment
        for i in range(len(draws)):
            for j in range(i + 1, len(draws)):
                same_stream = z3.BoolVal(True) if (draws[i][2] is None) == (draws[j][2] is None) else z3.BoolVal(False)
                c.oblige('post:members-%d-and-%d-use-different-noise-whatever-the-worker-assignment' % (i, j),
                         z3.Implies(same_stream, draws[i][1] != draws[j][1]) if (draws[i][2] is None) == (draws[j][2] is None)
                         else z3.BoolVal(draws[i][2] is None and draws[j][2] is None), 'post')
        if len(calls) != nens * per:
            return
        t, k = z3.Ints('pt pk')
        rng = z3.And(0 <= t, t < N, 0 <= k, k < 2)
        acc = None
        for m in range(nens):
            if mode == 'flip':
                term = (SF(calls[2 * m]['x'], t, k) + SF(calls[2 * m + 1]['x'], t, k)) / 2
            else:
                term = SF(calls[m]['x'], t, k)
            acc = term if acc is None else acc + term
        c.oblige('post:result-is-the-per-imf-mean-over-members', z3.Implies(rng, ret.elem(t, k) == acc / z3.RealVal(nens)), 'post')
        if zero:
            c.oblige('post:zero-noise-equals-the-classic-sift-with-the-same-cap', z3.Implies(rng, ret.elem(t, k) == SF(XV, t, k)), 'post')
            c.oblige('post:cap-forwarded-to-the-members', z3.BoolVal(all(cl['max_imfs'] == 2 for cl in calls)), 'post')
    return post


def _mk_swn(mode):
    def mk(c):
        _setup(c, 1)
        X = SArr((N, 1), lambda t, j: XV[t], 'f')
        return (X,), dict(noise_scaling=SReal(ENOISE), noise_mode=mode, max_imfs=2, job_ind=None, **_opts_kw())
    return mk


def _post_swn(mode):
    def post(c, a, kw, ret):
        st = c.ghost['stream']
        calls = c.ghost.get('sift_inputs', [])
        c.oblige('post:one-draw', z3.BoolVal(len(st.positions) == 1), 'post')
        _oblige_opts(c, calls)
        if len(st.positions) != 1:
            return
        pos = st.positions[0][1]
        t, k = z3.Ints('pt pk')
        rng = z3.And(0 <= t, t < N, 0 <= k, k < 2)
        c.oblige('post:first-decomposition-of-signal-plus-scaled-noise', z3.Implies(z3.And(0 <= t, t < N), calls[0]['X'].elem(t, z3.IntVal(0)) == XV[t] + DRAWF(pos, t, z3.IntVal(0)) * ENOISE) if calls else z3.BoolVal(False), 'post')
        if mode == 'flip':
            c.oblige('post:second-decomposition-of-signal-minus-the-same-noise', z3.Implies(z3.And(0 <= t, t < N), calls[1]['X'].elem(t, z3.IntVal(0)) == XV[t] - DRAWF(pos, t, z3.IntVal(0)) * ENOISE) if len(calls) == 2 else z3.BoolVal(False), 'post')
            if len(calls) == 2:
                c.oblige('post:flip-member-is-the-mean-of-both-decompositions', z3.Implies(rng, ret.elem(t, k) == (SF(calls[0]['x'], t, k) + SF(calls[1]['x'], t, k)) / 2), 'post')
        else:
            c.oblige('post:single-member-is-the-decomposition', z3.Implies(rng, ret.elem(t, k) == SF(calls[0]['x'], t, k)) if len(calls) == 1 else z3.BoolVal(False), 'post')
    return post


def _mk_ce(nens, nproc):
    def mk(c):
        _setup(c, nproc)
        X = SArr((N,), lambda t: XV[t], 'f')
        c.ghost['swn_calls'] = []
        return (X,), dict(nensembles=nens, nprocesses=nproc, max_imfs=3, ensemble_noise=SReal(ENOISE))
    return mk


def _post_ce(nens, nproc):
    def post(c, a, kw, ret):
        st = c.ghost['stream']
        c.oblige('post:noise-matrix-drawn-once-in-the-parent', z3.BoolVal(len(st.positions) == 1 and st.positions[0][2] is None and st.worker_draws == 0), 'post')
    return post


def units(tier):
    import emd.sift as ES
    U = []
    inl = [('emd/support.py', 'ensure_1d_with_singleton', {}), (SIFT, '_nsamples_warn', {}), (SIFT, '_sift_with_noise', {})]
    sizes = [(1, 1), (2, 1), (2, 2), (3, 2), (3, 3)] if tier == 'quick' else [(e, p) for e in range(1, 6) for p in range(1, 5)]
    for nens, nproc in sizes:
        for mode in ('single', 'flip'):
            for zero in (False, True):
                if zero and (nens, nproc) not in ((2, 2), (3, 2)):
                    continue
                if mode == 'flip' and tier == 'quick' and (nens, nproc) not in ((2, 2), (3, 3)):
                    continue

                def call(f, c, a, kw):
                    g = f.__globals__
                    g['mp'] = MPC08
                    g['sift'] = _sift_stub_factory(c, 2)
                    return f(*a, **kw)
                U.append(Unit('ensemble_sift[nensembles=%d,nprocesses=%d,%s%s]' % (nens, nproc, mode, ',noise=0' if zero else ''), SIFT, 'ensemble_sift',
                              _mk_ens(nens, nproc, mode, zero), _post_ens(nens, nproc, mode, zero), module=ES, inline=inl, wrap_call=call))
    for mode in ('single', 'flip'):
        def call(f, c, a, kw):
            g = f.__globals__
            g['mp'] = MPC08
            g['sift'] = _sift_stub_factory(c, 2)
            return f(*a, **kw)
        U.append(Unit('_sift_with_noise[%s]' % mode, SIFT, '_sift_with_noise', _mk_swn(mode), _post_swn(mode), module=ES, wrap_call=call))

    # complete ensemble: one parent-side matrix, member i gets column i, nothing drawn in workers
    for nens, nproc in ([(2, 2), (3, 2)] if tier == 'quick' else [(2, 1), (2, 2), (3, 2), (4, 3)]):
        def call(f, c, a, kw, nens=nens):
            g = f.__globals__
            g['mp'] = MPC08

            def swn(X, noise_scaling=None, noise=None, noise_mode='single', sift_thresh=1e-8, max_imfs=None, job_ind=1, imf_opts=None, envelope_opts=None, extrema_opts=None):
                c2 = core.C()
                c2.oblige('complete_ensemble_sift->_sift_with_noise:noise-supplied-by-the-parent', z3.BoolVal(noise is not None), 'post')
                if noise is not None and job_ind is not None and isinstance(job_ind, int):
                    tt = z3.Int('nt')
                    pos = c2.ghost['stream'].positions[0][1] if c2.ghost['stream'].positions else z3.IntVal(-1)
                    first = c2.ghost.setdefault('first_round', {})
                    if job_ind not in first:
                        first[job_ind] = True
                        c2.oblige('complete_ensemble_sift:member-%d-uses-its-own-column-of-the-parent-noise-matrix' % job_ind,
                                  z3.Implies(z3.And(0 <= tt, tt < N), noise.elem(tt, z3.IntVal(0)) == DRAWF(pos, tt, z3.IntVal(job_ind)) * lift(c2.ghost['scale'])), 'post')
                fimf = c2.fresh_fun('member', I, R)
                return SArr((X.shape_e[0], 1), lambda i, j: fimf(i), 'f')

            def sift_stub(X, sift_thresh=1e-8, max_imfs=None, verbose=None, imf_opts=None, envelope_opts=None, extrema_opts=None):
                fimf = core.C().fresh_fun('nimf', I, R)
                return SArr((X.shape_e[0], 1), lambda i, j: fimf(i), 'f')

            def fe(x, **kw2):
                k = core.C().fresh('npk', I)
                core.C().assume(k >= 0)
                fp = core.C().fresh_fun('pk', I, I)
                return SArr((k,), lambda i: fp(i), 'i'), SArr((k,), lambda i: z3.ToReal(fp(i)), 'f')
            g.update({'_sift_with_noise': swn, 'sift': sift_stub, '_find_extrema': fe})
            c.ghost['scale'] = SReal(npshim.USTD(npshim.reify1(lambda t: XV[t], 'f'), N) * ENOISE)
            return f(*a, **kw)

        def decl_imf(e):
            c = core.C()
            k = c.fresh('ncols', I)
            fq = c.fresh_fun('imf', I, I, R)
            c.assume(k >= 1)
            return SArr((N, k), lambda i, j: fq(i, j), 'f')
        inv = [('shapes', lambda e, nens=nens: and_(e.imf.shape[0] == N, e.imf.shape[1] >= 1, e.noise.shape[0] == N, e.noise.shape[1] == nens))]
        U.append(Unit('complete_ensemble_sift[nensembles=%d,nprocesses=%d]' % (nens, nproc), SIFT, 'complete_ensemble_sift', _mk_ce(nens, nproc), _post_ce(nens, nproc),
                      loops={0: {'inv': inv, 'decl': {'imf': decl_imf}}}, module=ES, inline=inl[:2], wrap_call=call))
    return U


def model_witness(unit_name, model):
    if unit_name.startswith('ensemble_sift'):
        ne = int(unit_name.split('nensembles=')[1].split(',')[0])
        npr = int(unit_name.split('nprocesses=')[1].split(',')[0])
        mode = 'flip' if ',flip' in unit_name else 'single'
        return {'kind': 'noise_digests', 'variant': 'ensemble_sift', 'nensembles': ne, 'nprocesses': npr, 'noise_mode': mode}
    return None


# ----------------------------------------------------------------------------- native contract: noise digests in parent and forked workers

def _x(n=256):
    t = np.linspace(0, 1, n)
    return np.sin(2 * np.pi * 17 * t) + 0.5 * np.sin(2 * np.pi * 4 * t + 1) + 0.4 * t


def traced(variant, nens, nproc, mode, level, x):
    """run a variant with emd.sift.sift wrapped (fork-inherited): returns the output and the digest of every array handed to sift"""
    import emd
    import functools
    S = emd.sift
    fd_, logpath = tempfile.mkstemp(prefix='c08trace', dir=os.environ.get('TMPDIR', '/tmp'))
    os.close(fd_)
    real = S.sift

    @functools.wraps(real)
    def w(X, *a, **k):
        d = hashlib.sha1(np.ascontiguousarray(np.asarray(X, float)).tobytes()).hexdigest()[:16]
        with open(logpath, 'a') as fh:
            fh.write('%d\t%s\t%s\n' % (os.getpid(), d, np.asarray(X).shape))
        return real(X, *a, **k)
    S.sift = w
    try:
        if variant == 'ensemble_sift':
            out = S.ensemble_sift(x, nensembles=nens, nprocesses=nproc, noise_mode=mode, ensemble_noise=level, max_imfs=2)
        else:
            out = S.complete_ensemble_sift(x, nensembles=nens, nprocesses=nproc, noise_mode=mode, ensemble_noise=level, max_imfs=2)[0]
    finally:
        S.sift = real
    recs = [ln.rstrip('\n').split('\t') for ln in open(logpath)]
    os.unlink(logpath)
    return out, recs


_REC = {'real': None, 'dir': None}


def _rec_member(*a, **k):
    """module-level (picklable by reference for Pool.starmap) recorder around emd.sift._sift_with_noise; forked workers inherit _REC"""
    import tempfile
    r = _REC['real'](*a, **k)
    fd_, nm = tempfile.mkstemp(suffix='.npy', dir=_REC['dir'])
    os.close(fd_)
    np.save(nm, np.asarray(r))
    return r


def replay(w):
    import emd
    import warnings
    x = _x()
    kind = w.get('kind')
    with warnings.catch_warnings():
        warnings.simplefilter('ignore')
        if kind == 'noise_digests':
            ne, npr, mode = w['nensembles'], w['nprocesses'], w.get('noise_mode', 'single')
            level = w.get('level', 0.2)
            out, recs = traced(w['variant'], ne, npr, mode, level, x)
            per = 2 if mode == 'flip' else 1
            if w['variant'] == 'ensemble_sift':
                digs = [r[1] for r in recs]
                if len(digs) != ne * per:
                    return True, '%d decompositions for %d members (mode %s)' % (len(digs), ne, mode)
                if level > 0 and len(set(digs)) != len(digs):
                    return True, 'ensemble_sift(nensembles=%d, nprocesses=%d, noise_mode=%s): only %d distinct noisy inputs among %d decompositions - members share a noise realisation' % (ne, npr, mode, len(set(digs)), len(digs))
            else:
                first = [r[1] for r in recs if r[2] == str((len(x), 1))][:ne * per]
                if level > 0 and len(set(first)) != len(first):
                    return True, 'complete_ensemble_sift: members of the first round share a noise realisation'
            if not np.all(np.isfinite(out)):
                return True, 'non-finite ensemble result'
            return False, 'ok'
        if kind == 'zero_noise':
            ne, npr, mode = w['nensembles'], w['nprocesses'], w['noise_mode']
            if w.get('dtype'):       # the same recording stored as integer counts / in single precision
                x = np.round(x * 500).astype(w['dtype']) if w['dtype'].startswith('int') else x.astype(w['dtype'])
            so = {k_: dict(v_) for k_, v_ in (w.get('sift_opts') or {}).items()}        # non-default imf / envelope / extrema options, the same for both
            fn_ = getattr(emd.sift, w.get('variant', 'ensemble_sift'))
            out = fn_(x, nensembles=ne, nprocesses=npr, noise_mode=mode, ensemble_noise=0, max_imfs=w.get('cap', 3), **{k_: dict(v_) for k_, v_ in so.items()})
            out = out[0] if isinstance(out, tuple) else out
            ref = emd.sift.sift(x, max_imfs=w.get('cap', 3), **so)
            if w.get('variant') == 'complete_ensemble_sift':
                # (its last column is the remainder: the components before it are those of the classic sift)
                out, ref = out[:, :min(out.shape[1], ref.shape[1]) - 1], ref[:, :min(out.shape[1], ref.shape[1]) - 1]
            if out.shape != ref.shape or not np.allclose(out, ref, rtol=1e-10, atol=1e-12):
                return True, '%s with zero noise (nensembles=%d, nprocesses=%d, %s%s) differs from the classic sift with the same cap%s: max diff %.3g' % (
                    w.get('variant', 'ensemble_sift'), ne, npr, mode, ', options %s' % so if so else '', ' and options' if so else '', np.abs(out - ref).max() if out.shape == ref.shape else -1)
            return False, 'ok'
        if kind == 'mean':
            # the ensemble result against its own members: every member decomposition is recorded (worker processes inherit the
            # wrapper through fork and write their result to a file of their own), then result == mean over ALL members of the
            # components every member has, never more than max_imfs
            import tempfile, shutil, glob, os as _os
            ne, mode, npr = w['nensembles'], w['noise_mode'], w.get('nprocesses', 1)
            S = emd.sift
            real = S._sift_with_noise
            d = tempfile.mkdtemp(prefix='c08members')

            _REC['real'], _REC['dir'] = real, d
            S._sift_with_noise = _rec_member
            try:
                t = np.linspace(0, 1, 400)
                xs = np.sin(2 * np.pi * 11 * t) * (1 + 0.5 * t) + 0.6 * np.sin(2 * np.pi * 3 * t + 0.5) + 0.4 * t
                if w.get('dtype'):
                    xs = np.round(xs * 500).astype(w['dtype']) if w['dtype'].startswith('int') else xs.astype(w['dtype'])
                np.random.seed(w.get('seed', 0))
                try:
                    out = S.ensemble_sift(xs, nensembles=ne, nprocesses=npr, noise_mode=mode, ensemble_noise=w.get('level', 0.5), max_imfs=w.get('cap'))
                except Exception as ex:
                    return True, 'ensemble_sift(nensembles=%d, noise_mode=%s, max_imfs=%s, seed %s) raised %s: %s' % (ne, mode, w.get('cap'), w.get('seed', 0), type(ex).__name__, str(ex)[:160])
                members = [np.load(f) for f in sorted(glob.glob(_os.path.join(d, '*.npy')))]
            finally:
                S._sift_with_noise = real
                shutil.rmtree(d, ignore_errors=True)
            if len(members) != ne:
                return True, '%d member decompositions recorded for nensembles=%d' % (len(members), ne)
            counts = [m.shape[1] for m in members]
            k = min(counts + ([w['cap']] if w.get('cap') else []))
            if out.shape != (len(xs), k):
                return True, 'ensemble of members with %s IMFs (max_imfs=%s) has shape %s, expected %d components (those every member contains)' % (counts, w.get('cap'), out.shape, k)
            exp = np.mean([m[:, :k] for m in members], axis=0)
            if not np.allclose(out, exp, rtol=1e-10, atol=1e-12 * max(1.0, float(np.abs(exp).max()))):
                return True, 'ensemble result is not the per-IMF mean over all %d members (member IMF counts %s): max diff %.3g' % (ne, counts, np.abs(out - exp).max())
            return False, 'ok (member IMF counts %s)' % counts
    return False, 'unknown witness kind'


def refute(tier, seed, emit):
    nes = (1, 2, 3, 4) if tier == 'quick' else range(1, 9)
    nps = (1, 2, 4) if tier == 'quick' else range(1, 9)
    emit.scope('ensemble_sift: nensembles %s x nprocesses %s x noise_mode {single, flip} x noise levels {0.05, 1.0}: digest of the noisy input of every decomposition (parent + forked workers) must be pairwise different; complete_ensemble_sift on the same grid (reduced); non-trivial = at least two members' % (list(nes), list(nps)), exhaustive=True)
    for ne in nes:
        for npr in nps:
            for mode in ('single', 'flip'):
                for level in ((0.05, 1.0) if (ne + npr) % 2 == 0 or tier == 'thorough' else (0.2,)):
                    emit.case(('ens', ne, npr, mode, level), nontrivial=ne >= 2, contract='ensemble_sift')
                    w = {'kind': 'noise_digests', 'variant': 'ensemble_sift', 'nensembles': ne, 'nprocesses': npr, 'noise_mode': mode, 'level': level}
                    ok, msg = replay(w)
                    if ok:
                        emit.violation('every-member-has-its-own-noise-realisation', w, msg)
            if ne <= 4 and npr <= 4:
                emit.case(('ce', ne, npr), nontrivial=ne >= 2, contract='complete_ensemble_sift')
                w = {'kind': 'noise_digests', 'variant': 'complete_ensemble_sift', 'nensembles': ne, 'nprocesses': npr, 'noise_mode': 'single', 'level': 0.2}
                ok, msg = replay(w)
                if ok:
                    emit.violation('every-member-has-its-own-noise-realisation:complete_ensemble_sift', w, msg)
        if emit.full:
            return
    seeds = (0, 4, 7) if tier == 'quick' else range(12)       # (seed 4: most members have MORE IMFs than the shortest one)
    emit.scope('ensemble_sift(nensembles=6, ensemble_noise=0.5) on a 400-sample signal x seeds %s x nprocesses {1, 3} x max_imfs {None, 3} x modes: every member decomposition recorded (also in forked workers); result = per-IMF mean over ALL members of the components every member has; non-trivial = members with different numbers of IMFs' % list(seeds))
    for sd in seeds:
        for npr in (1, 3):
            for cap in (None, 3):
                for mode in (('single', 'flip') if sd == 0 else ('single',)):
                    w = {'kind': 'mean', 'nensembles': 6, 'nprocesses': npr, 'noise_mode': mode, 'seed': int(sd), 'cap': cap, 'level': 0.5}
                    ok, msg = replay(w)
                    emit.case(('mean', sd, npr, cap, mode), nontrivial=('counts' in msg and len(set(msg.split('counts')[-1].strip(' ]):[').replace(' ', '').split(','))) > 1), contract='ensemble_sift')
                    if ok:
                        emit.violation('result-is-the-per-imf-mean-over-all-members', w, msg)
        if emit.full:
            return
    emit.scope('zero noise: ensemble_sift == classic sift with the same cap, nensembles {1,3} x nprocesses {1,2} x modes x caps {1,2,3}')
    for ne in (1, 3):
        for npr in (1, 2):
            for mode in ('single', 'flip'):
                for cap in (1, 2, 3):
                    emit.case(('zero', ne, npr, mode, cap), contract='ensemble_sift')
                    w = {'kind': 'zero_noise', 'nensembles': ne, 'nprocesses': npr, 'noise_mode': mode, 'cap': cap}
                    ok, msg = replay(w)
                    if ok:
                        emit.violation('zero-noise-equals-classic-sift', w, msg)
    SOPTS = [{'extrema_opts': {'pad_width': 4}}, {'extrema_opts': {'parabolic_extrema': True}, 'envelope_opts': {'interp_method': 'pchip'}},
             {'imf_opts': {'stop_method': 'rilling', 'env_step_size': 0.5}, 'extrema_opts': {'pad_width': 1}}]
    emit.scope('zero noise under NON-DEFAULT sift options (%d sets: padding width, parabolic extrema + pchip, rilling rule + step size): ensemble_sift == classic sift with the same cap and the same options, nensembles {1, 2} x nprocesses {1, 2} x modes {single, flip}' % len(SOPTS))
    for oi, so in enumerate(SOPTS):
        for ne in (1, 2):
            for npr in (1, 2):
                for mode in ('single', 'flip'):
                    emit.case(('zero-opts', oi, ne, npr, mode), nontrivial=True, contract='ensemble_sift')
                    w = {'kind': 'zero_noise', 'nensembles': ne, 'nprocesses': npr, 'noise_mode': mode, 'cap': 3, 'sift_opts': so}
                    ok, msg = replay(w)
                    if ok:
                        emit.violation('zero-noise-equals-classic-sift:non-default-options', w, msg)
    # recordings stored as integer counts / single precision: the ensemble is still the mean over its members, zero noise still the classic sift
    emit.scope('the same checks on a recording stored as int64 / int32 / float32: zero noise == classic sift (nensembles 3, nprocesses {1, 2}, both modes); result == per-IMF mean over the recorded members (nensembles 4, noise 0.5)')
    for dt in ('int64', 'int32', 'float32'):
        for npr in (1, 2):
            for mode in ('single', 'flip'):
                emit.case(('zero-dtype', dt, npr, mode), nontrivial=dt != 'float32', contract='ensemble_sift')
                w = {'kind': 'zero_noise', 'nensembles': 3, 'nprocesses': npr, 'noise_mode': mode, 'cap': 3, 'dtype': dt}
                ok, msg = replay(w)
                if ok:
                    emit.violation('zero-noise-equals-classic-sift:%s-input' % dt, w, msg)
        w = {'kind': 'mean', 'nensembles': 4, 'nprocesses': 2, 'noise_mode': 'single', 'seed': 1, 'cap': 3, 'level': 0.5, 'dtype': dt}
        ok, msg = replay(w)
        emit.case(('mean-dtype', dt), nontrivial=dt != 'float32', contract='ensemble_sift')
        if ok:
            emit.violation('result-is-the-per-imf-mean-over-all-members:%s-input' % dt, w, msg)
