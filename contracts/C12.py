"""C12 - cycle detection partitions the phase series at its phase wraps.

Function under contract: emd.cycles.get_cycle_vector (emd.support.ensure_2d executed inline; is_good by its C13 contract).
Unit `all-cycles`: return_good=False, mask=None, one column of symbolic length N, symbolic phase_step.
  post (from the statement):  no wrap  => every label is -1
                              a wrap   => label[0] = 0  and  label[s] = label[s-1] + [wrap at s]   for all 1 <= s < N
  (hence: every sample labelled, labels consecutive from 0 in temporal order, each label one contiguous run with no
   internal wrap, runs begin/end at a wrap or at an end of the recording), plus exception freedom.
Unit `all-cycles,multi-column`: phase [N x M] with N, M symbolic; outer invariant: the columns already visited meet the column
  contract, the others are still -1; inner invariant as above plus the frame condition "no other column changes" (e.pre).
"""
import numpy as np
import z3
from contracts.common import *
from pyvc.verify import Unit

PROPERTY = 'C12'
LEVEL = 'proof'
FUNCTIONS = ['emd.cycles.get_cycle_vector', 'emd.support.ensure_2d (inlined)']
ASSUMPTIONS = [
    'floats are mathematical reals; numpy ints unbounded',
    'assumed numpy contracts (cross-checked natively, not proved): where diff abs r_ zeros_like ones max slicing / slice assignment',
    'phase values lie in [0, 2pi] in the first unit and in the multi-column unit; the unit `any phase range` has no range precondition: emd.utils.wrap_phase is then a contract stub (same shape, values in [0, 2pi); its congruence is proved under C09) and the clauses are stated about the re-wrapped array',
    'unit `all-cycles`: single column (the per-column loop runs natively for one column), post in step form (label[s] = label[s-1] + [wrap at s]); unit `all-cycles,multi-column`: symbolic number of columns, both loops cut, post in boundary form over the np.where contract taken as a function of the column (register_pred_where: sorted, sound, complete list of the wrap positions of each column)',
    'is_good is replaced by its C13 contract at the call site (modular)',
]
NOT_COVERED = ['multi-column input with return_good=True or a mask in the unbounded proof (single column there, C13 units; bounded stand-in for several columns)',
               'phase values outside [0, 2pi] (re-wrapping branch): single column in the unbounded proof (wrap_phase by contract), several columns bounded']

STEP = z3.Real('phase_step')
N = z3.Int('N')


def _wrap_at(ph, s, step):
    d = ph[s] - ph[s - 1]
    return abs(d) > step


# ----------------------------------------------------------------------------- PROVE

def _mk_all(c):
    ph, P = vec('phase', N)
    s = z3.Int('s')
    for ax in npshim.pi_axioms():
        c.assume(ax)
    c.assume(N >= 1)
    c.assume(z3.ForAll([s], z3.And(0 <= P(s), P(s) <= 2 * PI), patterns=[P(s)]))
    return (ph,), dict(return_good=False, phase_step=SReal(STEP))


def _mk_any(c):
    """a phase series with NO range assumption: values beyond 2 pi send the routine through its re-wrapping branch"""
    ph, P = vec('phase', N)
    for ax in npshim.pi_axioms():
        c.assume(ax)
    c.assume(N >= 1)
    return (ph,), dict(return_good=False, phase_step=SReal(STEP))


class _UtilsShim:
    """emd.utils.wrap_phase by contract: an array of the same shape with values in [0, 2 pi) (that it is congruent to its argument is proved
    under C09).  The partition clauses are then stated about THAT array - the phase the routine works on."""
    @staticmethod
    def wrap_phase(x):
        c = core.C()
        Wf = z3.Function('wrapped_phase', I, I, R)
        i, j = z3.Ints('wi wj')
        c.assume(z3.ForAll([i, j], z3.And(0 <= Wf(i, j), Wf(i, j) < 2 * PI), patterns=[Wf(i, j)]))
        c.oblige('wrap_phase:called-on-the-whole-phase-array', z3.BoolVal(x.ndim == 2) if hasattr(x, 'ndim') else z3.BoolVal(False), 'pre')
        r = SArr(x.shape_e, lambda a, b: Wf(a, b), 'f')
        c.ghost['effective_phase'] = r[:, 0]
        return r


def _B(e, k):
    return e.inds[k]


def _cyc(e, s):
    return e.cycles[s, e.ii]


_inner_all = [
    ('count', lambda e: e.count == e.jj),
    ('jjrange', lambda e: and_(0 <= e.jj, e.jj <= e.inds.shape[0] - 1)),
    # every sample before the current boundary carries the index of the segment that contains it
    ('covered', lambda e: forall(0, _B(e, e.jj), lambda s: and_(0 <= _cyc(e, s), _cyc(e, s) < e.jj,
                                                               _B(e, _cyc(e, s)) <= s, s < _B(e, _cyc(e, s) + 1)))),
    ('rest', lambda e: forall(_B(e, e.jj), e.phase.shape[0], lambda s: _cyc(e, s) == -1)),
]


def _post_all(c, args, kw, ret):
    ph = c.ghost.get('effective_phase', args[0])        # (the re-wrapped phase when the routine wrapped it)
    n = ph.shape[0]
    step = kw['phase_step']
    c.oblige('post:shape', z3.And(ret.shape_e[0] == N, ret.shape_e[1] == 1), 'post')
    a = z3.Int('anywrap')
    s0 = SInt(z3.Int('s0'))
    lab = lambda s: ret[s, 0]
    with core.SpecMode():
        haswrap = z3.And(1 <= a, a < N, lift(_wrap_at(ph, SInt(a), step)))
        c.oblige('post:all_labelled', implies(and_(SBool(haswrap), 0 <= s0, s0 < n), lab(s0) >= 0), 'post')
        c.oblige('post:first_zero', implies(SBool(haswrap), lab(0) == 0), 'post')
        c.oblige('post:step', implies(and_(SBool(haswrap), 1 <= s0, s0 < n),
                                      lab(s0) == lab(s0 - 1) + ite(_wrap_at(ph, s0, step), 1, 0)), 'post')
        c.oblige('post:nowrap_all_minus1', implies(and_(SBool(z3.ForAll([a], z3.Not(haswrap))), 0 <= s0, s0 < n), lab(s0) == -1), 'post')


# ----------------------------------------------------------------------------- multi-column input: both loops cut
#
# Spec vocabulary: for column c the wrap positions are the strictly increasing list  WW(c, 0..KW(c)-1) + 1  of exactly the samples
# s in [1, N) with |P(s, c) - P(s-1, c)| > step   (np.where contract as a function of the column: sorted, sound, complete).
# Boundaries  B(c, 0) = 0,  B(c, k) = WW(c, k-1) + 1 (1 <= k <= KW(c)),  B(c, KW(c)+1) = N.
# Contract per column:  KW(c) >= 1  =>  every sample of [B(c,k), B(c,k+1)) carries the label k   (k = 0..KW(c));   KW(c) = 0  =>  all -1.

M = z3.Int('M')
P2 = z3.Function('phase2', I, I, R)


def _Wd(i, col):
    """mask element the code hands to np.where for column col: |phase[i+1] - phase[i]| > step"""
    d = P2(i + 1, col) - P2(i, col)
    return z3.If(d >= 0, d, -d) > STEP


def _mk_multi(c):
    ph, P = mat('phase2', N, M)
    s, q = z3.Ints('s q')
    for ax in npshim.pi_axioms():
        c.assume(ax)
    c.assume(N >= 1)
    c.assume(M >= 1)
    c.assume(z3.ForAll([s, q], z3.And(0 <= P(s, q), P(s, q) <= 2 * PI), patterns=[P(s, q)]))
    KW, WW, PP = npshim.register_pred_where(c, _Wd, z3.If(N >= 1, N - 1, 0), 'wraps')
    c.ghost['KW'], c.ghost['WW'], c.ghost['PP'] = KW, WW, PP
    return (ph,), dict(return_good=False, phase_step=SReal(STEP))


def _Bc(col, k):
    g = core.C().ghost
    KW, WW = g['KW'], g['WW']
    return z3.If(k <= 0, z3.IntVal(0), z3.If(k <= KW(col), WW(col, k - 1) + 1, N))


def _outer_inv():
    cq, sq, kq = z3.Int('oc'), z3.Int('os'), z3.Int('ok')
    KWf = lambda: core.C().ghost['KW']
    return [
        ('shape', lambda e: and_(SBool(e.cycles.shape_e[0] == N), SBool(e.cycles.shape_e[1] == M), SBool(e.phase.shape_e[0] == N), SBool(e.phase.shape_e[1] == M))),
        ('iirange', lambda e: and_(0 <= e.ii, e.ii <= e.phase.shape[1])),
        ('done-columns:segment-k-carries-label-k', lambda e: SBool(z3.ForAll([cq, kq, sq], z3.Implies(
            z3.And(0 <= cq, cq < lift(e.ii), KWf()(cq) >= 1, 0 <= kq, kq <= KWf()(cq), _Bc(cq, kq) <= sq, sq < _Bc(cq, kq + 1)), e.cycles.elem(sq, cq) == kq)))),
        ('done-columns:every-sample-labelled', lambda e: SBool(z3.ForAll([cq, sq], z3.Implies(z3.And(0 <= cq, cq < lift(e.ii), KWf()(cq) >= 1, 0 <= sq, sq < N),
                                                                                      z3.And(0 <= e.cycles.elem(sq, cq), e.cycles.elem(sq, cq) <= KWf()(cq)))))),
        ('done-columns:no-wrap-no-cycles', lambda e: SBool(z3.ForAll([cq, sq], z3.Implies(z3.And(0 <= cq, cq < lift(e.ii), KWf()(cq) == 0, 0 <= sq, sq < N), e.cycles.elem(sq, cq) == -1)))),
        ('later-columns-untouched', lambda e: SBool(z3.ForAll([cq, sq], z3.Implies(z3.And(lift(e.ii) <= cq, cq < M, 0 <= sq, sq < N), e.cycles.elem(sq, cq) == -1)))),
    ]


def _inner_multi():
    cq, sq, kq = z3.Int('fc'), z3.Int('fs'), z3.Int('fk')
    lab = lambda e, s: e.cycles.elem(s, lift(e.ii))
    KWi = lambda e: core.C().ghost['KW'](lift(e.ii))
    return [
        ('count', lambda e: e.count == e.jj),
        ('jjrange', lambda e: and_(0 <= e.jj, e.jj <= e.inds.shape[0] - 1)),
        ('nbounds', lambda e: SBool(e.inds.shape_e[0] == KWi(e) + 2)),
        ('bounds', lambda e: SBool(z3.ForAll([kq], z3.Implies(z3.And(0 <= kq, kq <= KWi(e) + 1), e.inds.elem(kq) == _Bc(lift(e.ii), kq))))),
        ('done', lambda e: SBool(z3.ForAll([kq, sq], z3.Implies(z3.And(0 <= kq, kq < lift(e.jj), _Bc(lift(e.ii), kq) <= sq, sq < _Bc(lift(e.ii), kq + 1)), lab(e, sq) == kq)))),
        ('rest', lambda e: SBool(z3.ForAll([sq], z3.Implies(z3.And(_Bc(lift(e.ii), lift(e.jj)) <= sq, sq < N), lab(e, sq) == -1)))),
        ('labelled-so-far', lambda e: SBool(z3.ForAll([sq], z3.Implies(z3.And(0 <= sq, sq < _Bc(lift(e.ii), lift(e.jj))), z3.And(0 <= lab(e, sq), lab(e, sq) < lift(e.jj)))))),
        ('other-columns-unchanged', lambda e: SBool(z3.ForAll([cq, sq], z3.Implies(z3.And(0 <= cq, cq < M, cq != lift(e.ii), 0 <= sq, sq < N),
                                                                               e.cycles.elem(sq, cq) == e.pre.cycles.elem(sq, cq))))),
        ('shape', lambda e: and_(SBool(e.cycles.shape_e[0] == N), SBool(e.cycles.shape_e[1] == M))),
    ]


def _post_multi(c, args, kw, ret):
    KW, WW = c.ghost['KW'], c.ghost['WW']
    c.oblige('post:shape', z3.And(ret.shape_e[0] == N, ret.shape_e[1] == M), 'post')
    c0, k0, s0 = z3.Ints('c0 k0 s0')
    lab = lambda s, col: ret.elem(s, col)
    inr = z3.And(0 <= c0, c0 < M)
    wrap_at = lambda s: _Wd(s - 1, c0)
    # the labelling
    c.oblige('post:segment-k-carries-label-k', z3.Implies(z3.And(inr, KW(c0) >= 1, 0 <= k0, k0 <= KW(c0), _Bc(c0, k0) <= s0, s0 < _Bc(c0, k0 + 1)), lab(s0, c0) == k0), 'post')
    c.oblige('post:nowrap_all_minus1', z3.Implies(z3.And(inr, KW(c0) == 0, 0 <= s0, s0 < N), lab(s0, c0) == -1), 'post')
    # what the boundaries are (facts of the spec vocabulary, stated so that the labelling above means what the property says)
    c.oblige('post:boundaries-increase-from-0-to-N', z3.Implies(z3.And(inr, 0 <= k0, k0 <= KW(c0)), z3.And(_Bc(c0, k0) < _Bc(c0, k0 + 1), _Bc(c0, z3.IntVal(0)) == 0, _Bc(c0, KW(c0) + 1) == N)), 'post')
    c.oblige('post:interior-boundaries-are-wraps', z3.Implies(z3.And(inr, 1 <= k0, k0 <= KW(c0)), wrap_at(_Bc(c0, k0))), 'post')
    c.oblige('post:no-wrap-inside-a-segment', z3.Implies(z3.And(inr, 0 <= k0, k0 <= KW(c0), _Bc(c0, k0) < s0, s0 < _Bc(c0, k0 + 1)), z3.Not(wrap_at(s0))), 'post')
    c.oblige('post:KW-is-zero-iff-no-wrap', z3.Implies(z3.And(inr, 1 <= s0, s0 < N, wrap_at(s0)), KW(c0) >= 1), 'post')
    # consequences in the property's own words
    c.oblige('post:all_labelled', z3.Implies(z3.And(inr, 1 <= k0, k0 < N, wrap_at(k0), 0 <= s0, s0 < N), z3.And(0 <= lab(s0, c0), lab(s0, c0) <= KW(c0))), 'post')
    c.oblige('post:first_zero', z3.Implies(z3.And(inr, 1 <= k0, k0 < N, wrap_at(k0)), lab(z3.IntVal(0), c0) == 0), 'post')


def multi_unit():
    import emd.cycles as EC
    u = Unit('get_cycle_vector[all-cycles,multi-column]', 'emd/cycles.py', 'get_cycle_vector', _mk_multi, _post_multi,
             loops={0: {'inv': _outer_inv()}, 1: {'inv': _inner_multi()}}, module=EC,
             observables=[{'kind': 'scalar', 'name': 'N'}, {'kind': 'scalar', 'name': 'M'}, {'kind': 'scalar', 'name': 'phase_step'}])
    return u


def units(tier):
    import emd.cycles as EC
    u = Unit('get_cycle_vector[all-cycles]', 'emd/cycles.py', 'get_cycle_vector', _mk_all, _post_all,
             loops={1: {'inv': _inner_all}}, module=EC,
             observables=[{'kind': 'scalar', 'name': 'N'}, {'kind': 'scalar', 'name': 'phase_step'},
                          {'kind': 'array', 'name': 'phase', 'shape': ['N']}])
    u.bound_scalars = [('N', 1)]
    u2 = Unit('get_cycle_vector[all-cycles,any phase range]', 'emd/cycles.py', 'get_cycle_vector', _mk_any, _post_all,
              loops={1: {'inv': _inner_all}}, module=EC, ns={'utils': _UtilsShim})
    return [u, u2, multi_unit()]


def model_witness(unit_name, model):
    ph = model_vec(model, 'phase')
    if ph is None:
        return None
    return {'kind': 'cycle_vector', 'phase': [float(x) for x in ph], 'phase_step': float(model.get('phase_step', 1.5 * np.pi)),
            'return_good': False, 'mask': None}


# ----------------------------------------------------------------------------- native contract (REFUTE / REPLAY)

def native_check(phase, labels, step, return_good, mask):
    """Return the list of violated C12 clauses for one column."""
    bad = []
    ph = np.asarray(phase, dtype=float)
    n = len(ph)
    lab = np.asarray(labels)
    if lab.shape != (n,):
        return ['shape']
    wrap = np.zeros(n, dtype=bool)
    wrap[1:] = np.abs(np.diff(ph)) > step
    ids = [int(v) for v in lab if v != -1]
    K = (max(ids) + 1) if ids else 0
    if sorted(set(ids)) != list(range(K)):
        bad.append('labels-consecutive-from-0')
    seen_end = set()
    prev = -1
    for s in range(n):
        v = int(lab[s])
        if v < -1:
            bad.append('labels-consecutive-from-0')
        if v == -1:
            continue
        if s > 0 and lab[s - 1] == v:
            if wrap[s]:
                bad.append('no-internal-wrap')
        else:
            # a run of label v starts here
            if v in seen_end:
                bad.append('label-one-contiguous-run')
            if v != prev + 1:
                bad.append('labels-in-temporal-order')
            prev = max(prev, v)
            if not (s == 0 or wrap[s]):
                bad.append('run-begins-at-wrap-or-start')
        if s == n - 1 or lab[s + 1] != v:
            seen_end.add(v)
            if not (s == n - 1 or wrap[s + 1]):
                bad.append('run-ends-at-wrap-or-end')
    if (not return_good) and mask is None and wrap.any():
        if (lab == -1).any():
            bad.append('every-sample-labelled')
    if not wrap.any() and (lab != -1).any():
        bad.append('no-wrap-no-cycles')
    return sorted(set(bad))


def _run(phase, step, return_good, mask=None):
    import emd.cycles as EC
    kw = dict(return_good=return_good, phase_step=step)
    if mask is not None:
        kw['mask'] = np.asarray(mask, dtype=bool)
    return EC.get_cycle_vector(np.asarray(phase, dtype=float), **kw)


def replay(w):
    if w.get('kind') != 'cycle_vector':
        return False, 'unknown witness kind'
    ph = np.asarray(w['phase'], dtype=float)
    try:
        out = _run(ph, w['phase_step'], w['return_good'], w.get('mask'))
    except Exception as ex:
        return True, 'get_cycle_vector raised %s: %s on phase=%s' % (type(ex).__name__, ex, list(np.round(ph, 3)))
    bad = []
    cols = ph.reshape(len(ph), -1)
    for c in range(out.shape[1]):
        bad += native_check(cols[:, c], out[:, c], w['phase_step'], w['return_good'], w.get('mask'))
    if bad:
        return True, 'labels %s for phase %s violate %s' % (out.T.tolist(), np.round(ph, 3).tolist(), sorted(set(bad)))
    return False, 'labels %s satisfy the contract' % out.T.tolist()


ALPHA = [0.1, 1.6, 3.1, 4.7, 6.2]


def refute(tier, seed, emit):
    maxlen = 6 if tier == 'quick' else 8
    step = 1.5 * np.pi
    emit.scope('every phase sequence of length 1..%d over the 5-value alphabet %s x return_good in {False, True} (phase_step=1.5pi); non-trivial = has at least one wrap' % (maxlen, ALPHA), exhaustive=True)
    for t in seqs(ALPHA, maxlen):
        ph = np.array(t)
        haswrap = bool((np.abs(np.diff(ph)) > step).any())
        for rg in (False, True):
            emit.case((t, rg), nontrivial=haswrap, contract='get_cycle_vector')
            w = {'kind': 'cycle_vector', 'phase': list(t), 'phase_step': step, 'return_good': rg, 'mask': None}
            try:
                out = _run(ph, step, rg)
            except Exception as ex:
                emit.violation('detection-never-fails:%s' % type(ex).__name__, w, 'get_cycle_vector raised %s: %s' % (type(ex).__name__, ex))
                continue
            for b in native_check(ph, out[:, 0], step, rg, None):
                emit.violation(b, w, 'clause %s violated: labels %s' % (b, out[:, 0].tolist()))
        if emit.full:
            return
    # phase differences exactly equal to the threshold (dyadic values: exact in floating point)
    dy = [0.0, 1.5, 3.0, 4.5, 6.0]
    ml = 5 if tier == 'quick' else 6
    emit.scope('every sequence of length 2..%d over the dyadic alphabet %s x phase_step in {3.0, 4.5} (differences hit the threshold exactly)' % (ml, dy), exhaustive=True)
    for st in (3.0, 4.5):
        for t in seqs(dy, ml, 2):
            ph = np.array(t)
            emit.case(('dy', t, st), nontrivial=bool((np.abs(np.diff(ph)) == st).any()), contract='get_cycle_vector')
            w = {'kind': 'cycle_vector', 'phase': list(t), 'phase_step': st, 'return_good': False, 'mask': None}
            try:
                out = _run(ph, st, False)
            except Exception as ex:
                emit.violation('detection-never-fails:%s' % type(ex).__name__, w, 'get_cycle_vector raised %s: %s' % (type(ex).__name__, ex))
                continue
            for b in native_check(ph, out[:, 0], st, False, None):
                emit.violation(b, w, 'clause %s violated: labels %s' % (b, out[:, 0].tolist()))
        if emit.full:
            return
    # two-column input: every pair of short columns (so a wrap-free column before / after a column with wraps)
    ml2 = 3 if tier == 'quick' else 4
    emit.scope('every pair of columns of length 2..%d over the 5-value alphabet (multi-column independence)' % ml2, exhaustive=True)
    import itertools as _it
    for n in range(2, ml2 + 1):
        cols = list(_it.product(ALPHA, repeat=n))
        for ca, cb in _it.product(cols, repeat=2):
            ph = np.array([ca, cb]).T
            emit.case(('2col', ca, cb), nontrivial=True, contract='get_cycle_vector')
            w = {'kind': 'cycle_vector', 'phase': ph.tolist(), 'phase_step': step, 'return_good': False, 'mask': None}
            try:
                out = _run(ph, step, False)
            except Exception as ex:
                emit.violation('detection-never-fails:%s' % type(ex).__name__, w, 'get_cycle_vector raised %s: %s' % (type(ex).__name__, ex))
                continue
            for cc in range(2):
                for b in native_check(ph[:, cc], out[:, cc], step, False, None):
                    emit.violation(b + ':multi-column', w, 'clause %s violated in column %d: labels %s' % (b, cc, out[:, cc].tolist()))
        if emit.full:
            return
    # other phase_step values, multi-column input, long synthetic phases
    r = rng(seed, 12)
    nlong = 40 if tier == 'quick' else 400
    emit.scope('%d seeded synthetic phases (length 50..600, variable / noisy / occasionally reversing frequency) x phase_step in {pi/2, pi, 1.5pi, 1.9pi} x 1..3 columns' % nlong)
    for k in range(nlong):
        n = int(r.randint(50, 600))
        ncol = int(r.randint(1, 4))
        cols = []
        for c in range(ncol):
            f = np.abs(0.05 + 0.03 * r.randn() + 0.02 * np.cumsum(r.randn(n)) / np.sqrt(n))
            f = f * np.where(r.rand(n) < 0.02, -1, 1)
            p = (r.rand() * 2 * np.pi + np.cumsum(2 * np.pi * f) + 0.05 * r.randn(n)) % (2 * np.pi)
            cols.append(p)
        ph = np.array(cols).T
        st = [np.pi / 2, np.pi, 1.5 * np.pi, 1.9 * np.pi][k % 4]
        for rg in (False, True):
            emit.case(('long', k, rg), nontrivial=True, contract='get_cycle_vector')
            w = {'kind': 'cycle_vector', 'phase': ph.tolist() if ncol > 1 else ph[:, 0].tolist(), 'phase_step': st, 'return_good': rg, 'mask': None}
            try:
                out = _run(ph if ncol > 1 else ph[:, 0], st, rg)
            except Exception as ex:
                emit.violation('detection-never-fails:%s' % type(ex).__name__, w, 'get_cycle_vector raised %s: %s' % (type(ex).__name__, ex))
                continue
            for c in range(ncol):
                for b in native_check(ph[:, c], out[:, c], st, rg, None):
                    emit.violation(b, w, 'clause %s violated in column %d' % (b, c))
        if emit.full:
            return
