"""C02 - the relational argument, machine-checked over the CONTRACTS of the sift stages.

For a transform T of the input (x -> c x with c > 0, x -> c x with c < 0, time reversal) and a stopping rule, with
     IT(X, n, k)   the k-th sifting iterate                       (spec function tied to the code by the C04 units, re-run by C02)
     ENVU / ENVL   the envelopes, HASU / HASL their existence     (interp_envelope by contract, C05)
     STOPSD / STOPRILL  the stopping decisions                    (sd_stop / rilling_stop against their formulas, C04 units)
the ASSUMED equivariance of the stage contracts, instantiated at the iterates:
     ENVU(T h) = T ENVU(h), ENVL(T h) = T ENVL(h)   (upper and lower swapped for c < 0), HAS likewise    [homogeneity / mirror symmetry of
                                                                                                           extrema + interpolants: lemmas 1-3]
     STOP(T a, T b) = STOP(a, b)                                                                          [scale-free ratios: lemmas 4-5]
gives, as lemmas discharged by the solver:
     iterates:base, iterates:step          IT(T X, n, k) = T IT(X, n, k)     by induction on k
     decisions[rule]                       same "has envelopes", same stop decision, and T-related stop iterate, at every k
     extraction[rule]                      any two results satisfying the POSTCONDITION of get_next_imf (C04: the iterate at which the rule
                                           first fires with its full mean removed, or the first iterate without envelopes) for X and T X
                                           are T-related - the first stop index is the same by trichotomy
     flag                                  the continue flag is the same
     components:base, components:step      COMP(T X, n, k) = T COMP(X, n, k) and RES(T X, n, k) = T RES(X, n, k)   by induction on k
The induction principle itself (from base and step to "for every k") is applied by the harness: it appears as the quantified hypothesis of
the lemma that uses it.  What remains outside: the equivariance of the stage contracts is assumed for the scipy interpolants (stated in
C02.ASSUMPTIONS), and floating point.
"""
import z3
from contracts.siftspec import *

X, Y = z3.Consts('relX relY', V)
RX, RY = z3.Consts('rel_rX rel_rY', V)
n = z3.Int('relN')
step = z3.Real('relstep')
cc = z3.Real('relc')
k = z3.Int('relk')
KX, KY = z3.Ints('rel_kx rel_ky')
P = {'sd': z3.Real('rel_sd'), 'sd1': z3.Real('rel_sd1'), 'sd2': z3.Real('rel_sd2'), 'tol': z3.Real('rel_tol'), 'max_iters': z3.Int('rel_maxit')}
TQ2 = z3.Int('t_lam1')


class Transform:
    def __init__(self, kind):
        self.kind = kind
        self.swap = kind == 'neg'

    def T(self, v):
        if self.kind in ('pos', 'neg'):
            return z3.Lambda([TQ2], cc * v[TQ2])
        return z3.Lambda([TQ2], z3.If(z3.And(0 <= TQ2, TQ2 < n), v[n - 1 - TQ2], z3.RealVal(0)))

    def pre(self):
        return [n >= 3] + ({'pos': [cc > 0], 'neg': [cc < 0], 'rev': []}[self.kind])

    def env_at(self, h):
        EU, EL = (ENVL, ENVU) if self.swap else (ENVU, ENVL)
        HU, HL = (HASL, HASU) if self.swap else (HASU, HASL)
        T = self.T
        return [ENVU(T(h), n) == T(EU(h, n)), ENVL(T(h), n) == T(EL(h, n)), HASU(T(h), n) == HU(h, n), HASL(T(h), n) == HL(h, n)]

    def stop_at(self, rule, h):
        T = self.T
        if rule == 'sd':
            b = vsub(h, mean_env(h, n))
            return [STOPSD(T(h), T(b), n, P['sd']) == STOPSD(h, b, n, P['sd'])]
        if rule == 'rilling':
            u, l = ENVU(h, n), ENVL(h, n)
            if self.swap:
                return [STOPRILL(T(l), T(u), n, P['sd1'], P['sd2'], P['tol']) == STOPRILL(u, l, n, P['sd1'], P['sd2'], P['tol'])]
            return [STOPRILL(T(u), T(l), n, P['sd1'], P['sd2'], P['tol']) == STOPRILL(u, l, n, P['sd1'], P['sd2'], P['tol'])]
        return []


def _agree(tr, rule, kk):
    hx, hy = IT(X, n, kk), IT(Y, n, kk)
    return z3.And(hy == tr.T(hx), has(hy, n) == has(hx, n), fires(rule, hy, n, kk + 1, P) == fires(rule, hx, n, kk + 1, P),
                  vsub(hy, mean_env(hy, n)) == tr.T(vsub(hx, mean_env(hx, n))))


def _post(inp, r, kk, rule):
    """postcondition of get_next_imf (C04, post:outcome-is-stop-iterate-with-full-mean-removed-or-first-iterate-without-envelopes) with its
    existential witness kk"""
    j = z3.Int('rel_j')
    hj = IT(inp, n, j)
    prefix = z3.ForAll([j], z3.Implies(z3.And(0 <= j, j < kk), z3.And(has(hj, n), z3.Not(fires(rule, hj, n, j + 1, P)))), patterns=[hj])
    h = IT(inp, n, kk)
    fired = z3.And(has(h, n), fires(rule, h, n, kk + 1, P), r == vsub(h, mean_env(h, n)))
    vanished = z3.And(z3.Not(has(h, n)), r == h)
    return z3.And(kk >= 0, prefix, z3.Or(fired, vanished))


def relational_lemmas(tier='quick'):
    L = []
    for kind in ('pos', 'neg', 'rev'):
        tr = Transform(kind)
        T = tr.T
        hx, hy = IT(X, n, k), IT(Y, n, k)
        rec = lambda inp: IT(inp, n, k + 1) == vsub(IT(inp, n, k), vscale(step, mean_env(IT(inp, n, k), n)))
        L.append(('relational[%s]:iterates:base' % kind, tr.pre() + [Y == T(X), IT(Y, n, 0) == Y, IT(X, n, 0) == X], IT(Y, n, 0) == T(IT(X, n, 0))))
        L.append(('relational[%s]:iterates:step' % kind, tr.pre() + [k >= 0, hy == T(hx), rec(Y), rec(X)] + tr.env_at(hx), IT(Y, n, k + 1) == T(IT(X, n, k + 1))))
        for rule in ('sd', 'rilling', 'fixed'):
            L.append(('relational[%s]:decisions[%s]' % (kind, rule), tr.pre() + [k >= 0, hy == T(hx)] + tr.env_at(hx) + tr.stop_at(rule, hx), _agree(tr, rule, k)))
            kq = z3.Int('rel_kq')
            allk = z3.ForAll([kq], z3.Implies(kq >= 0, _agree(tr, rule, kq)), patterns=[IT(X, n, kq), IT(Y, n, kq)])
            posts = [_post(X, RX, KX, rule), _post(Y, RY, KY, rule)]
            L.append(('relational[%s]:first-stop-index[%s]' % (kind, rule), tr.pre() + [allk] + posts, KX == KY))
            L.append(('relational[%s]:extraction[%s]' % (kind, rule), tr.pre() + [allk, KX == KY] + posts, RY == T(RX)))
        # the continue flag of get_next_imf (C04: cleared exactly when the input itself has no envelopes)
        L.append(('relational[%s]:flag' % kind, tr.pre() + tr.env_at(X) + [GF(X, n) == has(X, n), GF(T(X), n) == has(T(X), n)], GF(T(X), n) == GF(X, n)))
        # the sift: component / residual recursion (C01), with the extraction result above as GI(T v) = T GI(v) at the residual
        rx, ry = RES(X, n, k), RES(Y, n, k)
        recs = lambda inp: z3.And(COMP(inp, n, k) == GI(RES(inp, n, k), n), RES(inp, n, k + 1) == vsub(RES(inp, n, k), COMP(inp, n, k)))
        L.append(('relational[%s]:components:base' % kind, tr.pre() + [Y == T(X), RES(Y, n, 0) == Y, RES(X, n, 0) == X], RES(Y, n, 0) == T(RES(X, n, 0))))
        L.append(('relational[%s]:components:step' % kind, tr.pre() + [k >= 0, ry == T(rx), recs(X), recs(Y), GI(T(rx), n) == T(GI(rx, n))],
                  z3.And(COMP(Y, n, k) == T(COMP(X, n, k)), RES(Y, n, k + 1) == T(RES(X, n, k + 1)))))
    return L
