"""C07 - masked sift applies the documented masks, removes them, and is schedule independent.

Functions under contract (emd/sift.py): get_next_imf_mask, get_mask_freqs, mask_sift (get_next_imf by its contract: a pure function
(GI, GF) of its input vector; multiprocessing.Pool.starmap by the assumed order-preserving contract).
  get_next_imf_mask (nphases P enumerated):
     the p-th extraction is applied to  X + m_p  with  m_p[t] = amp * cos(2 pi z t + 2 pi p / P);
     result[t] = (1/P) * sum_p ( G(X + m_p)[t] - m_p[t] ),   flag = any_p flag_p;   amp = 0  =>  result = G(X);
     the pool is created with the requested number of processes and nothing random / global is read (schedule independence
     then follows from the starmap contract).
  get_mask_freqs : 'zc' -> (zero crossings of the first, unmasked IMF) / N / 4;  float -> that float.
  mask_sift      : mask frequency of layer k = first frequency / step_factor^k (or the user's k-th entry); amplitude of layer k =
                   mask_amp[k] * 1 (abs) | * std(input) (ratio_sig) | * std(previous IMF) (ratio_imf, input for k = 0);
                   the returned mask frequencies are the array indexed in the loop.
"""
import hashlib
import numpy as np
import z3
from contracts.common import *
from contracts.siftspec import *
from pyvc.verify import Unit

PROPERTY = 'C07'
LEVEL = 'proof'
SIFT = 'emd/sift.py'
FUNCTIONS = ['emd.sift.get_next_imf_mask', 'emd.sift.get_mask_freqs', 'emd.sift.mask_sift']
ASSUMPTIONS = [
    'assumed numpy contracts added for rewritten phase grids: np.deg2rad(x) = x * pi / 180, np.arange(lo, hi, step) for concrete integers (both cross-checked natively)',
    'floats are mathematical reals; cos is uninterpreted; pi is a real constant in (3.14159, 3.1416)',
    'get_next_imf is a pure function (GI, GF) of its input vector for fixed options (C04; effects recorded by the engine: no RNG, no global state)',
    'assumed stdlib contract: Pool(n).starmap(f, args) == [f(*a) for a in args] in order, whatever the job-to-worker assignment (OS scheduling lives inside this assumption)',
    'assumed numpy contracts: arange, repeat, linspace, broadcasting, concatenate, mean(axis=1), std (uninterpreted function of the vector), any',
    'number of mask phases enumerated concretely (1..4 quick, 1..8 thorough); signal length, mask frequency and amplitude symbolic',
]
NOT_COVERED = ["mask_freqs='if' (frequency_transform route) - bounded stand-in only", 'identical floating-point results across nprocesses (bit-level) - bounded stand-in']

N = z3.Int('N')
XV = z3.Const('Xv', V)
Z = z3.Real('z')
AMP = z3.Real('amp')
ZC = z3.Function('ZC', V, I, I)


def _m_spec(t, p, P, amp=AMP):
    return amp * npshim.UCOS(Z * 2 * PI * z3.ToReal(t) + 2 * PI * z3.RealVal(p) / z3.RealVal(P))


def _mk_gnim(P, zero_amp, nproc=3):
    def mk(c):
        c.assume(N >= 3)
        for ax in npshim.pi_axioms() + canon_axioms(XV, N):
            c.assume(ax)
        X = vec_of(XV, N)
        c.ghost['calls'] = []
        kw = dict(nphases=P, nprocesses=nproc, imf_opts={'stop_method': 'rilling'}, envelope_opts={'interp_method': 'pchip'}, extrema_opts={'pad_width': 3})
        amp = SReal(z3.RealVal(0)) if zero_amp else SReal(AMP)
        return (X, SReal(Z), amp), kw
    return mk


def _gni_recording_stub(X, env_step_size=1, max_iters=1000, energy_thresh=None, stop_method='sd', sd_thresh=.1, rilling_thresh=(0.05, 0.5, 0.05),
                        envelope_opts=None, extrema_opts=None):
    c = core.C()
    x = vreify(X)
    n = X.shape_e[0]
    c.ghost['calls'].append({'x': x, 'X': X, 'opts': (stop_method, envelope_opts, extrema_opts)})
    return col_of(GI(x, n), n), SBool(GF(x, n))


def _post_gnim(P, zero_amp, nproc=3):
    def post(c, a, kw, ret):
        imf, flag = ret
        calls = c.ghost['calls']
        amp = z3.RealVal(0) if zero_amp else AMP
        c.oblige('post:one-extraction-per-mask-phase', z3.BoolVal(len(calls) == P), 'post')
        if nproc > 1:       # (with a single process it does not matter whether a pool of one worker is used or none: the calls below are what counts)
            c.oblige('post:pool-has-the-requested-number-of-processes', z3.BoolVal([p.processes for p in c.ghost.get('pools', [])] == [nproc]), 'post')
        c.oblige('post:nothing-random-read', z3.BoolVal(c.effects == []), 'post')
        c.oblige('post:column-of-input-length', z3.And(imf.shape_e[0] == N, imf.shape_e[1] == 1) if imf.ndim == 2 else z3.BoolVal(False), 'post')
        if len(calls) != P:
            return
        t = z3.Int('pt')
        rng = z3.And(0 <= t, t < N)
        for p, call in enumerate(calls):
            c.oblige('post:phase-%d-input-is-signal-plus-documented-mask' % p, z3.Implies(rng, call['X'].elem(t, z3.IntVal(0)) == XV[t] + _m_spec(t, p, P, amp)), 'post')
            c.oblige('post:phase-%d-options-forwarded' % p, z3.BoolVal(call['opts'] == ('rilling', {'interp_method': 'pchip'}, {'pad_width': 3})), 'post')
        acc = None
        for p, call in enumerate(calls):
            term = GI(call['x'], N)[t] - _m_spec(t, p, P, amp)
            acc = term if acc is None else acc + term
        c.oblige('post:result-is-mean-over-phases-of-extraction-minus-the-same-mask', z3.Implies(rng, imf.elem(t, z3.IntVal(0)) == acc / z3.RealVal(P)), 'post')
        c.oblige('post:flag-is-any-of-the-phase-flags', lift(flag) == z3.Or(*[GF(call['x'], N) for call in calls]), 'post')
        if zero_amp:
            c.oblige('post:zero-amplitude-mask-reduces-to-unmasked-extraction', z3.Implies(rng, imf.elem(t, z3.IntVal(0)) == GI(XV, N)[t]), 'post')
    return post


# ---- get_mask_freqs

def _mk_gmf(mode):
    def mk(c):
        c.assume(N >= 3)
        for ax in canon_axioms(XV, N):
            c.assume(ax)
        c.ghost['calls'] = []
        X = col_of(XV, N)
        if mode == 'zc':
            return (X, 'zc'), dict(imf_opts={'stop_method': 'rilling'}, envelope_opts={'interp_method': 'pchip'}, extrema_opts={'pad_width': 3})
        c.assume(z3.And(Z > 0, Z < z3.RealVal('0.5')))
        return (X, SReal(Z)), {}
    return mk


def _post_gmf(mode):
    def post(c, a, kw, r):
        if mode == 'zc':
            c.oblige('post:first-imf-extracted-without-mask-with-the-callers-options',
                     z3.BoolVal(len(c.ghost['calls']) == 1 and c.ghost['calls'][0]['opts'] == ('rilling', {'interp_method': 'pchip'}, {'pad_width': 3})), 'post')
            c.oblige('post:zc-frequency-is-crossings-per-sample-over-four', lift(r) * z3.ToReal(N) * 4 == z3.ToReal(ZC(GI(XV, N), N)), 'post')
        else:
            c.oblige('post:explicit-frequency-returned-unchanged', lift(r) == Z, 'post')
    return post


# ---- mask_sift: ladder, amplitudes, returned frequencies

STEPF = z3.Real('mask_step_factor')
A0 = z3.Real('mask_amp')
USTD = npshim.USTD


def _mk_ms(amp_mode, amp_kind, freq_src):
    def mk(c):
        c.assume(z3.And(N >= 3, STEPF > 1))
        for ax in canon_axioms(XV, N) + npshim.sum_axioms():
            c.assume(ax)
        c.ghost['calls'] = []
        X = vec_of(XV, N)
        kw = dict(mask_amp_mode=amp_mode, mask_step_factor=SReal(STEPF), ret_mask_freq=True, max_imfs=3, nphases=2, nprocesses=2)
        if amp_kind == 'scalar':
            kw['mask_amp'] = 2         # a python number, as isinstance(mask_amp, (int, float)) expects
        else:
            ma, MA = vec('mask_amp_arr', z3.IntVal(3))
            kw['mask_amp'] = ma
            c.ghost['MA'] = MA
        if freq_src == 'float':
            kw['mask_freqs'] = 0.125
        elif freq_src == 'zc':
            kw['mask_freqs'] = 'zc'
        else:
            mf, MF = vec('user_freqs', z3.IntVal(3))
            kw['mask_freqs'] = mf
            c.ghost['MF'] = MF
        c.ghost['cfg'] = (amp_mode, amp_kind, freq_src)
        return (X,), kw
    return mk


def _gnim_recording_stub(X, z, amp, nphases=4, nprocesses=1, imf_opts=None, envelope_opts=None, extrema_opts=None):
    """modular stub of get_next_imf_mask: the obligations about the layer's mask frequency and amplitude are generated AT THE CALL
    (the call sits in the loop body, i.e. on the 'arbitrary iteration' path of the cut loop)"""
    import sys
    c = core.C()
    fr = sys._getframe(1)
    while fr is not None and 'imf_layer' not in fr.f_locals:
        fr = fr.f_back
    loc = fr.f_locals
    amp_mode, amp_kind, freq_src = c.ghost['cfg']
    k = lift(loc['imf_layer'])
    mfreqs = loc['mask_freqs']
    with core.SpecMode():
        zk = lift(mfreqs[SInt(k)])
    c.oblige('call:layer-frequency-is-the-kth-entry-of-the-frequency-array', to_r(lift(z)) == to_r(zk), 'post')
    a_k = z3.RealVal(2) if amp_kind == 'scalar' else c.ghost['MA'](k)
    Xin = loc['X']
    sdX = USTD(npshim.reify1(lambda t: to_r(Xin.elem(t, z3.IntVal(0))), 'f'), N)
    if amp_mode == 'abs':
        exp = a_k
    elif amp_mode == 'ratio_sig':
        exp = a_k * sdX
    else:
        pim = loc.get('imf')
        if isinstance(pim, SArr):
            sdP = USTD(npshim.reify1(lambda t: pim.elem(t, pim.shape_e[1] - 1), 'f'), N)
            exp = a_k * z3.If(k > 0, sdP, sdX)
        else:
            exp = a_k * sdX
    c.oblige('call:layer-amplitude-follows-the-amplitude-mode', to_r(lift(amp)) == exp, 'post')
    c.oblige('call:phases-and-processes-forwarded', z3.BoolVal(nphases == 2 and nprocesses == 2), 'post')
    c.ghost['n_mask_calls'] = c.ghost.get('n_mask_calls', 0) + 1
    fimf = c.fresh_fun('mimf', I, R)
    return SArr((X.shape_e[0], 1), lambda i, j: fimf(i), 'f'), SBool(c.fresh('mflag', B))


def _decl_imf(e):
    c = core.C()
    k = c.fresh('ncols', I)
    f = c.fresh_fun('imf', I, I, R)
    c.assume(k >= 1)
    return SArr((N, k), lambda i, j: f(i, j), 'f')


def _post_ms(c, a, kw, ret):
    imf, mfreqs = ret
    amp_mode, amp_kind, freq_src = c.ghost['cfg']
    c.oblige('post:three-mask-frequencies-returned', mfreqs.shape_e[0] == 3, 'post')
    if freq_src == 'float':
        c.oblige('post:frequency-ladder', z3.And(*[to_r(mfreqs.elem(z3.IntVal(q))) * _pw(STEPF, q) == z3.RealVal('0.125') for q in range(3)]), 'post')
    elif freq_src == 'zc':
        z0 = to_r(mfreqs.elem(z3.IntVal(0)))
        c.oblige('post:frequency-ladder', z3.And(*[to_r(mfreqs.elem(z3.IntVal(q))) * _pw(STEPF, q) == z0 for q in range(3)]), 'post')
        c.oblige('post:first-frequency-from-zero-crossings-of-the-unmasked-first-imf', z0 * z3.ToReal(N) * 4 == z3.ToReal(ZC(GI(XV, N), N)), 'post')
    else:
        MF = c.ghost['MF']
        c.oblige('post:user-frequencies-passed-through', z3.And(*[to_r(mfreqs.elem(z3.IntVal(q))) == MF(q) for q in range(3)]), 'post')


def to_r(e):
    return z3.ToReal(e) if e.sort() == I else e


def _pw(b, q):
    r = z3.RealVal(1)
    for _ in range(q):
        r = r * b
    return r


def units(tier):
    import emd.sift as ES
    import functools
    U = []
    inl = [('emd/support.py', 'ensure_1d_with_singleton', {}), (SIFT, '_nsamples_warn', {})]
    Ps = (1, 2, 3, 4, 7, 8) if tier == 'quick' else (1, 2, 3, 4, 5, 6, 7, 8)
    for P in Ps:
        for zero in (False, True):
            if zero and P not in (1, 3, 4):
                continue

            def call(f, c, a, kw):
                g = f.__globals__
                g['get_next_imf'] = _gni_recording_stub
                g['mp'] = MPShim
                g['functools'] = functools
                return f(*a, **kw)
            U.append(Unit('get_next_imf_mask[nphases=%d%s]' % (P, ',amp=0' if zero else ''), SIFT, 'get_next_imf_mask', _mk_gnim(P, zero), _post_gnim(P, zero),
                          module=ES, inline=inl, wrap_call=call))
            if not zero and P in (2, 4):
                # the same contract with a single process (serial or one-worker path): identical calls, identical result
                U.append(Unit('get_next_imf_mask[nphases=%d,nprocesses=1]' % P, SIFT, 'get_next_imf_mask', _mk_gnim(P, zero, 1), _post_gnim(P, zero, 1),
                              module=ES, inline=inl, wrap_call=call))
    for mode in ('zc', 'float'):
        def call(f, c, a, kw):
            g = f.__globals__
            g['get_next_imf'] = _gni_recording_stub

            def zcc(x):
                return npshim.array([[SInt(ZC(vreify(x), x.shape_e[0]))]])
            g['zero_crossing_count'] = zcc
            return f(*a, **kw)
        U.append(Unit('get_mask_freqs[%s]' % mode, SIFT, 'get_mask_freqs', _mk_gmf(mode), _post_gmf(mode), module=ES, wrap_call=call, raises={}))
    combos = [('ratio_imf', 'scalar', 'zc'), ('ratio_sig', 'array', 'float'), ('abs', 'array', 'user'), ('ratio_imf', 'array', 'user'), ('abs', 'scalar', 'float')]
    if tier == 'thorough':
        combos += [('ratio_sig', 'scalar', 'zc'), ('ratio_imf', 'scalar', 'float'), ('ratio_sig', 'scalar', 'user')]
    for amp_mode, amp_kind, freq_src in combos:
        def call(f, c, a, kw):
            g = f.__globals__
            g['get_next_imf_mask'] = _gnim_recording_stub
            g['get_next_imf'] = _gni_recording_stub
            g['zero_crossing_count'] = lambda x: npshim.array([[SInt(ZC(vreify(x), x.shape_e[0]))]])
            return f(*a, **kw)
        def sd_inv(e, amp_mode=amp_mode):
            sdX = USTD(npshim.reify1(lambda t: to_r(e.X.elem(t, z3.IntVal(0))), 'f'), N)
            sd = to_r(lift(e.sd))
            if amp_mode == 'abs':
                return SBool(sd == 1)
            if amp_mode == 'ratio_sig':
                return SBool(sd == sdX)
            return implies(e.imf_layer == 0, SBool(sd == sdX))
        loop = {'inv': [('amplitude-scale-per-mode', sd_inv), ('layer-bounded', lambda e: and_(e.imf_layer >= 0, implies(e.continue_sift, lambda: e.imf_layer < e.max_imfs),
                                                             implies(e.imf_layer >= 1, lambda: and_(e.imf.shape[0] == N, e.imf.shape[1] >= 1))))],
                'decl': {'imf': _decl_imf}}
        U.append(Unit('mask_sift[%s,%s amp,%s freqs]' % (amp_mode, amp_kind, freq_src), SIFT, 'mask_sift', _mk_ms(amp_mode, amp_kind, freq_src), _post_ms,
                      loops={0: loop}, module=ES, inline=inl + [(SIFT, 'get_mask_freqs', {})], wrap_call=call))
    return U


def model_witness(unit_name, model):
    return None


# ----------------------------------------------------------------------------- native contract: executable specification of the masking rule

def _x(k=0, n=300):
    t = np.linspace(0, 1, n)
    return [np.sin(2 * np.pi * 31 * t) + 0.8 * np.sin(2 * np.pi * 9 * t + 0.3) + 0.6 * np.sin(2 * np.pi * 2 * t) + t,
            (1 + 0.6 * np.sin(2 * np.pi * 3 * t)) * np.sin(2 * np.pi * (20 * t + 8 * t * t)) + 0.2 * np.cos(2 * np.pi * 4 * t),
            np.cumsum(np.random.RandomState(11).randn(n)) / 4][k % 3]


def spec_next_imf_mask(x, z, amp, nphases, **opts):
    import emd
    x = np.asarray(x, float).reshape(-1, 1)
    t = np.arange(len(x))[:, None]
    outs, flags = [], []
    for p in range(nphases):
        m = amp * np.cos(2 * np.pi * z * t + 2 * np.pi * p / nphases)
        imf, fl = emd.sift.get_next_imf(x + m, **opts)
        outs.append(imf - m)
        flags.append(fl)
    return np.mean(outs, axis=0), any(flags)


def replay(w):
    import emd
    import warnings
    S = emd.sift
    kind = w.get('kind')
    x = _x(w.get('sig', 0))
    if w.get('dtype'):         # the same recording stored as integer counts / in single precision
        x = np.round(x * 500).astype(w['dtype']) if w['dtype'].startswith('int') else x.astype(w['dtype'])
    scale = max(1.0, float(np.abs(x).max()))
    with warnings.catch_warnings():
        warnings.simplefilter('ignore')
        if kind == 'mask_imf':
            z, amp, P = w['z'], w['amp'], w['nphases']
            exp, eflag = spec_next_imf_mask(x, z, amp, P)
            got, flag = S.get_next_imf_mask(x.copy(), z, amp, nphases=P, nprocesses=w.get('nprocesses', 1))
            if got.shape != exp.shape or not np.allclose(got, exp, rtol=1e-10, atol=1e-10 * scale):
                return True, 'get_next_imf_mask(z=%s, amp=%s, nphases=%d) differs from the mean over phases of extraction(signal+mask)-mask: max diff %.3g' % (z, amp, P, np.abs(got - exp).max())
            if bool(flag) != bool(eflag):
                return True, 'continue flag %s, any of the phase flags is %s' % (flag, eflag)
            if amp == 0:
                plain, _ = S.get_next_imf(x[:, None].copy())
                if not np.allclose(got, plain, rtol=1e-12, atol=1e-12 * scale):
                    return True, 'zero-amplitude mask does not reduce to unmasked extraction (max diff %.3g)' % np.abs(got - plain).max()
            return False, 'ok'
        if kind == 'mask_sift':
            kw = dict(w['kw'])
            if isinstance(kw.get('mask_amp'), list):
                kw['mask_amp'] = np.array(kw['mask_amp'])
            if isinstance(kw.get('mask_freqs'), list):
                kw['mask_freqs'] = np.array(kw['mask_freqs'])
            imf, freqs = S.mask_sift(x.copy(), ret_mask_freq=True, **kw)
            step = kw.get('mask_step_factor', 2)
            mf = kw.get('mask_freqs', 'zc')
            if not isinstance(mf, (str, np.ndarray)):
                exp = np.array([mf / step ** k for k in range(kw.get('max_imfs', 9))])
                if not np.allclose(freqs, exp):
                    return True, 'returned mask frequencies %s are not first/step^k = %s' % (np.asarray(freqs).tolist(), exp.tolist())
            elif isinstance(mf, np.ndarray):
                if not np.array_equal(np.asarray(freqs), mf):
                    return True, 'user mask frequencies not returned unchanged'
            else:
                if not np.allclose(np.asarray(freqs)[1:] * step, np.asarray(freqs)[:-1]):
                    return True, 'mask frequency ladder is not a division by the step factor: %s' % np.asarray(freqs).tolist()
            # recompute every layer from the executable specification
            mode = kw.get('mask_amp_mode', 'ratio_imf')
            ma = kw.get('mask_amp', 1)
            resid = x[:, None].copy()
            for k in range(imf.shape[1]):
                a_k = ma if np.isscalar(ma) else ma[k]
                sd = 1.0 if mode == 'abs' else x.std() if (mode == 'ratio_sig' or k == 0) else imf[:, k - 1].std()
                exp, _ = spec_next_imf_mask(resid, freqs[k], a_k * sd, kw.get('nphases', 4))
                if not np.allclose(exp[:, 0], imf[:, k], rtol=1e-9, atol=1e-9):
                    return True, 'IMF %d of mask_sift(%s) is not the documented masked extraction with frequency %.4g and amplitude %.4g (max diff %.3g)' % (
                        k, {kk: (vv if not isinstance(vv, np.ndarray) else vv.tolist()) for kk, vv in kw.items()}, freqs[k], a_k * sd, np.abs(exp[:, 0] - imf[:, k]).max())
                resid = x[:, None] - imf[:, :k + 1].sum(axis=1)[:, None]
            return False, 'ok'
        if kind == 'schedule':
            kw = dict(w['kw'])
            ref = S.mask_sift(x.copy(), nprocesses=1, **kw)
            for npr in w['nprocs']:
                out = S.mask_sift(x.copy(), nprocesses=npr, **kw)
                if out.shape != ref.shape or hashlib.sha1(out.tobytes()).hexdigest() != hashlib.sha1(ref.tobytes()).hexdigest():
                    return True, 'mask_sift result with nprocesses=%d differs from nprocesses=1 (max diff %.3g)' % (npr, np.abs(out - ref).max() if out.shape == ref.shape else -1)
            return False, 'ok'
    return False, 'unknown witness kind'


def refute(tier, seed, emit):
    Ps = range(1, 9) if tier == 'quick' else range(1, 14)      # (every phase count of the property's range on every change: 7 is the one that does not divide 360)
    emit.scope('get_next_imf_mask vs the executable masking rule: nphases %s x mask frequency {0.02, 0.11, 0.31} x amplitude {0, 0.3, 2.5} x 2 signals' % list(Ps), exhaustive=True)
    for P in Ps:
        for z in (0.02, 0.11, 0.31):
            for amp in (0, 0.3, 2.5):
                for sig in (0, 1):
                    emit.case(('mi', P, z, amp, sig), nontrivial=amp != 0, contract='get_next_imf_mask')
                    w = {'kind': 'mask_imf', 'sig': sig, 'z': z, 'amp': amp, 'nphases': P, 'nprocesses': 1 + (P % 3)}
                    ok, msg = replay(w)
                    if ok:
                        emit.violation('masked-imf-is-mean-of-extraction-minus-mask' if amp else 'zero-amplitude-is-unmasked', w, msg)
        if emit.full:
            return
    emit.scope('the same rule on a recording stored as int64 / int32 / float32 (integer counts of amplitude 500): nphases {1, 4} x amplitudes {0, 150} x mask frequency 0.11')
    for dt in ('int64', 'int32', 'float32'):
        for P in (1, 4):
            for amp in (0, 150.0 if dt != 'float32' else 0.3):
                emit.case(('mi-dtype', dt, P, amp), nontrivial=dt != 'float32', contract='get_next_imf_mask')
                w = {'kind': 'mask_imf', 'sig': 0, 'z': 0.11, 'amp': amp, 'nphases': P, 'nprocesses': 1, 'dtype': dt}
                ok, msg = replay(w)
                if ok:
                    emit.violation(('masked-imf-is-mean-of-extraction-minus-mask' if amp else 'zero-amplitude-is-unmasked') + ':%s-input' % dt, w, msg)
    grid = []
    for mode in ('abs', 'ratio_sig', 'ratio_imf'):
        for ma in (1, 0.5, [1.0, 0.5, 0.25, 0.7]):
            for mf in ('zc', 0.15, [0.2, 0.07, 0.03, 0.011]):
                for step in (2, 3):
                    if tier == 'quick' and (step == 3 and mode != 'ratio_imf'):
                        continue
                    grid.append(dict(mask_amp_mode=mode, mask_amp=ma, mask_freqs=mf, mask_step_factor=step, max_imfs=4, nphases=3 if mode == 'abs' else 4))
    if tier == 'quick':
        grid = grid[::2]
    emit.scope('mask_sift(ret_mask_freq=True): %d combinations of amplitude mode x scalar/array amplitude x frequency source {zc, float, list} x step factor: frequency ladder and every layer recomputed from the executable masking rule' % len(grid), exhaustive=True)
    for gi, kw in enumerate(grid):
        emit.case(('ms', gi), contract='mask_sift')
        w = {'kind': 'mask_sift', 'sig': gi % 2, 'kw': kw}
        ok, msg = replay(w)
        if ok:
            emit.violation('mask-frequencies-and-amplitudes-follow-the-documented-rule', w, msg)
        if emit.full:
            return
    nprocs = [2, 3, 8] if tier == 'quick' else [2, 3, 4, 5, 6, 7, 8]       # (8: more workers than mask phases)
    emit.scope('schedule independence: mask_sift with nprocesses in %s vs 1, 4 option sets (one with non-default imf / envelope / extrema options), byte-identical results' % nprocs)
    for gi, kw in enumerate([dict(max_imfs=3), dict(max_imfs=3, mask_freqs='if', nphases=3), dict(max_imfs=4, mask_amp_mode='ratio_sig', nphases=8),
                             dict(max_imfs=3, extrema_opts={'pad_width': 4, 'parabolic_extrema': True}, envelope_opts={'interp_method': 'pchip'}, imf_opts={'sd_thresh': 0.05})]):
        emit.case(('sched', gi), contract='mask_sift')
        w = {'kind': 'schedule', 'sig': gi, 'kw': kw, 'nprocs': nprocs}
        ok, msg = replay(w)
        if ok:
            emit.violation('result-independent-of-nprocesses', w, msg)
