"""Bookkeeping for one check run: PROVE results, REFUTE results, replay files, evidence, exit code."""
import hashlib
import json
import multiprocessing as mp
import os
import time
import traceback

import z3



def _json_default(o):
    try:
        import numpy as np
        if isinstance(o, np.ndarray):
            return o.tolist()
        if isinstance(o, (np.integer,)):
            return int(o)
        if isinstance(o, (np.floating,)):
            return float(o)
        if isinstance(o, (np.bool_,)):
            return bool(o)
    except ImportError:
        pass
    return repr(o)

TLIMIT = {'quick': 20, 'thorough': 120}

_UNITS = []
_REPO = None


def _worker_init():
    """(pool workers are single-threaded: the cyclic collector, switched off in the parent - see vf/run.py - is safe and wanted here)"""
    import gc
    gc.enable()


def _explore_worker(i):
    """Explore one unit in a worker process; return a picklable summary (SMT-LIB strings)."""
    from pyvc import verify
    u = _UNITS[i]
    import signal

    def _too_long(signum, frame):
        raise ExploreTimeout()
    try:
        signal.signal(signal.SIGALRM, _too_long)
        signal.alarm(EXPLORE_LIMIT)
    except (ValueError, AttributeError):
        pass
    try:
        r = verify.explore(u, _REPO)
    except ExploreTimeout:
        return {'i': i, 'crash': 'exploration of unit %s exceeded %d s (engine limit, not a verdict about the code)' % (u.name, EXPLORE_LIMIT)}
    except Exception:
        return {'i': i, 'crash': traceback.format_exc(limit=6)}
    finally:
        try:
            signal.alarm(0)
        except (ValueError, AttributeError):
            pass
    obls = []
    for o in r.obligations:
        triv = z3.is_true(o.goal) and not o.hyps
        obls.append({'name': o.name, 'kind': o.kind, 'path': o.path, 'note': o.note, 'trivial': triv,
                     'smt2': None if triv else verify.smt2_of(o.hyps, o.goal)})
    from pyvc.core import _has_quant
    # vacuity canary on the quantifier-free projection of each path condition (decidable, fast)
    can = [verify.smt2_of([h for h in pc if not _has_quant(h)], z3.BoolVal(False)) for pc, ended, prefix in r.canary if pc]
    return {'i': i, 'paths': r.paths, 'exc_paths': r.exc_paths, 'undecided': r.undecided_reason, 'gen_s': r.gen_s,
            'obls': obls, 'canary': can, 'loopsig': getattr(r, 'loopsig', ''), 'auto_inlined': list(getattr(r, 'auto_inlined', []) or [])}


def _collect(it, limit, what):
    """Results of a pool iterator.  multiprocessing.Pool never delivers the task of a worker that died (seen: a crash inside libz3) and,
    if the worker died holding the task-queue lock, starves every other worker: without a limit the check would hang forever.  No
    result at all for `limit` seconds is a checker error (exit 3), never a verdict."""
    import multiprocessing
    while True:
        try:
            yield it.next(timeout=limit)
        except StopIteration:
            return
        except multiprocessing.TimeoutError:
            raise RuntimeError('worker pool delivered nothing for %d s during %s (a worker process died?)' % (limit, what))


def _lemma_worker(i):
    from pyvc import verify
    name, hyps, goal = _UNITS[i]
    return {'i': i, 'smt2': verify.smt2_of(hyps, goal)}


EXPLORE_LIMIT = 600         # seconds of symbolic exploration per unit (normally seconds; the slowest unit takes about 40 s)


class ExploreTimeout(BaseException):
    """(a BaseException: the engine's `except Exception` around the code under verification must not take it for an exception of the code)"""


class CaseTimeout(BaseException):
    """one case of the bounded stand-in ran longer than the per-case limit (the code under test does not seem to terminate on it).
    A BaseException: the `except Exception` clauses of the native contracts (which turn exceptions of the code into violations) must not
    swallow it - the stand-in ends here."""


CASE_LIMIT = {'quick': 600, 'thorough': 1800}      # seconds per bounded case (cases normally take milliseconds to seconds)
if os.environ.get('VERIF_CASE_LIMIT'):             # (debugging the watchdog itself)
    CASE_LIMIT = {'quick': int(os.environ['VERIF_CASE_LIMIT']), 'thorough': int(os.environ['VERIF_CASE_LIMIT'])}


class Emit:
    """Handed to contracts.<prop>.refute(): counts evaluations, distinct non-trivial cases, samples, violations."""

    case_limit = 0
    current = None

    def __init__(self, maxviol=5):
        self.evaluations = 0
        self.nontrivial = set()
        self.samples = []
        self.violations = []
        self.scopes = []
        self.maxviol = maxviol
        self.contract_evals = {}
        self.exhaustive = []

    def case(self, key, nontrivial=True, contract=None):
        self.evaluations += 1
        self.current = key
        if self.case_limit:
            import signal
            signal.alarm(self.case_limit)         # re-armed by every case: fires only if ONE case runs that long
        if nontrivial:
            h = hashlib.blake2b(repr(key).encode(), digest_size=8).digest()
            self.nontrivial.add(h)
        if contract:
            self.contract_evals[contract] = self.contract_evals.get(contract, 0) + 1
        if len(self.samples) < 4 and nontrivial:
            self.samples.append(key)

    def violation(self, clause, witness, what):
        """witness: json-able dict with key 'kind' understood by contracts.<prop>.replay"""
        if sum(1 for v in self.violations if v['clause'] == clause) >= 2:
            return
        w = dict(witness)
        w['clause'] = clause
        w['what'] = what
        self.violations.append(w)

    def scope(self, text, exhaustive=False):
        self.scopes.append(text)
        self.exhaustive.append(exhaustive)

    @property
    def full(self):
        return len(self.violations) >= self.maxviol


class Report:
    def __init__(self, prop, tier, seed, mod, root, repo, selftest=False):
        self.prop, self.tier, self.seed, self.mod, self.root, self.repo = prop, tier, seed, mod, root, repo
        self.selftest = selftest
        self.errors = []
        self.undecided = []          # (obligation uid / unit, reason)
        self.prove_rows = []         # dict per obligation
        self.units_info = []
        self.violations = []         # dicts: clause, what, witness, reproduced(bool), source
        self.emit = None
        self.refute_error = None
        self.refute_ran = False
        self.canaries = (0, [])
        self.solver_time = {}
        self.prove_wall = 0.0
        self.refute_wall = 0.0
        self.lemma_rows = []
        self.libcheck = None

    def checker_error(self, msg):
        self.errors.append(msg)

    @property
    def loopsigs(self):
        if not hasattr(self, '_loopsigs'):
            self._loopsigs = {}
        return self._loopsigs

    # ------------------------------------------------------------------ PROVE
    def prove(self, verify, a):
        global _UNITS, _REPO
        t0 = time.time()
        mod = self.mod
        units = list(mod.units(self.tier)) if hasattr(mod, 'units') else []
        if getattr(a, 'only', None):
            units = [u for u in units if a.only in u.name]
            self.selftest = True
        lemmas = list(mod.lemmas(self.tier)) if hasattr(mod, 'lemmas') else []
        if not units and not lemmas:
            return
        # assumed library contracts vs the real numpy (every run)
        try:
            from vf import libcheck
            n_lib, lib_fails = libcheck.run()
            self.libcheck = {'contracts_crosschecked': n_lib, 'failures': lib_fails, 'elements_determined': libcheck.STATS['determined'], 'elements_consistent_only': libcheck.STATS['consistent']}
            if lib_fails:
                self.checker_error('assumed library contract contradicts numpy: %s' % lib_fails[:3])
        except Exception:
            self.libcheck = {'error': traceback.format_exc(limit=2)}
        tl = TLIMIT[self.tier]
        procs = min(16, os.cpu_count() or 4)
        _UNITS, _REPO = units, self.repo
        summaries = []
        with mp.get_context('fork').Pool(procs, initializer=_worker_init) as pool:
            if units:
                summaries = list(_collect(pool.imap(_explore_worker, range(len(units)), chunksize=1), EXPLORE_LIMIT + 120, 'exploration'))
            jobs = []
            meta = {}
            counts = {}
            canjobs = []
            for s in summaries:
                u = units[s['i']]
                if 'crash' in s:
                    self.undecided.append((u.name, 'engine crash: ' + s['crash'].strip().split('\n')[-1]))
                    self.units_info.append({'unit': u.name, 'function': u.qualname, 'paths': 0, 'obligations': 0, 'undecided': 'engine crash'})
                    if a.v:
                        print(s['crash'])
                    continue
                if s['undecided']:
                    self.undecided.append((u.name, s['undecided']))
                self.loopsigs[u.name] = s.get('loopsig', '')
                self.units_info.append({'unit': u.name, 'function': u.qualname, 'file': u.path, 'paths': s['paths'], 'raising_paths': s['exc_paths'],
                                        'obligations': len(s['obls']), 'undecided': s['undecided'], 'gen_s': round(s['gen_s'], 2),
                                        'helpers_rebuilt_on_demand': s.get('auto_inlined', [])})
                for o in s['obls']:
                    base = '%s::%s' % (u.name, o['name'])
                    n = counts.get(base, 0)
                    counts[base] = n + 1
                    uid = '%s#%d' % (base, n)
                    meta[uid] = dict(o, unit=u, base=base, uid=uid)
                    if o['trivial']:
                        self.prove_rows.append({'uid': uid, 'base': base, 'kind': o['kind'], 'status': 'unsat', 'backend': 'simplifier', 'time': 0.0})
                    else:
                        jobs.append((uid, o['smt2'], u.observables, tl, True))
                for n, c in enumerate(s['canary']):
                    canjobs.append(('%s::canary#%d' % (u.name, n), c, [], 2, False))
            # lemmas: pure formulas over the contracts
            for name, hyps, goal in lemmas:
                uid = 'lemma::%s' % name
                meta[uid] = {'unit': None, 'base': uid, 'uid': uid, 'kind': 'lemma', 'note': '', 'path': [], 'smt2': verify.smt2_of(hyps, goal)}
                jobs.append((uid, meta[uid]['smt2'], [], tl, True))
                if hyps:        # vacuity canary: contradictory hypotheses would make the lemma true for no reason
                    canjobs.append(('lemma-canary::%s' % name, verify.smt2_of(list(hyps), z3.BoolVal(False)), [], 2, False))
            t_explore = time.time() - t0
            results = {}
            for r in _collect(pool.imap_unordered(verify.solve_one, jobs, chunksize=1), tl * 8 + 120, 'solving'):
                results[r['uid']] = r
            t_solve = time.time() - t0
            bad = []
            for r in _collect(pool.imap_unordered(verify.solve_one, canjobs, chunksize=1), tl * 8 + 120, 'solving'):
                if r['status'] == 'unsat':
                    bad.append(r['uid'])
            self.canaries = (len(canjobs), bad)
            t_can = time.time() - t0
            # patience pass: on a busy machine a time-out says little.  An obligation of the committed baseline that timed out on every
            # back end (no counter-model) is tried again with three times the budget when the load average shows the cores are contended.
            self.patience = {'load': None, 'retried': 0, 'recovered': 0}
            try:
                load = os.getloadavg()[0]
            except OSError:
                load = 0.0
            self.patience['load'] = round(load, 1)
            base0 = self._baseline()
            base_names0 = (set(base0['discharged']) | set(base0.get('discharged_thorough', {}))) if base0 else set()
            slow = [uid for uid, r in results.items() if r['status'] in ('unknown', 'timeout') and meta[uid]['base'] in base_names0]
            if slow and load > 0.5 * (os.cpu_count() or 16):
                self.patience['retried'] = len(slow)
                for r in _collect(pool.imap_unordered(verify.solve_one, [(uid, meta[uid]['smt2'], meta[uid]['unit'].observables if meta[uid]['unit'] is not None else [], tl * 3, True) for uid in slow], chunksize=1), tl * 3 * 8 + 120, 'solving'):
                    if r['status'] == 'unsat':
                        r['backend'] = r['backend'] + ' (patience pass, load %.1f)' % load
                        r['tries'] = (results[r['uid']].get('tries') or []) + (r.get('tries') or [])
                        results[r['uid']] = r
                        self.patience['recovered'] += 1
            # bounded model search for undecided obligations: fix the length scalars to small values
            retry = []
            for uid, r in results.items():
                u = meta[uid]['unit']
                if r['status'] in ('unknown', 'timeout') and u is not None and getattr(u, 'bound_scalars', None):
                    for k in range(1, 6):
                        extra = ''.join('(assert (= %s %d))\n' % (nm, k + off) for nm, off in u.bound_scalars)
                        s2 = meta[uid]['smt2'].replace('(check-sat)', extra + '(check-sat)')
                        retry.append(('%s@n=%d' % (uid, k), s2, u.observables, 6, False))
            found = {}
            for r in _collect(pool.imap_unordered(verify.solve_one, retry, chunksize=1), tl * 8 + 120, 'solving'):
                if r['status'] == 'sat':
                    uid = r['uid'].split('@n=')[0]
                    if uid not in found or r['uid'] < found[uid]['uid']:
                        found[uid] = r
        for uid, r in results.items():
            m = meta[uid]
            row = {'uid': uid, 'base': m['base'], 'kind': m['kind'], 'status': r['status'], 'backend': r['backend'], 'time': r['time'],
                   'tries': r.get('tries'), 'reason': r.get('reason', ''), 'note': m.get('note', '')}
            for be, st, dt in r.get('tries', []):
                self.solver_time[be] = self.solver_time.get(be, 0.0) + dt
            if r['status'] == 'sat':
                row['model'] = r.get('model')
            elif uid in found:
                row['bounded_model'] = found[uid].get('model')
                row['bounded_model_at'] = found[uid]['uid']
            row['path'] = m.get('path')
            row['unit'] = m['unit'].name if m['unit'] is not None else None
            self.prove_rows.append(row)
        self.prove_wall = time.time() - t0
        if a.v:
            print('PROVE phases: explore %.1fs solve %.1fs canary %.1fs total %.1fs' % (t_explore, t_solve, t_can, self.prove_wall))
            slow = sorted(((sum(dt for _, _, dt in (r.get('tries') or [])), r['uid'], r.get('tries')) for r in self.prove_rows), reverse=True)[:6]
            for dt, uid, tries in slow:
                if dt > 2.0:
                    print('  slow: %.1fs %s %s' % (dt, uid, [(b, st, round(t, 1)) for b, st, t in tries]))

    # ------------------------------------------------------------------ REFUTE
    def refute(self, a):
        t0 = time.time()
        self.emit = Emit()
        import signal

        def _on_alarm(signum, frame):
            raise CaseTimeout()
        old = None
        try:
            old = signal.signal(signal.SIGALRM, _on_alarm)
            self.emit.case_limit = CASE_LIMIT[self.tier]
        except (ValueError, AttributeError):       # not in the main thread / no SIGALRM: no watchdog
            self.emit.case_limit = 0
        try:
            self.mod.refute(self.tier, self.seed, self.emit)
        except CaseTimeout:
            lim = self.emit.case_limit
            self.emit.violations.append({'kind': '__timeout__', 'clause': 'terminates:a-bounded-case-ran-longer-than-%ds' % lim,
                                         'what': 'the real code did not return within %d s on the bounded case %r (cases of this scope take milliseconds to seconds on the committed tree); the remaining scopes were not run' % (lim, self.emit.current),
                                         'case': repr(self.emit.current)})
        finally:
            if self.emit.case_limit:
                signal.alarm(0)
                if old is not None:
                    signal.signal(signal.SIGALRM, old)
        self.refute_ran = True
        self.refute_wall = time.time() - t0

    # ------------------------------------------------------------------ verdicts
    def _baseline(self):
        p = os.path.join(self.root, 'baseline', self.prop + '.json')
        if os.path.exists(p):
            return json.load(open(p))
        return None

    def _write_replay(self, n, payload):
        d = os.path.join(self.root, 'replay')
        if self.selftest:
            return '(selftest: not written)'
        os.makedirs(d, exist_ok=True)
        p = os.path.join(d, '%s-%d.json' % (self.prop, n))
        with open(p, 'w') as _fh:
            json.dump(payload, _fh, indent=1, default=_json_default)
        return p

    def finish(self, known, wall, write_baseline=False):
        mod = self.mod
        prop = self.prop
        base = self._baseline()
        # the quick and the thorough tier have their own lists (the thorough tier adds units); an obligation either list discharges is protected
        base_names = (set(base['discharged']) | set(base.get('discharged_thorough', {}))) if base else None
        tier_key = 'discharged' if self.tier == 'quick' else 'discharged_thorough'
        tier_names = set(base[tier_key]) if (base and tier_key in base) else None
        # loops that have been restructured since the baseline was written (other kind of loop, other loop condition, other set of variables
        # assigned in the body, a break added or removed): the sidecar's loop invariant was written for another loop, so a refused
        # establish / preserve obligation says nothing about the property - it is undecided.  Postconditions, frame and exception
        # obligations of the same unit are judged as always.
        base_sigs = (base or {}).get('loopsig', {})
        restructured = set(u for u, sg in self.loopsigs.items() if u in base_sigs and base_sigs[u] != sg)
        rows = self.prove_rows
        n_obl = len(rows)
        n_dis = sum(1 for r in rows if r['status'] == 'unsat')
        viols = []
        pending_refusals = []
        undecided = list(self.undecided)

        # 1. solver refusals
        for r in rows:
            if r['status'] == 'unsat':
                continue
            model = r.get('model') if r.get('model') is not None else r.get('bounded_model')
            in_base = base_names is not None and r['base'] in base_names
            wit, repro, msg = None, False, ''
            if model is not None and hasattr(mod, 'model_witness') and r.get('unit'):
                try:
                    wit = mod.model_witness(r['unit'], model)
                    if wit is not None:
                        repro, msg = mod.replay(wit)
                except Exception:
                    msg = 'replay of the counter-model crashed: ' + traceback.format_exc(limit=1).strip().split('\n')[-1]
            if repro:
                viols.append({'clause': wit.get('clause', r['base']), 'what': msg, 'witness': wit, 'reproduced': True, 'source': 'PROVE counter-model',
                              'obligation': r['uid'], 'solver': r.get('tries')})
            elif r['kind'] == 'inv' and r.get('unit') in restructured:
                undecided.append((r['uid'], '%s: the loop has been restructured since the baseline was written (the invariant belongs to another loop) - not comparable' % r['status']))
            elif in_base or (r['kind'] in ('frame', 'exc') and r['status'] == 'sat' and base_names is not None):
                # (a frame / undocumented-exception obligation exists only when the write / raise is reachable: a counter-model is definite)
                # an obligation the committed baseline discharges is refused on this run: a counter-model, or no back end
                # (z3 5.1, cvc5, z3 4.8) discharges it within the budget.  Reported as a violation without a failing input.
                how = 'refused with a counter-model' if r['status'] == 'sat' else 'no longer discharged by any back end within %ds each (%s)' % (TLIMIT[self.tier], r.get('tries'))
                pending_refusals.append({'clause': 'obligation:' + r['base'], 'what': 'obligation discharged on the committed baseline is %s %s' % (how, msg),
                                         'witness': {'kind': 'obligation', 'obligation': r['uid'], 'model': model, 'solver_output': r.get('tries'), 'reason': r.get('reason', '')},
                                         'reproduced': False, 'source': 'PROVE refusal', 'obligation': r['uid'], 'solver': r.get('tries'), 'path': r.get('path')})
            else:
                undecided.append((r['uid'], '%s %s (not in the committed baseline)' % (r['status'], r.get('reason', ''))))

        # 2. bounded stand-in
        if self.emit is not None:
            for w in self.emit.violations:
                if w.get('kind') == '__timeout__':       # not replayed (it would not return either)
                    viols.append({'clause': w['clause'], 'what': w['what'], 'witness': w, 'reproduced': False, 'source': 'REFUTE (bounded stand-in), per-case time limit'})
                    continue
                try:
                    ok, msg = mod.replay(w)
                except Exception:
                    ok, msg = True, 'replay crashed: ' + traceback.format_exc(limit=1).strip().split('\n')[-1]
                if ok:
                    viols.append({'clause': w['clause'], 'what': w['what'] + ' | replay: ' + msg, 'witness': w, 'reproduced': True, 'source': 'REFUTE (bounded stand-in)'})
                else:
                    # the stand-in observed a violation on the real code, but running the recorded witness again did not show it (a
                    # non-deterministic failure, or a witness that does not carry everything the scope used): still a violation - reported
                    # without a failing input that can be relied on.  (Never seen on the unchanged tree; demoting it to "undecided" once
                    # hid a real detection, seeded change C20-4.)
                    viols.append({'clause': w['clause'], 'what': w['what'] + ' | NOT reproduced when the witness was run again: ' + msg, 'witness': w, 'reproduced': False,
                                  'source': 'REFUTE (bounded stand-in), not reproduced on replay'})

        # refusals without a concrete input are reported only if no concrete violation already explains the run
        if pending_refusals:
            known_cl = set(f['clause'] for f in known)
            if any(v['clause'] not in known_cl for v in viols):      # (a listed known finding explains nothing new)
                for v in pending_refusals:
                    undecided.append((v['obligation'], 'refused; a concrete violation is reported for this run'))
            else:
                viols.extend(pending_refusals)

        # 3. baseline drift: obligations that used to exist and are gone
        if tier_names is not None and rows:
            now = set(r['base'] for r in rows)
            for b in sorted(tier_names - now):
                undecided.append((b, 'obligation of the committed baseline was not generated on this run'))

        # known findings
        known_clauses = {f['clause']: f for f in known}
        printed_known = set()
        new_viol = []
        for v in viols:
            f = known_clauses.get(v['clause'])
            if f is not None:
                if f['clause'] not in printed_known:
                    print('KNOWN-FINDING: property=%s %s' % (prop, f['what']))
                    printed_known.add(f['clause'])
            else:
                new_viol.append(v)
        for f in known:
            if f['clause'] not in printed_known and f.get('always_print', True):
                print('KNOWN-FINDING: property=%s %s' % (prop, f['what']))

        code = 0
        seen = set()
        for n, v in enumerate(new_viol):
            if v['clause'] in seen:
                continue
            seen.add(v['clause'])
            path = self._write_replay(n, v)
            tail = '' if v['reproduced'] else ' no-failing-input-found'
            print('VIOLATION property=%s replay=%s clause=%s%s' % (prop, path, v['clause'], tail) if False else
                  'VIOLATION property=%s replay=%s%s' % (prop, path, tail))
            print('  clause: %s\n  what: %s' % (v['clause'], str(v['what'])[:600]))
            code = 1
        for uid, why in undecided[:40]:
            print('UNDECIDED obligation=%s reason=%s' % (uid, str(why)[:300]))

        # checker sanity
        claimed_prove = hasattr(mod, 'units') or hasattr(mod, 'lemmas')
        if self.errors:
            for e in self.errors:
                print('CHECKER-ERROR property=%s %s' % (prop, e))
            if code == 0:
                code = 3
        if claimed_prove and n_obl == 0 and not self.undecided and code == 0 and not self.errors:
            print('CHECKER-ERROR property=%s zero obligations generated' % prop)
            code = 3
        if self.canaries[1] and code == 0:
            print('CHECKER-ERROR property=%s vacuous path conditions: %s' % (prop, self.canaries[1][:5]))
            code = 3
        if self.refute_error:
            # (always shown: next to a violation it tells that the bounded stand-in did not finish its scopes)
            print('CHECKER-ERROR property=%s bounded stand-in crashed:\n%s' % (prop, self.refute_error))
            if code == 0:
                code = 3
        if code == 0 and undecided and not self.refute_ran and n_dis == 0:
            code = 2

        if write_baseline and code == 0:
            os.makedirs(os.path.join(self.root, 'baseline'), exist_ok=True)
            names = {}
            for r in rows:
                if r['status'] == 'unsat':
                    names[r['base']] = names.get(r['base'], 0) + 1
            notall = set(r['base'] for r in rows if r['status'] != 'unsat')
            for b in notall:
                names.pop(b, None)
            if tier_names is not None:
                for b in sorted(tier_names - set(names)):       # make a protected obligation that silently disappears from the list visible
                    print('BASELINE-DROPPED property=%s tier=%s obligation=%s (was protected, is no longer generated / discharged)' % (prop, self.tier, b))
            out = dict(base) if base else {'property': prop, 'discharged': {}}
            out['property'] = prop
            out[tier_key] = names
            sigs = dict(out.get('loopsig', {}))
            sigs.update({u: sg for u, sg in self.loopsigs.items() if sg})
            out['loopsig'] = sigs
            _bp = os.path.join(self.root, 'baseline', prop + '.json')          # (written whole, then moved into place: other runs may be reading it)
            with open(_bp + '.tmp%d' % os.getpid(), 'w') as _fh:
                json.dump(out, _fh, indent=1, sort_keys=True)
            os.replace(_bp + '.tmp%d' % os.getpid(), _bp)

        if not self.selftest:
            self._evidence(code, n_obl, n_dis, undecided, new_viol, wall, known)
        print('%s tier=%s obligations=%d discharged=%d undecided=%d paths=%d bounded_evaluations=%d violations=%d wall=%.1fs exit=%d' % (
            prop, self.tier, n_obl, n_dis, len(undecided), sum(u.get('paths', 0) for u in self.units_info),
            self.emit.evaluations if self.emit else 0, len(new_viol), wall, code))
        return code

    def _evidence(self, code, n_obl, n_dis, undecided, viols, wall, known):
        mod = self.mod
        by_backend = {}
        for r in self.prove_rows:
            if r['status'] == 'unsat':
                by_backend[r['backend']] = by_backend.get(r['backend'], 0) + 1
        by_kind = {}
        for r in self.prove_rows:
            k = by_kind.setdefault(r['kind'], [0, 0])
            k[0] += 1
            k[1] += 1 if r['status'] == 'unsat' else 0
        slow = sorted(self.prove_rows, key=lambda r: -r['time'])[:5]
        proof_ok = n_obl > 0 and n_dis == n_obl and not undecided
        level = getattr(mod, 'LEVEL', 'proof')
        if level == 'proof' and not proof_ok:
            level = 'other'
        emit = self.emit
        cov = {
            'obligations': n_obl,
            'discharged': n_dis,
            'checker_cmd': './check %s --tier %s' % (self.prop, self.tier),
            'trusted_base': list(getattr(mod, 'ASSUMPTIONS', [])),
            'functions_under_contract': list(getattr(mod, 'FUNCTIONS', [])),
            'units': self.units_info,
            'paths': sum(u.get('paths', 0) for u in self.units_info),
            'by_backend': by_backend,
            'by_obligation_kind': {k: {'generated': v[0], 'discharged': v[1]} for k, v in by_kind.items()},
            'solver_time_s': {k: round(v, 2) for k, v in self.solver_time.items()},
            'slowest_obligations': [{'uid': r['uid'], 'time_s': r['time'], 'backend': r['backend']} for r in slow],
            'undecided': [{'obligation': u, 'reason': str(w)[:300]} for u, w in undecided],
            'not_covered': list(getattr(mod, 'NOT_COVERED', [])),
            'canaries': {'path_conditions_probed': self.canaries[0], 'vacuous': self.canaries[1]},
            'lib_axioms_crosschecked': self.libcheck,
            'prove_wall_s': round(self.prove_wall, 1),
            'patience_pass': getattr(self, 'patience', None),
            'explanation': ('All verification conditions generated on this run from the current source of the functions under contract were discharged.'
                            if proof_ok else 'Not every obligation was discharged on this run (see undecided / violations); the run is not counted as a proof.')
                           + ' The bounded stand-in below is labelled bounded and is never counted as proved.',
        }
        if emit is not None:
            cov.update({
                'evaluations': emit.evaluations,
                'distinct_nontrivial': len(emit.nontrivial),
                'rule': 'BOUNDED stand-in (run-time contracts on the real functions): ' + ' ; '.join(emit.scopes) +
                        ' . A case is non-trivial when it exercises the clause under test (stated per scope); distinct by hash of the input.',
                'samples': emit.samples[:4] or ['(none)'],
                'bounded': {'scopes': emit.scopes, 'exhaustive_scopes': emit.exhaustive, 'contract_evaluations': emit.contract_evals, 'wall_s': round(self.refute_wall, 1)},
            })
        else:
            cov['samples'] = [r['uid'] for r in self.prove_rows[:3]] or ['(none)']
        ev = {
            'property_id': self.prop, 'tier': self.tier, 'seed': self.seed, 'level': level, 'coverage': cov,
            'assumptions': list(getattr(mod, 'ASSUMPTIONS', [])),
            'wall_s': round(wall, 2), 'violations': len(viols),
            'known_findings_listed': [f['clause'] for f in known],
        }
        os.makedirs(os.path.join(self.root, 'evidence'), exist_ok=True)
        _ep = os.path.join(self.root, 'evidence', self.prop + '.json')
        with open(_ep + '.tmp%d' % os.getpid(), 'w') as _fh:
            json.dump(ev, _fh, indent=1, default=_json_default)
        os.replace(_ep + '.tmp%d' % os.getpid(), _ep)
