"""Check runner:  python -m vf.run <Cxx> --tier quick|thorough [--replay file]

PROVE  (pyvc: VCs from the real source, z3/cvc5)  ->  REFUTE (native contracts on small scopes, bounded)
-> REPLAY of every counter-model / witness on the real code -> evidence + exit code.

exit 0  every obligation discharged (or only undecided ones remain and the bounded stand-in found nothing)
exit 1  VIOLATION property=<id> replay=<path>
exit 2  undecided and nothing could be explored
exit 3  checker broken (zero obligations, vacuous path, canary discharged, import failure)
"""
import argparse
import importlib
import json
import os
import sys
import time
import traceback
import warnings

warnings.filterwarnings('ignore')
# single-threaded numeric libraries: the checks fork worker pools (their own and the library's); scipy's FFT thread pool, once started in the
# parent (hilbert transform), has a pre-fork handler that can dead-lock the next fork - observed once by a sub-agent on the unchanged library.
# (Set before numpy / scipy are imported.  A dead-lock would otherwise end as a spurious "did not terminate" report of the watchdog.)
for _v in ('OMP_NUM_THREADS', 'OPENBLAS_NUM_THREADS', 'MKL_NUM_THREADS', 'DUCC0_NUM_THREADS', 'NUMEXPR_NUM_THREADS'):
    os.environ.setdefault(_v, '1')
ROOT = os.path.dirname(os.path.dirname(os.path.abspath(__file__)))
REPO = os.environ.get('VERIF_REPO', '/repo')
if REPO != '/repo':
    sys.path.insert(0, REPO)      # scratch copies for the sensitivity self-test
sys.path.insert(0, ROOT)
sys.setrecursionlimit(20000)


def _json_default(o):
    try:
        import numpy as np
        if isinstance(o, np.ndarray):
            return o.tolist()
        if isinstance(o, (np.integer,)):
            return int(o)
        if isinstance(o, (np.floating,)):
            return float(o)
        if isinstance(o, (np.bool_,)):
            return bool(o)
    except ImportError:
        pass
    return repr(o)


def load_known(prop):
    p = os.path.join(ROOT, 'known_findings.json')
    if not os.path.exists(p):
        return []
    data = json.load(open(p))
    return [f for f in data.get('findings', []) if f.get('property') == prop and f.get('status') == 'finding']


def main(argv=None):
    ap = argparse.ArgumentParser()
    ap.add_argument('prop')
    ap.add_argument('--tier', default=os.environ.get('VERIF_TIER', 'quick'), choices=['quick', 'thorough'])
    ap.add_argument('--replay')
    ap.add_argument('--no-prove', action='store_true')
    ap.add_argument('--no-refute', action='store_true')
    ap.add_argument('--write-baseline', action='store_true')
    ap.add_argument('--selftest', action='store_true', help='scratch-copy run: no evidence, no replay files under /verif')
    ap.add_argument('-v', action='store_true')
    ap.add_argument('--only', help='debug: only units whose name contains this substring (evidence not written)')
    a = ap.parse_args(argv)
    prop = a.prop
    # No cyclic garbage collection in THIS process.  While the worker pool exists, multiprocessing runs three helper threads in it; a
    # collection triggered by one of them finalises z3 objects (Z3_dec_ref) from that thread while the main thread is inside libz3
    # building the next formula - libz3 is not thread-safe, and the heap corruption showed up as rare exits 134 / 139 (malloc abort,
    # crash in Z3_del_context at exit) of checks that had already printed their verdict.  Reference counting still frees everything
    # that is not in a cycle, the process is short-lived, and the (single-threaded) workers switch the collector back on.
    import gc
    gc.disable()
    seed = int(os.environ.get('VERIF_SEED', '0') or 0)
    t0 = time.time()
    try:
        import emd      # noqa: F401  (the real package, from REPO's working tree)
        mod = importlib.import_module('contracts.' + prop)
    except Exception:
        traceback.print_exc()
        print('CHECKER-ERROR property=%s cannot import the repository or the contracts' % prop)
        return 3
    if a.replay:
        w = json.load(open(a.replay))
        ok, msg = mod.replay(w)
        print('REPLAY %s: %s' % ('reproduces the violation' if ok else 'does not reproduce', msg))
        return 1 if ok else 0

    from pyvc import verify
    from vf import report
    # partial (debug) runs and scratch-copy runs never touch the evidence / replay files
    partial = a.no_prove or a.no_refute or os.path.realpath(REPO) != os.path.realpath('/repo')
    rep = report.Report(prop, a.tier, seed, mod, ROOT, REPO, selftest=a.selftest or partial)
    known = load_known(prop)

    # ---------------- PROVE
    if not a.no_prove:
        try:
            rep.prove(verify, a)
        except Exception:
            traceback.print_exc()
            rep.checker_error('PROVE crashed: %s' % traceback.format_exc(limit=1).strip().split('\n')[-1])
    # ---------------- REFUTE (bounded stand-in)
    if not a.no_refute and hasattr(mod, 'refute'):
        try:
            rep.refute(a)
        except Exception:
            traceback.print_exc()
            rep.refute_error = traceback.format_exc(limit=2)
    code = rep.finish(known, time.time() - t0, write_baseline=a.write_baseline)
    return code


if __name__ == '__main__':
    _code = main()
    # Leave without running the interpreter's finalisers: everything the check produces (verdict lines, evidence, replay files) has been
    # written and closed by now, and tearing down native libraries (libz3 contexts, scipy thread pools, logging handlers the code under
    # test installed) at interpreter exit is the one place where a crash could still turn a finished verdict into exit 139.
    try:
        sys.stdout.flush()
        sys.stderr.flush()
    except Exception:
        pass
    os._exit(_code if isinstance(_code, int) else 1)
