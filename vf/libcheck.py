"""Cross-check of the ASSUMED library contracts (pyvc/npshim.py, the np.pad stub of C05) against the real NumPy on enumerated
small inputs, on every run.  A mismatch means the axiom - not the repository - is wrong: the check reports a checker error (exit 3).
This does not make the contracts proved; it makes wrong ones unlikely to survive.

Method: concrete NumPy arrays are turned into symbolic arrays whose elements are fixed by assumptions; the shim is applied; for every
element of the real NumPy result the solver must prove  (assumptions of the shim)  |-  shim_result[idx] == numpy_result[idx].
"""
import itertools
import numpy as np
import z3
from pyvc import core, npshim
from pyvc.core import Ctx, SArr, SInt, SReal, lift, I, R, B

_n = itertools.count()


def sym(c, a):
    a = np.asarray(a)
    kind = 'b' if a.dtype == bool else 'i' if np.issubdtype(a.dtype, np.integer) else 'f'
    f = z3.Function('lc%d' % next(_n), *([I] * a.ndim + [core.SORT[kind]]))
    nanf = None
    for ix in itertools.product(*[range(s) for s in a.shape]):
        v = a[ix]
        if kind == 'f' and v != v:
            continue
        c.assume(f(*[z3.IntVal(i) for i in ix]) == lift(v.item()))
    if kind == 'f' and np.isnan(a).any():
        g = z3.Function('lcn%d' % next(_n), *([I] * a.ndim + [B]))
        for ix in itertools.product(*[range(s) for s in a.shape]):
            c.assume(g(*[z3.IntVal(i) for i in ix]) == bool(np.isnan(a[ix])))
        nanf = lambda *ix: g(*ix)
    return SArr(a.shape, lambda *ix: f(*ix), kind, nan=nanf)


STATS = {'determined': 0, 'consistent': 0}


def agree(c, res, exp, what):
    """list of mismatch descriptions.  For every element: either the contract DETERMINES the numpy value (proved), or - where the
    solver cannot complete the quantifier reasoning - the numpy value must at least be CONSISTENT with the contract
    (contract and result == numpy value is not refuted).  A contract that contradicts numpy fails here."""
    bad = []
    exp = np.asarray(exp)
    s = z3.Solver()
    s.set('timeout', 3000)
    s.add(c.pc)
    eqs = []
    if not isinstance(res, SArr):
        eqs.append(((), lift(res) == lift(exp.item())))
    else:
        if res.ndim != exp.ndim:
            return ['%s: ndim %d, numpy gives %d' % (what, res.ndim, exp.ndim)]
        for d in range(exp.ndim):
            eqs.append((('extent', d), res.shape_e[d] == exp.shape[d]))
        for ix in itertools.product(*[range(n) for n in exp.shape]):
            v = exp[ix]
            zi = [z3.IntVal(i) for i in ix]
            if exp.dtype != bool and np.issubdtype(exp.dtype, np.floating) and v != v:
                eqs.append((ix, res.nan(*zi) if res.nan is not None else z3.BoolVal(False)))
            else:
                e = res.elem(*zi) == lift(v.item())
                if res.nan is not None:
                    e = z3.And(e, z3.Not(res.nan(*zi)))
                eqs.append((ix, e))
    undetermined = []
    for tag, e in eqs:
        s.push()
        s.add(z3.Not(e))
        r = s.check()
        s.pop()
        if r == z3.unsat:
            STATS['determined'] += 1
        elif r == z3.sat and not any(core._has_quant(h) for h in c.pc):
            bad.append('%s: %s differs from numpy in a model of the (quantifier-free) contract' % (what, tag))
        else:
            undetermined.append(e)
    if undetermined and not bad:
        s.push()
        s.add(*[e for _, e in eqs])
        r = s.check()
        s.pop()
        if r == z3.unsat:
            bad.append('%s: the numpy result CONTRADICTS the assumed contract' % what)
        else:
            STATS['consistent'] += len(undetermined)
    return bad


def _cases():
    """(name, function of ctx returning (shim result, numpy result))"""
    C = []
    for n in (1, 3, 4):
        for bits in itertools.product((False, True), repeat=n):
            m = np.array(bits)
            C.append(('where%s' % (bits,), lambda c, m=m: (npshim.where(sym(c, m))[0], np.where(m)[0])))
    a5 = np.array([3.0, -1.5, 2.0, 2.0, 7.25])
    i5 = np.array([4, 0, -2, 9, 9])
    m23 = np.arange(6).reshape(2, 3) * 1.5
    C += [
        ('diff', lambda c: (npshim.diff(sym(c, a5)), np.diff(a5))),
        ('diff-axis0', lambda c: (npshim.diff(sym(c, m23), axis=0), np.diff(m23, axis=0))),
        ('abs', lambda c: (npshim.abs_(sym(c, a5)), np.abs(a5))),
        ('sign', lambda c: (npshim.sign(sym(c, i5)), np.sign(i5))),
        ('r_', lambda c: (npshim.r_[0, sym(c, i5), 7], np.r_[0, i5, 7])),
        ('c_', lambda c: (npshim.c_[sym(c, a5), sym(c, a5 * 2)], np.c_[a5, a5 * 2])),
        ('concatenate-axis1', lambda c: (npshim.concatenate((sym(c, m23), sym(c, m23[:, :1])), axis=1), np.concatenate((m23, m23[:, :1]), axis=1))),
        ('sum-of-concatenation', lambda c: (npshim.sum_(npshim.concatenate((sym(c, m23), sym(c, m23[:, :1])), axis=1), axis=1), np.concatenate((m23, m23[:, :1]), axis=1).sum(axis=1))),
        ('reshape-flat', lambda c: (npshim.reshape(sym(c, m23), -1), m23.reshape(-1))),
        ('reshape-2to3', lambda c: (npshim.reshape(sym(c, np.arange(12.0).reshape(2, 6)), (2, 3, 2)), np.arange(12.0).reshape(2, 3, 2))),
        ('reshape-row', lambda c: (npshim.reshape(sym(c, np.arange(6.0).reshape(1, 6)), (2, 3)), np.arange(6.0).reshape(2, 3))),
        ('tile', lambda c: (npshim.tile(sym(c, np.arange(3)), (2, 1)), np.tile(np.arange(3), (2, 1)))),
        ('repeat-cols', lambda c: (npshim.repeat(sym(c, np.arange(3)[:, None]), 2, axis=1), np.repeat(np.arange(3)[:, None], 2, axis=1))),
        ('arange', lambda c: (npshim.arange(2, 6), np.arange(2, 6))),
        ('linspace', lambda c: (npshim.linspace(0, 3, 4), np.linspace(0, 3, 4))),
        ('cumsum', lambda c: (npshim.cumsum(sym(c, a5)), np.cumsum(a5))),
        ('cumsum-2d', lambda c: (npshim.cumsum(sym(c, m23), axis=0), np.cumsum(m23, axis=0))),
        ('cumsum-2d-no-axis', lambda c: (npshim.cumsum(sym(c, m23)), np.cumsum(m23))),
        ('gradient', lambda c: (npshim.gradient(sym(c, a5)), np.gradient(a5))),
        ('gradient-2d', lambda c: (npshim.gradient(sym(c, m23.T), axis=0), np.gradient(m23.T, axis=0))),
        ('sum', lambda c: (npshim.sum_(sym(c, a5)), a5.sum())),
        ('sum-axis1', lambda c: (npshim.sum_(sym(c, m23), axis=1), m23.sum(axis=1))),
        ('sum-axis0', lambda c: (npshim.sum_(sym(c, m23), axis=0), m23.sum(axis=0))),
        ('mean-axis0', lambda c: (npshim.mean(sym(c, m23), axis=0), m23.mean(axis=0))),
        ('max', lambda c: (npshim.amax(sym(c, a5)), a5.max())),
        ('min', lambda c: (npshim.amin(sym(c, i5)), i5.min())),
        ('sort', lambda c: (npshim.sort(sym(c, i5)), np.sort(i5))),
        ('argmax-axis1', lambda c: (npshim.argmax(sym(c, np.array([[0, 1, 1], [2, 0, 2], [0, 0, 0]])), axis=1), np.argmax(np.array([[0, 1, 1], [2, 0, 2], [0, 0, 0]]), axis=1))),
        ('mask-gather', lambda c: (sym(c, a5)[sym(c, a5 > 1.9)], a5[a5 > 1.9])),
        ('mask-gather-col', lambda c: (sym(c, m23.T)[sym(c, np.array([True, False, True])), 1], m23.T[np.array([True, False, True]), 1])),
        ('sum-of-mask-gather', lambda c: (npshim.sum_(sym(c, a5)[sym(c, a5 > 1.9)]), a5[a5 > 1.9].sum())),
        ('fancy-gather', lambda c: (sym(c, a5)[sym(c, np.array([4, 0, 0, 2]))], a5[np.array([4, 0, 0, 2])])),
        ('broadcast_to', lambda c: (npshim.broadcast_to(sym(c, m23)[:, :, None], (2, 3, 2)), np.broadcast_to(m23[:, :, None], (2, 3, 2)))),
        ('squeeze', lambda c: (npshim.squeeze(sym(c, m23[:, :, None])), np.squeeze(m23[:, :, None]))),
        ('flatnonzero', lambda c: (npshim.flatnonzero(sym(c, np.array([0.0, 2.0, 0.0, -1.0]))), np.flatnonzero(np.array([0.0, 2.0, 0.0, -1.0])))),
        ('full_like-nan', lambda c: (npshim.isnan(npshim.full_like(sym(c, i5), np.nan, dtype=float)), np.isnan(np.full_like(i5, np.nan, dtype=float)))),
        ('nonzero', lambda c: (npshim.nonzero(sym(c, np.array([0, 3, 0, 0, 5])))[0], np.nonzero(np.array([0, 3, 0, 0, 5]))[0])),
        ('swapaxes', lambda c: (npshim.swapaxes(sym(c, m23), 0, 1), np.swapaxes(m23, 0, 1))),
        ('full_like', lambda c: (npshim.full_like(sym(c, a5), 3), np.full_like(a5, 3))),
        ('sum-keepdims', lambda c: (sym(c, m23).sum(axis=1, keepdims=True), m23.sum(axis=1, keepdims=True))),
        ('sum-keepdims0', lambda c: (npshim.sum(sym(c, m23), axis=0, keepdims=True), np.sum(m23, axis=0, keepdims=True))),
        ('logical_not', lambda c: (npshim.logical_not(sym(c, np.array([True, False, True]))), np.logical_not(np.array([True, False, True])))),
        ('squeeze-axis', lambda c: (npshim.squeeze(sym(c, m23[:, None, :, None]), axis=-1), np.squeeze(m23[:, None, :, None], axis=-1))),
        ('squeeze-axis1', lambda c: (npshim.squeeze(sym(c, m23[:, None, :]), axis=1), np.squeeze(m23[:, None, :], axis=1))),
        ('all-axis1', lambda c: (npshim.all_(sym(c, np.array([[True, True], [True, False]])), axis=1), np.all(np.array([[True, True], [True, False]]), axis=1))),
        ('any-axis1', lambda c: (npshim.any_(sym(c, np.array([[False, False], [True, False]])), axis=1), np.any(np.array([[False, False], [True, False]]), axis=1))),
        ('bool-plus-bool', lambda c: (sym(c, np.array([True, False, False])) + sym(c, np.array([True, True, False])), np.array([True, False, False]) + np.array([True, True, False]))),
        ('newaxis-minus', lambda c: (sym(c, a5)[:, None] - sym(c, a5[:2])[None, :], a5[:, None] - a5[:2][None, :])),
        ('where3', lambda c: (npshim.where(sym(c, a5 > 2), sym(c, a5), -1.0), np.where(a5 > 2, a5, -1.0))),
        ('clip', lambda c: (npshim.clip(sym(c, a5), -1, 1), np.clip(a5, -1, 1))),
        ('ceil', lambda c: (npshim.ceil(sym(c, np.array([-1.5, 2.0, 2.25]))), np.ceil(np.array([-1.5, 2.0, 2.25])))),
        ('dot-3x3', lambda c: (sym(c, np.array([[.5, -1, .5], [-2.5, 4, -1.5], [3, -3, 1]])).dot(sym(c, m23.T)), np.array([[.5, -1, .5], [-2.5, 4, -1.5], [3, -3, 1]]).dot(m23.T))),
    ]
    edges = np.array([1.0, 2.0, 4.0])
    vals = np.array([[0.5, 1.0], [1.5, 2.0], [4.0, 9.0], [np.nan, 3.999]])
    C.append(('digitize', lambda c: (npshim.digitize(sym(c, vals), sym(c, edges)), np.digitize(vals, edges))))
    vals2 = np.array([0.5, 1.0, 1.5, 2.0, 4.0, 9.0, 3.999])
    C.append(('digitize-right', lambda c: (npshim.digitize(sym(c, vals2), sym(c, edges), right=True), np.digitize(vals2, edges, right=True))))
    C.append(('searchsorted-left', lambda c: (npshim.searchsorted(sym(c, edges), sym(c, vals2)), np.searchsorted(edges, vals2))))
    C.append(('searchsorted-right', lambda c: (npshim.searchsorted(sym(c, edges), sym(c, vals2), side='right'), np.searchsorted(edges, vals2, side='right'))))
    C.append(('isclose', lambda c: (npshim.isclose(sym(c, np.array([1.0, 1.0 + 1e-9, 2.0, 0.0])), sym(c, np.array([1.0, 1.0, 2.1, 1e-9]))), np.isclose(np.array([1.0, 1.0 + 1e-9, 2.0, 0.0]), np.array([1.0, 1.0, 2.1, 1e-9])))))
    C.append(('ravel', lambda c: (sym(c, m23).ravel(), m23.ravel())))

    def setitems(c):
        out = sym(c, np.zeros(5))
        out[sym(c, np.array([1, 3]))] = 2.5
        ref = np.zeros(5)
        ref[np.array([1, 3])] = 2.5
        return out, ref
    C.append(('fancy-assign-scalar', setitems))

    def setslice(c):
        out = sym(c, np.zeros((3, 2)))
        out[1:3, 1] = sym(c, np.array([7.0, 8.0]))
        ref = np.zeros((3, 2))
        ref[1:3, 1] = np.array([7.0, 8.0])
        return out, ref
    C.append(('slice-assign', setslice))

    def setmask(c):
        out = sym(c, a5.copy())
        out[sym(c, a5 < 2.5)] = float('nan')
        ref = a5.copy()
        ref[a5 < 2.5] = np.nan
        return npshim.isnan(out), np.isnan(ref)
    C.append(('mask-assign-nan', setmask))

    def viewwrite(c):
        base = sym(c, np.zeros((3, 2)))
        v = base[:, :, None]
        v[1:, 0, 0] = 4.0
        ref = np.zeros((3, 2))
        ref[:, :, None][1:, 0, 0] = 4.0
        return base, ref
    C.append(('write-through-basic-view', viewwrite))

    # -- contracts added for kdt_match's greedy loop (C17)
    for nm, arr in (('unique-min', np.array([3.0, -1.5, 2.0, 7.25])), ('tie', np.array([2.0, 1.0, 1.0, 5.0])), ('single', np.array([4.0]))):
        C.append(('argmin-' + nm, lambda c, arr=arr: (npshim.argmin(sym(c, arr)), np.argmin(arr))))
    bm = np.array([[False, False, False], [True, False, True], [False, True, False]])
    C.append(('rowcount', lambda c: (npshim._rowcount(sym(c, bm)), bm.sum(axis=1))))
    C.append(('int-array-ne-inf', lambda c: (sym(c, i5) != np.inf, i5 != np.inf)))
    C.append(('int-array-eq-inf', lambda c: (sym(c, i5) == np.inf, i5 == np.inf)))
    C.append(('gather-with-all-true-mask', lambda c: (sym(c, i5)[sym(c, i5) != np.inf], i5[i5 != np.inf])))

    def unwrap_case(c, arr):
        for ax in npshim.pi_axioms():
            c.assume(ax)
        return npshim.unwrap(sym(c, arr)), np.unwrap(arr)
    # (one wrapped element per case: the exact comparison fixes pi from it; two of them give two slightly different floating-point pi's)
    for nm, arr in (('small-steps', np.array([0.3, 0.7, 1.1, 2.9, 3.5])), ('step-up', np.array([0.3, 0.7, 5.3])), ('step-down', np.array([6.0, 5.5, 0.4]))):
        C.append(('unwrap-' + nm, lambda c, arr=arr: unwrap_case(c, arr)))

    def deg2rad_case(c):
        # (one non-zero element: the exact comparison fixes the symbolic pi from it)
        for ax in npshim.pi_axioms():
            c.assume(ax)
        return npshim.deg2rad(sym(c, np.array([0.0, 90.0]))), np.deg2rad(np.array([0.0, 90.0]))
    C.append(('deg2rad', deg2rad_case))
    _ed = np.array([1.0, 2.0, 3.5])
    _vv = np.array([0.5, 1.0, 1.5, 2.0, 3.5, 9.0])
    C.append(('searchsorted-left', lambda c: (npshim.searchsorted(sym(c, _ed), sym(c, _vv)), np.searchsorted(_ed, _vv))))
    C.append(('searchsorted-right', lambda c: (npshim.searchsorted(sym(c, _ed), sym(c, _vv), side='right'), np.searchsorted(_ed, _vv, side='right'))))
    C.append(('arange-step', lambda c: (npshim.arange(0, 360, 51), np.arange(0, 360, 51))))
    C.append(('arange-negative-step', lambda c: (npshim.arange(5, -3, -2), np.arange(5, -3, -2))))
    C.append(('arange-step-empty', lambda c: (npshim.arange(4, 4, 3), np.arange(4, 4, 3))))

    def hstack_var(c):
        pieces = [np.array([4, 7]), np.array([], dtype=int), np.array([1, 1, 9])]
        LEN = z3.Function('lc_len', I, I)
        P = z3.Function('lc_piece', I, I, I)
        for j, pc in enumerate(pieces):
            c.assume(LEN(j) == len(pc))
            for q, v in enumerate(pc):
                c.assume(P(j, q) == int(v))
        sl = core.SymList(3, lambda j: SArr((LEN(lift(j)),), (lambda je: lambda q: P(je, q))(lift(j)), 'i'))
        return npshim._hstack_var(sl, 'i'), np.hstack(pieces)
    C.append(('hstack-of-variable-length-pieces', hstack_var))

    def scatter(c):
        out = sym(c, np.zeros(5))
        out[[3, 1, 3]] = sym(c, np.array([1.0, 2.0, 3.0]))
        ref = np.zeros(5)
        ref[[3, 1, 3]] = np.array([1.0, 2.0, 3.0])
        return out, ref
    C.append(('scatter-store-with-repeats', scatter))

    # -- numpy computes a derived array when the statement runs: later in-place updates of an operand do not reach it; a view sees them
    def derived_then_store(c):
        x = sym(c, a5.copy())
        y = x[1:] * 2
        m = x > 2.5
        z = x[1:].copy()
        v = x[1:]
        x[2] = 100.0
        x *= 2
        r = a5.copy()
        ry, rm, rz, rv = r[1:] * 2, r > 2.5, r[1:].copy(), r[1:]
        r[2] = 100.0
        r *= 2
        return [(y, ry), (m, rm), (z, rz), (v, rv), (x, r)]
    C.append(('derived-array-is-computed-when-the-statement-runs', derived_then_store))

    # -- small programs mixing views, derived arrays and in-place updates, run on the proxies and on numpy
    def prog_views(c):
        x = sym(c, a5.copy())
        v = x[1:4]
        v[0] = 5.0                      # write through a view
        y = x * 2                       # derived now
        x[2] = 7.0                      # later store: y keeps its value, v sees it
        v2 = v[1:]                      # view of a view
        x[3] = -1.0
        z = v2 + 1
        r = a5.copy()
        rv = r[1:4]
        rv[0] = 5.0
        ry = r * 2
        r[2] = 7.0
        rv2 = rv[1:]
        r[3] = -1.0
        rz = rv2 + 1
        return [(x, r), (v, rv), (y, ry), (v2, rv2), (z, rz)]
    C.append(('program-views-and-derived-arrays', prog_views))

    def prog_2d(c):
        X = sym(c, m23.copy())
        row = X[1]                      # view
        col = X[:, 2].copy()            # copy of a view
        s_ = npshim.sum_(X, axis=1)     # derived
        X[:, 0] = 9.0
        X[1, 1] *= 3
        t_ = X.T                        # view
        X[0, 2] = -4.0
        R_ = m23.copy()
        rrow, rcol, rs = R_[1], R_[:, 2].copy(), R_.sum(axis=1)
        R_[:, 0] = 9.0
        R_[1, 1] *= 3
        rt = R_.T
        R_[0, 2] = -4.0
        return [(X, R_), (row, rrow), (col, rcol), (s_, rs), (t_, rt)]
    C.append(('program-2d-views-copies-reductions', prog_2d))

    def prog_masks(c):
        x = sym(c, a5.copy())
        m = x > 2.5                     # derived mask
        x[m] = 0.0                      # masked store
        x[0] = 9.0                      # m keeps its value
        g = x[m]                        # gather with the OLD mask, NEW contents
        w_ = x[:3]
        w_ *= 2                         # in-place op on a view
        x -= 1                          # in-place op on the base
        r = a5.copy()
        rm = r > 2.5
        r[rm] = 0.0
        r[0] = 9.0
        rg = r[rm]
        rw = r[:3]
        rw *= 2
        r -= 1
        return [(x, r), (m, rm), (g, rg), (w_, rw)]
    C.append(('program-masks-and-inplace-ops', prog_masks))

    def asarray_alias(c):
        x = sym(c, a5.copy())
        w_ = npshim.asarray(x)
        w2 = npshim.asarray(x, dtype=float)
        cp = npshim.array(x)
        x[1] = 9.0
        r = a5.copy()
        rw, rw2, rcp = np.asarray(r), np.asarray(r, dtype=float), np.array(r)
        r[1] = 9.0
        return [(w_, rw), (w2, rw2), (cp, rcp)]
    C.append(('asarray-aliases-array-copies', asarray_alias))

    def astype_alias(c):
        x = sym(c, a5.copy())
        same = x.astype(float, copy=False)      # dtype already matches: the same array
        fresh = x.astype(float)                 # a copy
        x[1] = 9.0
        r = a5.copy()
        rsame, rfresh = r.astype(float, copy=False), r.astype(float)
        r[1] = 9.0
        return [(same, rsame), (fresh, rfresh)]
    C.append(('astype-copy-false-aliases', astype_alias))

    def interval(c):
        t = npshim.arange(-3, 9)
        m = npshim.logical_and(t >= 0, t < 5)
        return npshim.where(m)[0], np.where(np.logical_and(np.arange(-3, 9) >= 0, np.arange(-3, 9) < 5))[0]
    C.append(('where-interval-mask', interval))

    # the np.pad contracts used by C05
    def pad_reflect(c, a, w):
        from contracts import C05
        r = C05._pad_stub(sym(c, a), w, 'reflect', reflect_type='odd')
        # the stub fixes only some entries: check exactly those (interior, nearest pad values, monotonicity)
        ref = np.pad(a, w, 'reflect', reflect_type='odd')
        keep = list(range(w - 1, w + len(a) + 1))
        sub = SArr((len(keep),), lambda i: r.elem(i + (w - 1)), r.kind)
        mono = SArr((len(ref) - 1,), lambda i: z3.If(r.elem(i) < r.elem(i + 1), z3.IntVal(1), z3.IntVal(0)), 'i')
        return [(sub, ref[keep]), (mono, (np.diff(ref) > 0).astype(int)), (SInt(r.shape_e[0]), np.array(len(ref)))]
    for a, w in ((np.array([3, 8, 10, 15]), 2), (np.array([3, 8, 10]), 2), (np.array([2, 9]), 1), (np.array([1.5, 4.25, 9.0]), 2)):
        C.append(('np.pad-reflect-odd%s/%d' % (a.tolist(), w), lambda c, a=a, w=w: pad_reflect(c, a, w)))

    def pad_median(c):
        from contracts import C05
        a = np.array([3.0, 8.0, 10.0])
        return C05._pad_stub(sym(c, a), 2, 'median', stat_length=1), np.pad(a, 2, 'median', stat_length=1)
    C.append(('np.pad-median', pad_median))
    return C


def run():
    """returns (number of contracts cross-checked, list of failure descriptions)"""
    fails = []
    n = 0
    for name, fn in _cases():
        c = Ctx([], 'libcheck')
        Ctx.cur = c
        Ctx.spec = 0
        try:
            for ax in npshim.sum_axioms():
                c.assume(ax)
            out = fn(c)
            pairs = out if isinstance(out, list) else [out]
            for res, exp in pairs:
                fails += agree(c, res, exp, name)
            for o in c.obl:     # obligations of the shim itself (preconditions) must hold on these valid inputs
                if z3.is_true(o.goal):
                    continue
                s = z3.Solver()
                s.set('timeout', 4000)
                s.add(o.hyps)
                s.add(z3.Not(o.goal))
                if s.check() != z3.unsat:
                    fails.append('%s: precondition %s of the assumed contract fails on a valid numpy input' % (name, o.name))
            n += 1
        except Exception as ex:
            fails.append('%s: %s: %s' % (name, type(ex).__name__, ex))
        finally:
            Ctx.cur = None
    return n, fails


if __name__ == '__main__':
    import sys
    import time
    t = time.time()
    n, fails = run()
    print('lib cross-check: %d contracts, %d failures, %.1fs, %s' % (n, len(fails), time.time() - t, STATS))
    for f in fails:
        print('  FAIL', f)
    sys.exit(1 if fails else 0)
